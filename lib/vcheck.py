"""Driver shared by all checks: builds the harness from /repo's working tree, runs the stages of a
property, classifies what the monitors reported against known_findings.json, writes evidence."""
import hashlib
import json
import os
import subprocess
import sys
import time

VERIF = os.path.dirname(os.path.dirname(os.path.abspath(__file__)))
HARNESS = os.path.join(VERIF, "harness")
WORK = os.path.join(VERIF, "work")
TARGET = os.path.join(WORK, "target")
EVIDENCE = os.path.join(VERIF, "evidence")
REPLAY = os.path.join(VERIF, "replay")
REPO = "/repo"

ENV = dict(os.environ)
ENV.update({"CARGO_NET_OFFLINE": "true", "CARGO_TARGET_DIR": TARGET, "RUST_BACKTRACE": "0"})


def log(*a):
    print(*a, file=sys.stderr, flush=True)


class Inconclusive(Exception):
    pass


def empty_report(prop):
    return {"property": prop, "evaluations": 0, "distinct": [], "matrix": {}, "observed_only": {},
            "samples": [], "violations": [], "floors": {}, "pinned": {}, "notes": []}


def merge(a, b):
    a["evaluations"] += b.get("evaluations", 0)
    a["distinct"] = sorted(set(a["distinct"]) | set(b.get("distinct", [])))
    for key in ("matrix", "observed_only"):
        for k, v in b.get(key, {}).items():
            a[key][k] = a[key].get(k, 0) + v
    a["samples"].extend(b.get("samples", []))
    a["violations"].extend(b.get("violations", []))
    for k, v in b.get("floors", {}).items():
        a["floors"][k] = v
    a["pinned"].update(b.get("pinned", {}))
    a["notes"].extend(b.get("notes", []))
    return a


def ensure_lock():
    """The harness resolves exactly the versions /repo resolves (offline registry cache)."""
    lock = os.path.join(HARNESS, "Cargo.lock")
    if not os.path.exists(lock):
        src = os.path.join(REPO, "Cargo.lock")
        if not os.path.exists(src):
            src = os.path.join(HARNESS, "Cargo.lock.repo")
        with open(src) as f, open(lock, "w") as g:
            g.write(f.read())


def build(packages):
    ensure_lock()
    os.makedirs(WORK, exist_ok=True)
    cmd = ["cargo", "build", "--offline", "--quiet"]
    for p in packages:
        cmd += ["-p", p]
    t = time.time()
    r = subprocess.run(cmd, cwd=HARNESS, env=ENV, stdout=subprocess.PIPE, stderr=subprocess.STDOUT, text=True)
    if r.returncode != 0:
        errs = [l for l in r.stdout.splitlines() if l.startswith("error")][:10]
        raise Inconclusive("harness does not build against the current /repo tree: " + " | ".join(errs)
                           + "\n" + r.stdout[-3000:])
    log("[build] %s ok in %.1fs" % (" ".join(packages), time.time() - t))


def run_rt(prop, tier, seed, replay=None, extra=None, timeout=None):
    out = os.path.join(WORK, "out")
    os.makedirs(out, exist_ok=True)
    path = os.path.join(out, "%s-%s.json" % (prop, "replay" if replay else tier))
    if os.path.exists(path):
        os.remove(path)
    cmd = [os.path.join(TARGET, "debug", "rt"), prop, "--tier", tier, "--seed", str(seed), "--out", path]
    if replay:
        cmd += ["--replay", replay]
    cmd += extra or []
    timeout = timeout or (7200 if tier == "thorough" else 1500)
    try:
        r = subprocess.run(cmd, cwd=VERIF, env=ENV, timeout=timeout, stdout=subprocess.PIPE,
                           stderr=subprocess.STDOUT, text=True)
    except subprocess.TimeoutExpired:
        raise Inconclusive("watchdog: rt %s exceeded %ds" % (prop, timeout))
    if r.returncode != 0 or not os.path.exists(path):
        raise Inconclusive("rt %s exited %s: %s" % (prop, r.returncode, r.stdout[-2000:]))
    with open(path) as f:
        return json.load(f)


def load_known():
    p = os.path.join(VERIF, "known_findings.json")
    if not os.path.exists(p):
        return []
    with open(p) as f:
        return json.load(f)


def write_replay(prop, seed, tier, v):
    os.makedirs(REPLAY, exist_ok=True)
    h = hashlib.sha256(json.dumps([v.get("sig"), v.get("sub"), v.get("case_seed")]).encode()).hexdigest()[:12]
    path = os.path.join(REPLAY, "%s-%s.json" % (prop, h))
    doc = dict(v)
    doc.update({"property": prop, "seed": seed, "tier": tier})
    with open(path, "w") as f:
        json.dump(doc, f, indent=1)
    return path


def finish(prop, meta, tier, seed, report, t0, replay_mode=False):
    """Classify, print verdict lines, write evidence. Returns the exit code."""
    known = [k for k in load_known() if k.get("property") == prop and k.get("status") == "known"]
    by_sig = {}
    for k in known:
        for s in k.get("signatures", [k.get("signature")]):
            by_sig[s] = k
    new, suppressed = [], {}
    for v in report["violations"]:
        k = by_sig.get(v["sig"])
        if k is not None:
            suppressed.setdefault(k["id"], []).append(v)
        else:
            new.append(v)
    # pinned witnesses: a witness that fails must match a `known` entry with exactly that signature;
    # a fixed entry's witness (or any other) failing again is a fresh violation
    known_ids = {k["id"]: k for k in known}
    for pid, psig in list(report["pinned"].items()):
        k = known_ids.get(pid)
        if k is None or psig not in k.get("signatures", [k.get("signature")]):
            new.append({"sig": "pinned-witness-fails:%s:%s" % (pid, psig), "sub": "pinned", "case_seed": 0,
                        "detail": {"witness": pid, "observed": psig, "note": "no known finding with this id and signature"}})
            del report["pinned"][pid]
    lines = []
    for k in known:
        hits = suppressed.get(k["id"], [])
        pinned = report["pinned"].get(k["id"])
        if hits or pinned:
            lines.append("KNOWN-FINDING: property=%s %s [%s; %d occurrence(s) this run]"
                         % (prop, k["what"], k["id"], len(hits) + (1 if pinned else 0)))
        elif not replay_mode:
            log("[note] known finding %s did not reproduce in this run" % k["id"])
    seen_sigs = set()
    replay_paths = []
    for v in new:
        path = write_replay(prop, seed, tier, v)
        if v["sig"] not in seen_sigs and len(seen_sigs) < 25:
            seen_sigs.add(v["sig"])
            replay_paths.append(path)
            lines.append("VIOLATION property=%s replay=%s" % (prop, os.path.relpath(path, VERIF)))
            log("[violation] %s :: %s" % (v["sig"], json.dumps(v.get("detail"))[:600]))
    unmet = {k: v for k, v in report["floors"].items() if v[1] < v[0]}
    status = "violated" if new else ("inconclusive" if unmet and not replay_mode else "held")
    for l in lines:
        print(l, flush=True)
    if not replay_mode:
        distinct = len(report["distinct"])
        samples = report["samples"][:12]
        if not samples:
            samples = [{"note": "no sample recorded"}]
        ev = {
            "property_id": prop,
            "tier": tier,
            "seed": seed,
            "level": meta["level"],
            "coverage": {
                "evaluations": report["evaluations"],
                "distinct_nontrivial": distinct,
                "rule": meta["rule"],
                "samples": samples,
                "matrix": report["matrix"],
                "observed_only": report["observed_only"],
                "floors": {k: {"required": v[0], "seen": v[1]} for k, v in report["floors"].items()},
                "known_findings": {k["id"]: len(suppressed.get(k["id"], [])) + (1 if report["pinned"].get(k["id"]) else 0)
                                   for k in known},
                "notes": list(dict.fromkeys(report["notes"])),
            },
            "assumptions": meta["assumptions"],
            "wall_s": round(time.time() - t0, 2),
            "violations": len(new),
            "verdict": status,
        }
        if meta.get("exhaustive_note"):
            ev["coverage"]["exhaustive_part"] = meta["exhaustive_note"]
        os.makedirs(EVIDENCE, exist_ok=True)
        with open(os.path.join(EVIDENCE, "%s.json" % prop), "w") as f:
            json.dump(ev, f, indent=1, sort_keys=True)
    print("%s %s tier=%s seed=%d evaluations=%d distinct=%d violations=%d known=%d wall=%.1fs"
          % (prop, status.upper(), tier, seed, report["evaluations"], len(report["distinct"]), len(new),
             sum(len(v) for v in suppressed.values()), time.time() - t0), flush=True)
    if new:
        return 1
    if status == "inconclusive":
        log("[inconclusive] coverage floors not met: %s" % unmet)
        return 2
    return 0


def main(argv):
    from props import PROPS, setup
    if not argv or argv[0] in ("-h", "--help"):
        print(__doc__)
        return 2
    if argv[0] == "--setup":
        try:
            return setup()
        except Inconclusive as e:
            log("[setup failed] %s" % e)
            return 2
    prop = argv[0]
    if prop not in PROPS:
        log("unknown property %s" % prop)
        return 2
    tier = os.environ.get("VERIF_TIER", "quick")
    replay = None
    i = 1
    while i < len(argv):
        if argv[i] == "--tier":
            tier = argv[i + 1]
            i += 2
        elif argv[i] == "--replay":
            replay = os.path.abspath(argv[i + 1])
            i += 2
        else:
            log("unknown argument %s" % argv[i])
            return 2
    if tier not in ("quick", "thorough"):
        log("bad tier")
        return 2
    seed = int(os.environ.get("VERIF_SEED", "1"))
    meta = PROPS[prop]
    t0 = time.time()
    try:
        if replay:
            with open(replay) as f:
                doc = json.load(f)
            seed = doc.get("seed", seed)
            tier = doc.get("tier", tier)
        report = empty_report(prop)
        for stage in meta["stages"]:
            merge(report, stage(prop, tier, seed, replay))
        return finish(prop, meta, tier, seed, report, t0, replay_mode=bool(replay))
    except Inconclusive as e:
        log("[inconclusive] %s" % e)
        print("%s INCONCLUSIVE tier=%s seed=%d" % (prop, tier, seed), flush=True)
        return 2

#!/usr/bin/env python3
"""keep_mutant.py <prop> <worktree> <mN> <demo-crate> "<needs>" "<confirm output>"  -> /verif/seeded/<prop>-<mN>/"""
import sys, os, shutil, json
prop, wt, m, crate, needs, confirm = sys.argv[1:7]
d = "/verif/seeded/%s-%s" % (prop, m)
os.makedirs(d, exist_ok=True)
shutil.copy(os.path.join(wt, "demo", m + ".diff"), os.path.join(d, "patch.diff"))
shutil.copy(os.path.join(wt, "demo", m + "_demo.rs"), os.path.join(d, "demo.rs"))
notes = os.path.join(wt, "demo", "NOTES.md")
if os.path.exists(notes):
    shutil.copy(notes, os.path.join(d, "AUTHOR_NOTES.md"))
meta = {
    "id": "%s-%s" % (prop, m), "breaks_property": prop, "needs_to_manifest": needs,
    "demo": "copy demo.rs to %s/tests/%s_demo.rs and run `cargo test -p %s --test %s_demo --offline`" % (crate, m, crate, m),
    "confirmed": confirm,
    "confirmed_how": "lib/confirm_mutant.sh in a scratch worktree of /repo: patch applies, 112 baseline tests pass with it, demo fails with it and passes without",
    "detected_by": {},
}
json.dump(meta, open(os.path.join(d, "meta.json"), "w"), indent=1)
print("kept", d)

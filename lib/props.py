"""Registry: which stages decide which property, plus the evidence metadata."""
from vcheck import build, run_rt, log


def rt_stage(prop, tier, seed, replay):
    build(["rt"])
    return run_rt(prop, tier, seed, replay)


def setup():
    build(["vcore", "rt", "genrun", "labrt"])
    return 0


COMMON_ASSUME = [
    "the harness's reference models (vcore, written from the property text / RFCs) are themselves correct",
    "cases are drawn pseudo-randomly from VERIF_SEED; paths no generated case drives are not covered",
]

NOT_APPLICABLE = {}
HOOK_COMMITS = []

PROPS = {
    "C01": {
        "stages": [rt_stage],
        "engine": "rt",
        "technique": "runtime monitoring: differential round-trip oracle + independent wire-format model over generated value trees; Miri on the unsafe to_string path (thorough)",
        "level": "exploration",
        "level_text": "Held on every generated value tree in every encoder x decoder x source cell, with the emitted bytes "
                      "checked by an independent JSON/Smile model; exploration is the right level because the value space is unbounded "
                      "and the mechanism (re-wrapping at every serde entry point) is only refutable by driving each entry-point edge.",
        "rule": "random Node trees (every serde entry point, every key kind) and random root types pushed through "
                "every serializer x deserializer x source cell; a case is distinct by its set of (format, "
                "parent-kind>child-kind) edges, each edge counted once",
        "assumptions": COMMON_ASSUME + [
            "plain serde_smile's DOM parser is a faithful reader of Smile bytes",
            "the harness's strict RFC 8259 parser defines 'standard JSON'",
        ],
    },
}

"""Registry: which stages decide which property, plus the evidence metadata."""
from vcheck import build, run_rt, log
import bedb
import labchecks


def rt_stage(prop, tier, seed, replay):
    build(["rt"])
    return run_rt(prop, tier, seed, replay)


def setup():
    build(["vcore", "rt", "genrun", "labrt"])
    return 0


COMMON_ASSUME = [
    "the harness's reference models (vcore, written from the property text / RFCs) are themselves correct",
    "cases are drawn pseudo-randomly from VERIF_SEED; paths no generated case drives are not covered",
]

NOT_APPLICABLE = {}
HOOK_COMMITS = []

PROPS = {
    "C01": {
        "stages": [rt_stage],
        "engine": "rt",
        "technique": "runtime monitoring: differential round-trip oracle + independent wire-format model over generated value trees; Miri on the unsafe to_string path (thorough)",
        "level": "exploration",
        "level_text": "Held on every generated value tree in every encoder x decoder x source cell, with the emitted bytes "
                      "checked by an independent JSON/Smile model; exploration is the right level because the value space is unbounded "
                      "and the mechanism (re-wrapping at every serde entry point) is only refutable by driving each entry-point edge.",
        "rule": "random Node trees (every serde entry point, every key kind) and random root types pushed through "
                "every serializer x deserializer x source cell; a case is distinct by its set of (format, "
                "parent-kind>child-kind) edges, each edge counted once",
        "assumptions": COMMON_ASSUME + [
            "plain serde_smile's DOM parser is a faithful reader of Smile bytes",
            "the harness's strict RFC 8259 parser defines 'standard JSON'",
        ],
    },
}

def rt_prop(technique, level_text, rule, extra_assume=(), level="exploration"):
    return {"stages": [rt_stage], "engine": "rt", "technique": technique, "level": level,
            "level_text": level_text, "rule": rule, "assumptions": COMMON_ASSUME + list(extra_assume)}


PROPS["C04"] = rt_prop(
    "runtime monitoring: call/handler/return event log over a loop-back transport (random re-chunking, Pending between chunks), "
    "exactly-once + argument-equality + return-equality oracle; generated and macro clients, blocking and async, JSON and Smile",
    "Held on every generated call: the handler event log contains exactly one event with arguments equal to the supplied ones and the "
    "client returned the handler's value. Exploration over argument values for a fixed kitchen-sink definition (22 generated endpoints + 4 macro "
    "endpoints); random definitions are covered by the lab half when built.",
    "random requests against every endpoint of the generated SinkService and the macro HandService; distinct = (flavour, endpoint, outcome "
    "class, argument feature set, header representability)",
    ["the loop-back transport (harness/labrt) plays the HTTP stack: it routes on method + raw path segments and passes raw segments as PathParams",
     "Conjure JSON text equality is used as value equality (justified by C01)"])

PROPS["C05"] = rt_prop(
    "runtime monitoring: document mutation (undeclared member injection at a struct position found by a model walk) + server-rejects-naming-field / "
    "client-equals-uninjected oracle, JSON text and Smile DOM, all input sources",
    "Held on every injection: server deserializers returned an error naming an injected member, client deserializers returned the value of the "
    "uninjected document. Exploration over nesting contexts x payloads x positions.",
    "1-3 undeclared members injected into one struct object of a random Node tree or of a struct placed directly below list/option/map/newtype/struct; "
    "distinct = (format/side/source cell, container chain (last 3), payload kinds, position)",
    ["plain serde_smile re-encodes the mutated Smile DOM faithfully"])

PROPS["C11"] = rt_prop(
    "runtime monitoring: structured header generator + reference decision model written from the property text, compared with the real runtime "
    "(also through StdResponseSerializer's Content-Type)",
    "Held on every generated Accept / Content-Type header and ordered registration: the chosen encoding was one the reference model allows. "
    "Cases the property leaves open are counted as observed-only, never judged.",
    "Accept headers rendered from 0-6 structured ranges (registered/other types, type/*, */*, q in thousandths, parameters, OWS, case, several header "
    "lines, unparsable entries) x ordered subsets of 5 encodings; distinct = (deciding rule, #ranges, registration order, garbage?, params?)",
    ["media types compare case-insensitively; unparsable list entries are ignored (both checked against the real parser by agreement on every case)"])

PROPS["C07"] = rt_prop(
    "runtime monitoring: independent RFC 3986 splitter/percent-decoder over the URI strings clients hand to the transport + real server-side "
    "decoders on the raw pieces; exhaustive single ASCII bytes and reserved pairs, random Unicode, long values",
    "Held on every built URI except the pinned known finding (URIs longer than 65534 bytes panic): segment count, literal segments, query pair "
    "count/order/keys and decoded values all equal the supplied ones, and the real server decoders return the original values.",
    "UriBuilder driven by random templates (literals, path parameters, query pairs) with hostile values; every ASCII byte alone in 4 positions and "
    "all ordered pairs of 33 reserved characters (exhaustive parts); URIs produced by generated and macro clients (blocking/async); distinct = "
    "(sub-monitor/endpoint, per-position character classes)",
    ["dot-segment values ('.', '..') are only checked structurally (no normalising intermediary is modelled)"])

PROPS["C06"] = rt_prop(
    "runtime monitoring with fault injection: constructively built bodies (valid / trailing data / truncated / corrupted / unknown member / wrong kind / "
    "at-limit sizes, JSON and Smile) x Content-Type classes x chunkings x injected stream errors, delivered straight to generated and macro endpoints "
    "(blocking, async with Pending between chunks); handler-event oracle",
    "Held on every delivery: the handler ran exactly when the reference decision (encoding named by Content-Type, no stream error, within the limit, "
    "body constructed as exactly one document) says so, with the document's value; rejections were INVALID_ARGUMENT or the injected stream error; no panic. "
    "All chunkings x error positions of 10 small bodies are enumerated completely.",
    "random (endpoint, body class, format, content-type class, chunking, error position, flavour) tuples + complete enumeration of chunkings (with "
    "interleaved empty chunks) x stream-error positions for small bodies; distinct = (endpoint, body class, format, content-type class, chunk-path class, "
    "error position class, flavour, oversize?)",
    ["expected handler value is obtained with the client-side deserializer from the generated document (C01/C02 cover that path)",
     "0xFF after a Smile document is the format's end-of-content marker, not trailing data"],
    level="fault_enumeration")

PROPS["C12"] = rt_prop(
    "runtime monitoring: round-trip law from_plain(to_plain(v)) == v plus independent spelling recognisers over bit-pattern / boundary / grammar-driven domains",
    "Held on every generated value of every PLAIN type; fixed grids make the coverage floors hold at any seed (every f64 exponent, every binary length 0..64, "
    "both ends and every year boundary of 0000-9999).",
    "fixed grid + random batches per type; distinct = structural classes (type, exponent/class, length class, fraction class, grammar class)",
    ["generated enums and aliases are covered by the lab half (Bed B)", "sign of -0.0 and NaN payloads are observed-only"])

PROPS["C13"] = rt_prop(
    "runtime monitoring: round-trip / JSON-equivalence / coercion-parity oracles over Node trees, a leaf x shape grid of every integer width and random JSON documents",
    "Held on every value and document after two fix commits (i128/u128, newtype structs): Any -> static type returns the original, json(any) is equivalent to json(v), "
    "documents re-serialize equivalently, and valid documents view as the static type like direct parsing.",
    "17 leaf types x 21 shapes (pinned + random), Node trees, random JSON documents with 64-bit integers; distinct = (oracle, leaf, shape) and document classes",
    ["error parity on invalid documents is not claimed by the property and not judged"])

PROPS["C14"] = rt_prop(
    "runtime monitoring: algebraic law checker (reflexive/symmetric/antisymmetric/transitive, cmp==Equal<=>eq, eq=>hash eq, NaN greatest, set/map class counts) "
    "over all triples of colliding value pools; Miri on the same law enumeration incl. the educe-derived unsafe comparison code of generated types (thorough)",
    "Held on all triples of every pool for DoubleKey, every DoubleOps implementation and generator-style Educe wrappers; generated types of random definitions "
    "are covered by the lab half when built.",
    "36-element pools built to collide (NaN payloads, +-0, infinities, prefix-related lists/maps) for 17 types, all triples; distinct = (type, pair class)",
    ["+0 == -0 under OrderedFloat is accepted (the property only demands law-consistency)"])

PROPS["C15"] = rt_prop(
    "runtime monitoring: range invariant (Ok(s) => |s| <= 2^53-1 and s == input; in-range canonical => Ok; out-of-range => Err) asserted on 44 construction / "
    "deserialization routes over exhaustive boundary neighbourhoods and random bit patterns",
    "Held on every integer x route; neighbourhoods (+-1024) of 20 anchors and +-2^k+-1 for all k are enumerated completely.",
    "exhaustive neighbourhoods + powers + random integers + non-canonical spellings, each through 44 routes; distinct = (route, canonical?, sign, range class, bit length)",
    ["an Any built from an i128 and read as SafeLong is judged only on the range invariant (cross-width view, observed-only for acceptance)"])

PROPS["C16"] = rt_prop(
    "runtime monitoring: exhaustive bounded enumeration + random mutants through 15 entry paths, compared with hand-written grammar recognisers; rendering and "
    "component-accessor agreement",
    "Held on every string: all 406901 token strings of length <= 4 over a 25-character boundary alphabet, all rid component tuples (<= 2 chars each) and 333335 "
    "frame variants are enumerated completely (exhaustive part), plus random long strings and one-edit mutants.",
    "exhaustive enumeration of bounded strings + random/mutated strings, each through FromStr/new/from_plain/JSON/Smile/Any paths and from_components; "
    "distinct = (path, shape class)",
    ["recognisers in vcore::models are written from the grammar in the property text"])

PROPS["C17"] = rt_prop(
    "runtime monitoring: model-based oracle (stringify model from the property text) over random dynamic error types x constructors x instance-id modes; "
    "partition invariant on safe/unsafe parameter sets; exhaustive status table",
    "Held on every generated error: encode() matches the model, JSON round trip is the identity, each key is in exactly one set (safe iff declared, all unsafe "
    "when propagated), status codes match the specification table.",
    "random DynError (22 parameter classes, 64 safe lists, 4 id modes) through encode and 4 constructors; 10 status codes and 8 built-in errors exhaustively; "
    "distinct = structural classes",
    ["non-finite double parameters and datetime/token/safelong/any parameters are observed-only beyond equality with their JSON string form",
     "generated error types of random definitions are covered by the lab half when built"])

PROPS["C09"] = rt_prop(
    "runtime monitoring: taint canaries - every argument value and token is a fresh unique canary; after each request (valid, or with any subset of "
    "arguments corrupted) every safe-to-log channel (SafeParams extension, error safe params, cause text when flagged safe) is searched for the canaries of "
    "non-safe arguments; positive check of declared-safe arguments on success; BearerToken Debug constant",
    "Held on every request: no canary of a non-safe argument or of the auth token appeared in a safe channel, SafeParams held only declared-safe arguments "
    "with their values, and all of them on success.",
    "requests rendered from a declarative wire description of 8 generated + 3 macro endpoints (every safety declaration form), 2/3 of them with 1-3 "
    "corrupted arguments (absent, repeated, unparsable, not text, bad auth, malformed body); blocking and async; distinct = (flavour, endpoint, corruption pattern)",
    ["the per-argument safe/non-safe table in taint.rs is derived by hand from sink-ir.json using the rules of C08",
     "booleans, enums and datetimes carry no canary (too little entropy to track)"])

PROPS["C19"] = rt_prop(
    "runtime monitoring with fault injection: any subset of path/query/header/auth/body arguments corrupted (absent, repeated, unparsable, not valid text, "
    "bad auth, malformed body); oracle on handler events + error kind/code + safe 'param' entry against the declared names",
    "Held on every request after the fix commit for header names: corrupted requests never reached the handler, produced INVALID_ARGUMENT (PERMISSION_DENIED "
    "for auth) naming a corrupted argument by its declared name; uncorrupted requests succeeded.",
    "same workload as C09; argument names whose Rust spelling differs (camelCase -> snake_case, keywords type/match, macro log_as); distinct = (flavour, "
    "endpoint, corruption pattern)",
    ["when several arguments are corrupted any of them may be named; when auth/body and a parameter are both bad either error is accepted"])

PROPS["C18"] = rt_prop(
    "runtime monitoring with fault injection: scripted responses (status x Content-Type x constructively built body x chunking x stream-error position) "
    "against generated clients of every return class and macro clients; reference decision by construction; blocking/async differential",
    "Held on every scripted response: a value was returned exactly when the Content-Type was the requested one and the whole body was one document of the "
    "return type (then equal to the constructed value for every chunking), 204 gave the empty value, everything else an error; the blocking and async twins "
    "always agreed. All chunkings x error positions of 8 small responses are enumerated completely.",
    "random (endpoint of each return class, status, content-type class, body class, chunking, error position) + complete enumeration for small bodies; "
    "distinct = (endpoint, status, content-type class, body class, chunk-path class, error position class, flavour)",
    ["Content-Type with parameters or different case, 2xx statuses other than 200/204, a 204 with a body and invalid UTF-8 skipped by unit endpoints are observed-only"],
    level="fault_enumeration")

PROPS["C08"] = {
    "stages": [bedb.c08_stage], "engine": "gen",
    "technique": "runtime monitoring of the real generator: random cyclic type graphs -> conjure_codegen (library) -> emitted #[path|query|header|body(..., safe)] "
                 "attributes parsed with syn, compared with a greatest-fixpoint reference model written from the property text; metamorphic check over 6 "
                 "permutations of every definition",
    "level": "exploration",
    "level_text": "Held on every generated definition: the set of arguments marked safe equals the model's, identically for the blocking and async traits "
                  "and for all 6 declaration orders.",
    "rule": "random definitions biased to cycles (self loops, mutual recursion through optional/list/map/union) with SAFE/UNSAFE/DO_NOT_LOG/unannotated leaves and "
            "explicit/legacy/undeclared arguments; distinct = (decision source, reaches a cycle?, parameter kind, expected marker, graph size)",
    "assumptions": COMMON_ASSUME + ["the IR generator stays inside the validity envelope of DESIGN.md Appendix A",
                                   "observation = attributes of the emitted server traits (what conjure-macros turns into SafeParams inserts, see C09)"],
}

PROPS["C20"] = {
    "stages": [bedb.c20_stage], "engine": "gen",
    "technique": "runtime monitoring of the real generator across independent process executions: byte-level differential of the emitted trees (library entry vs "
                 "conjure-rust CLI, different cwd/TMPDIR/HOME/LANG/TZ, per-process hash seeds) + strace file-syscall monitor for containment",
    "level": "exploration",
    "level_text": "Held on every definition x configuration: four separate process executions (two through the library entry point, two through the CLI with the "
                  "equivalent flags) produced byte-identical file trees, and every created/written/renamed/removed path observed by strace lay beneath the requested output directory.",
    "rule": "random definitions (3-40 types, 0-3 services, errors) and the 4 IR files in the repository x {exhaustive, serializeEmptyCollections, stripPrefix, crate} "
            "configurations x 4 process runs; distinct = (origin, configuration)",
    "assumptions": COMMON_ASSUME + ["strace -f -e trace=%file sees every path-taking system call of the CLI process",
                                   "library flags passed by genrun are the documented equivalents of the CLI flags (see conjure-rust/src/main.rs)"],
}

PROPS["C03"] = {
    "stages": [labchecks.c03_stage], "engine": "lab",
    "technique": "runtime monitoring of the real generator and rustc: random hostile definitions -> conjure_codegen -> lab crates whose driver names every declared item "
                 "by module path -> cargo build; generator result and compiler diagnostics are the observed events; pinned micro-definitions for known findings",
    "level": "exploration",
    "level_text": "Held on every random definition x configuration: generation reported success and the emitted module tree compiled with every declared item reachable; "
                  "known non-compiling shapes are carried as pinned witnesses.",
    "rule": "random definitions (25-55 types, 2-4 services, errors, nested/keyword packages, Rust keywords and prelude names as identifiers) x {exhaustive, "
            "serializeEmptyCollections, stripPrefix}; distinct = (size/config shape, type kinds, argument kind x type kind)",
    "assumptions": COMMON_ASSUME + ["the IR generator only emits definitions the Conjure compiler accepts (DESIGN.md Appendix A); doubtful shapes are left out",
                                   "rustc + the runtime crates of the working tree are the judge of 'compiles'"],
}

LAB_ASSUME = COMMON_ASSUME + [
    "the wire model (irgen/wire.py) is written from the Conjure wire specification / the property text and is checked for self-consistency",
    "the IR generator only emits definitions the Conjure compiler accepts (DESIGN.md Appendix A)",
    "documents the property leaves open (positional arrays, null collections, duplicate members, 1.0 for an integer) are not generated",
]

PROPS["C02"] = {
    "stages": [labchecks.wire_stage], "engine": "lab",
    "technique": "runtime monitoring of generated code: random definitions -> real generator -> rustc -> lab binary deserializes model-generated documents (canonical, "
                 "legal non-canonical spellings, single-fault invalid) with the client and server deserializers and re-serializes; verdicts and canonical output compared "
                 "with an independent Python model of the wire format",
    "level": "exploration",
    "level_text": "Held on every generated type x document: valid documents were accepted by both deserializers and re-serialized to the canonical form (exact member sets, "
                  "encodings), single-fault documents were rejected, parsing was deterministic and stable under JSON and Smile re-encoding.",
    "rule": "3 (quick) / 12 (thorough) labs of 40-60 random types x 6-20 values x (canonical + non-canonical + up to 4 fault classes); distinct = (type shape, case class, configuration)",
    "assumptions": LAB_ASSUME,
}

PROPS["C10"] = {
    "stages": [labchecks.wire_stage], "engine": "lab",
    "technique": "runtime monitoring of generated code: unlisted well-formed enum names and unlisted union variants with arbitrary JSON payloads (both member orders) and every "
                 "listed value, through client and server deserializers of the same definition built exhaustive and non-exhaustive; round-trip equivalence + unknown-classification oracle",
    "level": "exploration",
    "level_text": "Held on every enum/union of the random definitions: non-exhaustive builds accepted unlisted values, exposed them as unknown and re-serialized them equivalently "
                  "while listed values were never classified unknown; exhaustive builds rejected exactly the unlisted ones.",
    "rule": "every enum and union of the C02 labs x (listed values, ~8 unlisted names / variants with random payloads) plus the regular valid/invalid documents of those types; "
            "distinct = (type shape, case class, configuration)",
    "assumptions": LAB_ASSUME + ["unknown-ness is observed through the Debug rendering of the parsed value (variant name Unknown...)"],
}

# lab halves (generated enums / aliases / objects / unions / errors of random definitions)
PROPS["C12"]["stages"] = [rt_stage, labchecks.plain_stage]
PROPS["C12"]["assumptions"] = [a for a in PROPS["C12"]["assumptions"] if "lab half" not in a] + ["generated enums and aliases: lab half (random definitions, real generator, rustc)"]
PROPS["C14"]["stages"] = [rt_stage, labchecks.laws_stage]
PROPS["C14"]["assumptions"] = [a for a in PROPS["C14"]["assumptions"]] + ["generated types of random definitions: lab half, all triples of 14-30 values per double-bearing type"]
PROPS["C17"]["stages"] = [rt_stage, labchecks.errors_stage]


MIRI_PLAN = {
    # property: (processes, scale of the random sub-monitors, what is interpreted)
    "C01": (12, "0.001", "the unsafe to_string path and the dependency unsafe reached through the wrappers"),
    # C14's fixed sub-monitors (all triples over the colliding pools, incl. the generated sink types whose educe-derived
    # Ord/Hash code contains unsafe discriminant reads) run in full whatever the scale: one process, ~30 min
    "C14": (1, "0.00001", "DoubleKey / DoubleOps and the educe-derived comparison code (unsafe discriminant reads) of the generated sink types"),
}


def miri_stage(prop, tier, seed, replay):
    """Thorough only: the same monitor interpreted by Miri (UB, invalid UTF-8, uninitialised reads). ~0.6 s per oracle evaluation of C01,
    so a few trees per process, 12 processes; C14 runs its fixed law enumeration once."""
    import json, os, subprocess, time
    from concurrent.futures import ThreadPoolExecutor
    from vcheck import HARNESS, WORK, ENV, empty_report, merge, Inconclusive
    rep = empty_report(prop)
    if tier != "thorough" or replay:
        return rep
    procs, scale, what = MIRI_PLAN[prop]
    env = dict(ENV)
    env.update({"MIRIFLAGS": "-Zmiri-disable-isolation", "CARGO_TARGET_DIR": os.path.join(WORK, "target-miri")})
    t = time.time()
    b = subprocess.run(["cargo", "+nightly", "miri", "run", "--offline", "-q", "-p", "rt", "--", "C01", "--threads", "1", "--scale", "0.00001", "--out", os.path.join(WORK, "out", "miri-warm.json")],
                       cwd=HARNESS, env=env, stdout=subprocess.PIPE, stderr=subprocess.STDOUT, text=True)
    if b.returncode != 0 and "Undefined Behavior" not in b.stdout:
        rep["notes"].append("miri stage skipped: cargo +nightly miri not usable here (%s)" % b.stdout[-200:].replace("\n", " "))
        return rep
    log("[miri] built/warmed in %.0fs" % (time.time() - t))
    def one(k):
        out = os.path.join(WORK, "out", "miri-%s-%d.json" % (prop, k))
        if os.path.exists(out):
            os.remove(out)
        try:
            r = subprocess.run(["cargo", "+nightly", "miri", "run", "--offline", "-q", "-p", "rt", "--", prop, "--threads", "1", "--scale", scale, "--seed", str(seed * 1000 + k), "--out", out],
                               cwd=HARNESS, env=env, stdout=subprocess.PIPE, stderr=subprocess.STDOUT, text=True, timeout=3 * 3600)
        except subprocess.TimeoutExpired:
            raise Inconclusive("watchdog: the Miri process of %s exceeded 3 h" % prop)
        return k, r, out
    with ThreadPoolExecutor(max_workers=12) as ex:
        for k, r, out in ex.map(one, range(procs)):
            if "Undefined Behavior" in r.stdout or (r.returncode != 0 and "error:" in r.stdout):
                tail = r.stdout[r.stdout.find("error"):][:1200]
                rep["violations"].append({"sig": "miri:undefined-behaviour-or-abort", "sub": "miri", "case_seed": seed * 1000 + k, "detail": {"miri_output": tail}})
            elif os.path.exists(out):
                with open(out) as f:
                    part = json.load(f)
                part["floors"] = {}
                part["samples"] = []
                merge(rep, part)
                rep["matrix"]["miri/evaluations"] = rep["matrix"].get("miri/evaluations", 0) + part["evaluations"]
    rep["notes"].append("miri: %d oracle evaluations of the %s monitor were also executed under cargo +nightly miri (%d process(es)): %s" % (rep["matrix"].get("miri/evaluations", 0), prop, procs, what))
    return rep


PROPS["C01"]["stages"] = [rt_stage, miri_stage]
PROPS["C14"]["stages"] = [rt_stage, labchecks.laws_stage, miri_stage]

PROPS["C04"]["stages"] = [rt_stage, labchecks.services_stage]
PROPS["C04"]["level_text"] = PROPS["C04"]["level_text"].replace("random definitions are covered by the lab half when built.",
    "Random definitions: lab half - generated clients and server traits of random services are compiled and every endpoint is called through the loop-back transport "
    "(recording handlers and client dispatchers are copied from the generated signatures by `genrun drive`).")
PROPS["C09"]["stages"] = [rt_stage, labchecks.services_stage]
PROPS["C09"]["assumptions"] = PROPS["C09"]["assumptions"] + ["lab half: for every call of a generated random service the SafeParams extension holds exactly the arguments the C08 model calls safe"]

PROPS["C19"]["stages"] = [rt_stage, labchecks.raw_stage]
PROPS["C06"]["stages"] = [rt_stage, labchecks.bodies_stage]
PROPS["C06"]["assumptions"] = PROPS["C06"]["assumptions"] + ["lab half: raw requests with hostile bodies (valid in several styles, padded to limit-1..limit+2, trailing data, truncated, malformed, single wire faults), "
    "Content-Type classes, random chunkings and stream errors against the generated endpoints of random services (optional and required bodies, endpoints with server-limit-request-size tags), blocking and async"]
PROPS["C18"]["stages"] = [rt_stage, labchecks.responses_stage]
PROPS["C18"]["assumptions"] = PROPS["C18"]["assumptions"] + ["lab half: generated clients of random services (all return classes) are handed canned responses (200/204, Content-Type classes, valid / faulty / malformed bodies, "
    "random chunkings, stream errors) by the transport; blocking and async clients must also agree with each other"]
PROPS["C19"]["assumptions"] = PROPS["C19"]["assumptions"] + ["lab half: raw requests (valid / with 1-2 corrupted path, query, header or auth arguments) against the generated endpoints of random services, blocking and async"]

PROPS["C07"]["stages"] = [rt_stage, labchecks.services_stage]
PROPS["C07"]["assumptions"] = PROPS["C07"]["assumptions"] + ["lab half: the URIs built by generated clients of random services (any parameter types, aliases, optionals, lists, sets) are split by an independent RFC 3986 splitter in Python"]

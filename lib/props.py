"""Registry: which stages decide which property, plus the evidence metadata."""
from vcheck import build, run_rt, log


def rt_stage(prop, tier, seed, replay):
    build(["rt"])
    return run_rt(prop, tier, seed, replay)


def setup():
    build(["vcore", "rt", "genrun", "labrt"])
    return 0


COMMON_ASSUME = [
    "the harness's reference models (vcore, written from the property text / RFCs) are themselves correct",
    "cases are drawn pseudo-randomly from VERIF_SEED; paths no generated case drives are not covered",
]

NOT_APPLICABLE = {}
HOOK_COMMITS = []

PROPS = {
    "C01": {
        "stages": [rt_stage],
        "engine": "rt",
        "technique": "runtime monitoring: differential round-trip oracle + independent wire-format model over generated value trees; Miri on the unsafe to_string path (thorough)",
        "level": "exploration",
        "level_text": "Held on every generated value tree in every encoder x decoder x source cell, with the emitted bytes "
                      "checked by an independent JSON/Smile model; exploration is the right level because the value space is unbounded "
                      "and the mechanism (re-wrapping at every serde entry point) is only refutable by driving each entry-point edge.",
        "rule": "random Node trees (every serde entry point, every key kind) and random root types pushed through "
                "every serializer x deserializer x source cell; a case is distinct by its set of (format, "
                "parent-kind>child-kind) edges, each edge counted once",
        "assumptions": COMMON_ASSUME + [
            "plain serde_smile's DOM parser is a faithful reader of Smile bytes",
            "the harness's strict RFC 8259 parser defines 'standard JSON'",
        ],
    },
}

def rt_prop(technique, level_text, rule, extra_assume=(), level="exploration"):
    return {"stages": [rt_stage], "engine": "rt", "technique": technique, "level": level,
            "level_text": level_text, "rule": rule, "assumptions": COMMON_ASSUME + list(extra_assume)}


PROPS["C04"] = rt_prop(
    "runtime monitoring: call/handler/return event log over a loop-back transport (random re-chunking, Pending between chunks), "
    "exactly-once + argument-equality + return-equality oracle; generated and macro clients, blocking and async, JSON and Smile",
    "Held on every generated call: the handler event log contains exactly one event with arguments equal to the supplied ones and the "
    "client returned the handler's value. Exploration over argument values for a fixed kitchen-sink definition (22 generated endpoints + 4 macro "
    "endpoints); random definitions are covered by the lab half when built.",
    "random requests against every endpoint of the generated SinkService and the macro HandService; distinct = (flavour, endpoint, outcome "
    "class, argument feature set, header representability)",
    ["the loop-back transport (harness/labrt) plays the HTTP stack: it routes on method + raw path segments and passes raw segments as PathParams",
     "Conjure JSON text equality is used as value equality (justified by C01)"])

PROPS["C05"] = rt_prop(
    "runtime monitoring: document mutation (undeclared member injection at a struct position found by a model walk) + server-rejects-naming-field / "
    "client-equals-uninjected oracle, JSON text and Smile DOM, all input sources",
    "Held on every injection: server deserializers returned an error naming an injected member, client deserializers returned the value of the "
    "uninjected document. Exploration over nesting contexts x payloads x positions.",
    "1-3 undeclared members injected into one struct object of a random Node tree or of a struct placed directly below list/option/map/newtype/struct; "
    "distinct = (format/side/source cell, container chain (last 3), payload kinds, position)",
    ["plain serde_smile re-encodes the mutated Smile DOM faithfully"])

PROPS["C11"] = rt_prop(
    "runtime monitoring: structured header generator + reference decision model written from the property text, compared with the real runtime "
    "(also through StdResponseSerializer's Content-Type)",
    "Held on every generated Accept / Content-Type header and ordered registration: the chosen encoding was one the reference model allows. "
    "Cases the property leaves open are counted as observed-only, never judged.",
    "Accept headers rendered from 0-6 structured ranges (registered/other types, type/*, */*, q in thousandths, parameters, OWS, case, several header "
    "lines, unparsable entries) x ordered subsets of 5 encodings; distinct = (deciding rule, #ranges, registration order, garbage?, params?)",
    ["media types compare case-insensitively; unparsable list entries are ignored (both checked against the real parser by agreement on every case)"])

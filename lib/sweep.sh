#!/bin/bash
# sweep.sh <tier> <seed>... : every check at every given seed on the current tree; prints one line per run and a summary of non-HELD runs
tier=$1; shift
cd "$(dirname "$0")/.."
bad=0
for s in "$@"; do
  for p in C01 C02 C03 C04 C05 C06 C07 C08 C09 C10 C11 C12 C13 C14 C15 C16 C17 C18 C19 C20; do
    out=$(VERIF_SEED=$s ./check $p --tier $tier 2>&1); rc=$?
    line=$(echo "$out" | grep -E "^$p (HELD|VIOLATED|INCONCLUSIVE)" | tail -1)
    echo "rc=$rc $line"
    if [ $rc -ne 0 ]; then bad=$((bad+1)); echo "$out" | grep -E "^\[(inconclusive|violation)\]" | cut -c1-600 | head -5; fi
  done
done
echo "SWEEP non-HELD runs: $bad"

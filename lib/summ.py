#!/usr/bin/env python3
"""Concise summary of an rt report: ./lib/summ.py /tmp/x.json [n_examples]"""
import json, sys
from collections import Counter
r = json.load(open(sys.argv[1]))
n = int(sys.argv[2]) if len(sys.argv) > 2 else 3
print("evals", r["evaluations"], "distinct", len(r["distinct"]), "cells", len(r["matrix"]), "floors", r["floors"])
print("observed_only", r["observed_only"], "pinned", r["pinned"])
c = Counter(v["sig"] for v in r["violations"])
for k, v in c.most_common(30):
    print("  ", v, k)
seen = set()
for v in r["violations"]:
    if v["sig"] in seen:
        continue
    seen.add(v["sig"])
    if len(seen) > n:
        break
    print(json.dumps(v)[:900])

#!/bin/bash
# intake.sh <prop> <worktree> <mN> <id> [demo-crate-for-rs-demos]
# confirms a seeded change in its scratch worktree (suite still 112, demo fails with / passes without), prints RESULT
set -u
prop=$1; wt=$2; m=$3; id=$4; crate=${5:-}
cd "$wt" || exit 2
export CARGO_NET_OFFLINE=true RUST_BACKTRACE=0
git checkout -q -- . ; [ -n "$crate" ] && rm -rf "$crate/tests"
git apply "demo/$m.diff" || { echo "RESULT $id patch-does-not-apply"; exit 1; }
suite=$(cargo test --workspace --lib --tests --offline 2>&1 | grep -E "^test result" | awk '{p+=$4; f+=$6} END {print p" passed "f" failed"}')
rundemo() {
  if [ -d "demo/${m}_demo" ]; then
    (cd "demo/${m}_demo" && CARGO_TARGET_DIR="$wt/target/demo-$m" cargo test --offline 2>&1 | grep -E "^test result: FAILED|error: could not compile|^error\[" | head -1)
  else
    mkdir -p "$crate/tests"; cp "demo/${m}_demo.rs" "$crate/tests/"; cp demo/*.json "$crate/tests/" 2>/dev/null
    cargo test -p "$crate" --test "${m}_demo" --offline 2>&1 | grep -E "^test result: FAILED|error: could not compile" | head -1
  fi
}
with=$(rundemo)
git apply -R "demo/$m.diff"
without=$(rundemo)
[ -n "$crate" ] && rm -rf "$crate/tests"; git checkout -q -- .
ok="NOT-CONFIRMED"; [ "$suite" = "112 passed 0 failed" ] && [ -n "$with" ] && [ -z "$without" ] && ok="CONFIRMED"
echo "RESULT $id $ok suite=[$suite] with=[${with:0:80}] without=[${without:0:60}]"

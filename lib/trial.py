#!/usr/bin/env python3
"""trial.py [--tier quick|thorough] <seeded-id>... : applies each seeded change to /repo, runs the check of the property it
breaks (quick tier), records exit code / violation signatures into seeded/<id>/meta.json, and reverts /repo."""
import json, os, subprocess, sys, time, glob, re
VERIF = os.path.dirname(os.path.dirname(os.path.abspath(__file__)))
args = sys.argv[1:]
tier = "quick"
extra_props = []
while args and args[0].startswith("--"):
    if args[0] == "--tier":
        tier = args[1]; args = args[2:]
    elif args[0] == "--also":
        extra_props = args[1].split(","); args = args[2:]
ids = args or sorted(os.listdir(os.path.join(VERIF, "seeded")))
def sh(cmd, **kw):
    return subprocess.run(cmd, shell=True, text=True, stdout=subprocess.PIPE, stderr=subprocess.STDOUT, **kw)
assert sh("git -C /repo status --porcelain").stdout.strip() == "", "/repo not clean"
for mid in ids:
    d = os.path.join(VERIF, "seeded", mid)
    if not os.path.exists(os.path.join(d, "patch.diff")):
        continue
    meta = json.load(open(os.path.join(d, "meta.json")))
    r = sh("git -C /repo apply %s/patch.diff" % d)
    if r.returncode != 0:
        print(mid, "PATCH DOES NOT APPLY", r.stdout[:300]); continue
    try:
        for prop in [meta["breaks_property"]] + extra_props:
            for f in glob.glob(os.path.join(VERIF, "replay", prop + "-*.json")):
                os.remove(f)
            t = time.time()
            r = sh("./check %s --tier %s" % (prop, tier), cwd=VERIF)
            sigs = sorted(set(re.findall(r"\[violation\] (\S+) ::", r.stdout)))
            verdict = {0: "MISSED", 1: "DETECTED", 2: "INCONCLUSIVE"}.get(r.returncode, "?")
            meta.setdefault("detected_by", {})["%s/%s" % (prop, tier)] = {"verdict": verdict, "exit": r.returncode, "signatures": sigs[:8], "wall_s": round(time.time() - t, 1)}
            print("%-8s %-4s %-8s %-12s %s" % (mid, prop, tier, verdict, sigs[:3]), flush=True)
            if verdict == "INCONCLUSIVE":
                print(r.stdout[-1500:])
    finally:
        sh("git -C /repo checkout -- .")
        for f in glob.glob(os.path.join(VERIF, "replay", "*.json")):
            os.remove(f)
    json.dump(meta, open(os.path.join(d, "meta.json"), "w"), indent=1)
assert sh("git -C /repo status --porcelain").stdout.strip() == "", "/repo not clean after trials"
# restore evidence of the unchanged tree for the touched properties

"""Generated-code labs: definition -> real generator -> lab crate (driver written here) -> cargo
build -> lab binary executes case files. Used by C02, C03, C10 and the lab halves of C12/C14."""
import json, os, re, shutil, subprocess, time

from vcheck import VERIF, WORK, ENV, Inconclusive, log
from bedb import GENRUN

LAB_TARGET = os.path.join(WORK, "target-lab")
KEYWORDS = set("as break const continue crate else enum extern false fn for if impl in let loop match mod move mut pub ref return self static struct super trait true type "
               "unsafe use where while abstract async await become box do final macro override priv try typeof unsized virtual yield union dyn".split())


def snake(s):
    # heck::ToSnakeCase: a boundary before an upper-case letter that follows a lower-case letter / digit,
    # and before the last upper-case letter of a run that is followed by a lower-case letter (BTreeSet -> b_tree_set)
    s = s.replace("-", "_")
    s = re.sub(r"([A-Z]+)([A-Z][a-z])", r"\1_\2", s)
    s = re.sub(r"([a-z0-9])([A-Z])", r"\1_\2", s).lower()
    return s + "_" if s in KEYWORDS else s


def type_ident(name):
    # the generator re-cases type names to UpperCamel (heck): runs of capitals become one word (HTTPUpstreamError -> HttpUpstreamError)
    if name == "Self":
        return "Self_"
    t = re.sub(r"([A-Z]+)([A-Z][a-z])", r"\1_\2", name)
    t = re.sub(r"([a-z0-9])([A-Z])", r"\1_\2", t)
    return "".join(w[:1].upper() + w[1:].lower() for w in t.split("_") if w)


def module_path(pkg, strip):
    comps = [snake(c) for c in pkg.split(".")]
    sp = [snake(c) for c in strip.split(".")] if strip else []
    if comps[:len(sp)] == sp:
        comps = comps[len(sp):]
    return comps


def rust_path(pkg, name, strip):
    return "::".join(["gen"] + module_path(pkg, strip) + [type_ident(name)])


def lab_flags(cfg):
    f = []
    if cfg.get("exhaustive"):
        f.append("--exhaustive")
    if cfg.get("serialize_empty"):
        f.append("--serialize-empty")
    if cfg.get("strip"):
        f += ["--strip-prefix", cfg["strip"]]
    if cfg.get("crate"):
        name, version, client_version = cfg["crate"]
        f += ["--crate", name, version]
        if client_version:
            f += ["--version", client_version]
    return f


def service_arms(ir, cfg):
    strip = cfg.get("strip")
    arms = []
    for s in ir.get("services", []):
        pkg, n = s["serviceName"]["package"], s["serviceName"]["name"]
        mod = "::".join(["gen"] + module_path(pkg, strip))
        fm = mod + "::" + snake(n)      # the appended driver functions live in the service's own module
        arms.append('        "%s/sync" => Some(labrt::svc::run_call_sync(&c.call_spec(), %s::verif_endpoints_sync_%s, |lb, m, a| %s::verif_call_sync_%s(&<%s::%sClient<_> as conjure_http::client::Service<_>>::new(lb), m, a))),'
                    % (n, fm, n, fm, n, mod, n))
        arms.append('        "%s/async" => Some(labrt::svc::run_call_async(&c.call_spec(), %s::verif_endpoints_async_%s, |lb, m, a| labrt::block_on(%s::verif_call_async_%s(&<%s::%sAsyncClient<_> as conjure_http::client::AsyncService<_>>::new(lb), m, a)))),'
                    % (n, fm, n, fm, n, mod, n))
        arms.append('        "%s/raw-sync" => Some(labrt::svc::run_raw_sync(&c.raw_spec(), %s::verif_endpoints_sync_%s)),' % (n, fm, n))
        arms.append('        "%s/raw-async" => Some(labrt::svc::run_raw_async(&c.raw_spec(), %s::verif_endpoints_async_%s)),' % (n, fm, n))
    return arms


def driver_source(ir, cfg, plain_types=(), registry=True, services=False):
    """main.rs of a lab crate: names every declared item by its full module path (a missing
    re-export is a compile error) and dispatches cases to the generic runners in labrt::lab."""
    strip = cfg.get("strip")
    uses, arms = [], []
    for t in ir["types"]:
        d = t[t["type"]]
        p = rust_path(d["typeName"]["package"], d["typeName"]["name"], strip)
        uses.append("use %s as _;" % p)
        key = d["typeName"]["name"]
        ops = ["labrt::lab::value_ops::<%s>(c)" % p, "labrt::lab::law_ops::<%s>(c)" % p]
        if key in plain_types:
            ops.append("labrt::lab::plain_ops::<%s>(c)" % p)
        arms.append('        "%s" => %s,' % (key, ".or_else(|| ".join(ops) + ")" * (len(ops) - 1)))
    for e in ir.get("errors", []):
        p = rust_path(e["errorName"]["package"], e["errorName"]["name"], strip)
        uses.append("use %s as _;" % p)
        arms.append('        "%s" => labrt::lab::value_ops::<%s>(c).or_else(|| labrt::lab::error_ops::<%s>(c)),' % (e["errorName"]["name"], p, p))
    for s in ir.get("services", []):
        pkg, n = s["serviceName"]["package"], s["serviceName"]["name"]
        for ident in (n, "Async" + n, n + "Client", n + "AsyncClient", n + "Endpoints", "Async" + n + "Endpoints"):
            uses.append("use %s as _;" % rust_path(pkg, ident, strip))
    if cfg.get("crate"):
        # crate output mode: the generated code is its own package (edition and manifest as emitted)
        head = ["#![allow(warnings)]", "use ::%s as gen;" % cfg["crate"][0].replace("-", "_"), ""]
    else:
        head = ["#![allow(warnings)]", "#[path = \"gen/mod.rs\"]", "mod gen;", ""]
    body = head + uses + ["",
            "fn dispatch(c: &labrt::lab::CaseIn) -> Option<serde_json::Value> {", "    match c.ty.as_str() {"]
    body += arms if registry else []
    body += service_arms(ir, cfg) if services else []
    body += ["        _ => None,", "    }", "}", "", "fn main() {", "    labrt::lab::run_main(dispatch);", "}", ""]
    return "\n".join(body)


CARGO_MEMBER = """[package]
name = "%s"
version = "0.0.0"
edition = "2021"

[dependencies]
conjure-object = { path = "/repo/conjure-object" }
conjure-error = { path = "/repo/conjure-error" }
conjure-http = { path = "/repo/conjure-http" }
conjure-serde = { path = "/repo/conjure-serde" }
serde = "1.0"
http = "1.0"
labrt = { path = "%s/harness/labrt" }
serde_json = "1.0"
"""

CARGO_ROOT = """[workspace]
resolver = "2"
members = [%s]

[profile.dev]
opt-level = 0
debug = 0
incremental = false

[profile.dev.package."*"]
opt-level = 1
"""

CARGO_PATCH = """
[patch.crates-io]
conjure-object = { path = "/repo/conjure-object" }
conjure-error = { path = "/repo/conjure-error" }
conjure-http = { path = "/repo/conjure-http" }
conjure-serde = { path = "/repo/conjure-serde" }
conjure-macros = { path = "/repo/conjure-macros" }
"""


class LabResult:
    def __init__(self):
        self.gen = {}        # name -> genrun status dict
        self.compiled = {}   # name -> bool
        self.errors = {}     # name -> [first rustc errors]
        self.dir = None


def build_labs(key, specs):
    """specs: [{name, ir, cfg, driver}]. Returns LabResult; raises Inconclusive if cargo itself breaks."""
    ws = os.path.join(WORK, "lab", key)
    shutil.rmtree(ws, ignore_errors=True)
    os.makedirs(ws)
    res = LabResult()
    res.dir = ws
    members, crates = [], {}
    for sp in specs:
        name = sp["name"]
        d = os.path.join(ws, name)
        os.makedirs(os.path.join(d, "src"))
        irp = os.path.join(d, "ir.json")
        with open(irp, "w") as f:
            json.dump(sp["ir"], f)
        crate = sp["cfg"].get("crate")
        gen_out = os.path.join(d, "api") if crate else os.path.join(d, "src", "gen")
        r = subprocess.run([GENRUN, "gen", irp, gen_out] + lab_flags(sp["cfg"]), stdout=subprocess.PIPE, stderr=subprocess.PIPE, text=True, env=ENV)
        try:
            res.gen[name] = json.loads(r.stdout.strip().splitlines()[-1])
        except Exception:
            res.gen[name] = {"status": "crash", "message": (r.stdout + r.stderr)[-400:]}
        if res.gen[name]["status"] != "ok":
            shutil.rmtree(d)
            continue
        if sp.get("drive"):
            r = subprocess.run([GENRUN, "drive", os.path.join(d, "src", "gen")], stdout=subprocess.PIPE, stderr=subprocess.PIPE, text=True, env=ENV)
            if r.returncode != 0 or '"ok"' not in r.stdout:
                raise Inconclusive("genrun drive failed: " + (r.stdout + r.stderr)[-600:])
        with open(os.path.join(d, "Cargo.toml"), "w") as f:
            f.write(CARGO_MEMBER % (name, VERIF))
            if crate:
                f.write('%s = { path = "api" }\n' % crate[0])
        with open(os.path.join(d, "src", "main.rs"), "w") as f:
            f.write(sp["driver"])
        members.append(name)
        if crate:
            crates[name] = crate[0]
    with open(os.path.join(ws, "Cargo.toml"), "w") as f:
        f.write(CARGO_ROOT % ", ".join('"%s"' % m for m in members))
        if any(sp["cfg"].get("crate") for sp in specs):
            # the emitted manifest names the runtime crates by version; resolve them to the working tree
            f.write(CARGO_PATCH)
    lock = os.path.join(VERIF, "harness", "Cargo.lock")
    if os.path.exists(lock):
        shutil.copy(lock, os.path.join(ws, "Cargo.lock"))
    if not members:
        return res
    env = dict(ENV)
    env["CARGO_TARGET_DIR"] = LAB_TARGET
    t = time.time()
    r = subprocess.run(["cargo", "build", "--offline", "--keep-going", "--message-format=short"], cwd=ws, env=env, stdout=subprocess.PIPE, stderr=subprocess.STDOUT, text=True)
    log("[lab] cargo build of %d lab crate(s) in %.1fs (exit %d)" % (len(members), time.time() - t, r.returncode))
    out = r.stdout
    if r.returncode != 0 and "could not compile" not in out:
        raise Inconclusive("cargo failed for the lab workspace: " + out[-1500:])
    for m in members:
        api = crates.get(m)
        failed = re.search(r"could not compile `%s`" % re.escape(m), out) is not None
        if api and re.search(r"could not compile `%s`" % re.escape(api), out):
            failed = True
        res.compiled[m] = not failed and os.path.exists(os.path.join(LAB_TARGET, "debug", m))
        if failed:
            errs = [l for l in out.splitlines() if l.startswith(m + "/") and ": error" in l]
            res.errors[m] = errs[:5] or [l for l in out.splitlines() if "error" in l][:5]
    # a dependency of the labs (labrt, conjure-*) not compiling is not a lab verdict
    dep_fail = re.findall(r"could not compile `((?:conjure|labrt|vcore)[\w-]*)`", out)
    if dep_fail:
        raise Inconclusive("a dependency of the labs does not compile: %s\n%s" % (dep_fail, out[-1500:]))
    return res


def run_lab(res, name, cases, timeout=600):
    """Runs the lab binary on `cases` (list of dicts with id/ty/op/doc/docs); returns {id: result}."""
    d = os.path.join(res.dir, name)
    cf, rf = os.path.join(d, "cases.jsonl"), os.path.join(d, "results.jsonl")
    with open(cf, "w") as f:
        for c in cases:
            f.write(json.dumps(c) + "\n")
    try:
        r = subprocess.run([os.path.join(LAB_TARGET, "debug", name), cf, rf], stdout=subprocess.PIPE, stderr=subprocess.PIPE, text=True, timeout=timeout)
    except subprocess.TimeoutExpired:
        raise Inconclusive("watchdog: lab %s exceeded %ds" % (name, timeout))
    if r.returncode != 0:
        return {"__crash__": {"exit": r.returncode, "stderr": r.stderr[-600:]}}
    out = {}
    with open(rf) as f:
        for line in f:
            o = json.loads(line)
            out[o["id"]] = o["result"]
    return out

#!/usr/bin/env python3
"""Regenerates MANIFEST.json from the registry in props.py (single source of truth)."""
import json, os, sys
sys.path.insert(0, os.path.dirname(os.path.abspath(__file__)))
from props import PROPS, NOT_APPLICABLE, HOOK_COMMITS

VERIF = os.path.dirname(os.path.dirname(os.path.abspath(__file__)))
props = [json.loads(l) for l in open(os.path.join(VERIF, "properties.jsonl"))]
checks = []
for p in props:
    pid = p["id"]
    if pid not in PROPS:
        continue
    m = PROPS[pid]
    checks.append({
        "property_id": pid,
        "quick_cmd": "./check %s --tier quick" % pid,
        "thorough_cmd": "./check %s --tier thorough" % pid,
        "evidence_file": "/verif/evidence/%s.json" % pid,
        "replay_cmd_template": "./check %s --replay {path}" % pid,
        "engine": m.get("engine", "rt"),
        "level_claimed": {"category": m["level"], "text": m["level_text"], "design_ref": "DESIGN.md §3 " + pid},
        "level_note": "; ".join(m["assumptions"]),
        "technique": m["technique"],
    })
na = [{"property_id": p["id"], "reason": NOT_APPLICABLE.get(p["id"], "monitor not built yet (work in progress)")}
      for p in props if p["id"] not in PROPS]
manifest = {
    "version": 1,
    "setup_cmd": "./check --setup",
    "hooks": {
        "guard": "conjure_rust_verif",
        "enable": "RUSTFLAGS=--cfg conjure_rust_verif (no hook is currently needed: every refuting event is visible at a public boundary)",
        "baseline_off_cmd": "cd /repo && cargo test --workspace --lib --tests --offline",
        "source_commits": HOOK_COMMITS,
        "add_only": True,
    },
    "engines": [
        {"name": "rt", "path": "harness/rt", "serves_properties": [c["property_id"] for c in checks if c["engine"] == "rt"],
         "kind_free_text": "in-process runtime monitors (generated hostile workloads + online oracles) over the working tree of the conjure-* runtime crates"},
        {"name": "lab", "path": "irgen + harness/labrt + harness/genrun", "serves_properties": [c["property_id"] for c in checks if c["engine"] == "lab"],
         "kind_free_text": "random Conjure IR -> real generator -> rustc -> generated code executed under recording handlers and a Python wire-format model"},
        {"name": "gen", "path": "irgen + harness/genrun", "serves_properties": [c["property_id"] for c in checks if c["engine"] == "gen"],
         "kind_free_text": "random Conjure IR -> real generator (library and CLI, separate processes, strace) -> emitted attributes / file trees checked against a model"},
    ],
    "checks": checks,
    "not_applicable": na,
    "notes": "Technique family: runtime monitoring. Verdicts are three-valued (exit 0 held / 1 violated / 2 inconclusive). "
             "Known findings: known_findings.json (pinned witnesses + exact signatures).",
}
with open(os.path.join(VERIF, "MANIFEST.json"), "w") as f:
    json.dump(manifest, f, indent=1)
print("checks:", [c["property_id"] for c in checks], "not_applicable:", [n["property_id"] for n in na])

"""Lab-based stages: C03 (generation succeeds and compiles), C02/C10 (wire format of generated
types), lab halves of C12/C14."""
import json, os, random, re, sys

from vcheck import VERIF, Inconclusive, build, empty_report, log
from bedb import fnv, violation
import lab

sys.path.insert(0, os.path.join(VERIF, "irgen"))


def lab_configs(n, rr):
    base = [
        {"exhaustive": False, "serialize_empty": False, "strip": "com.verif"},
        {"exhaustive": True, "serialize_empty": True, "strip": "com.verif.lab"},
        {"exhaustive": False, "serialize_empty": True, "strip": None},
        {"exhaustive": True, "serialize_empty": False, "strip": "com"},
    ]
    out = []
    for i in range(n):
        out.append(dict(base[i % len(base)]) if i < len(base) else {"exhaustive": rr.random() < 0.5, "serialize_empty": rr.random() < 0.5,
                                                                   "strip": rr.choice([None, "com", "com.verif", "com.verif.lab"])})
    return out


def crate_mode(cfg, i, rr):
    """Crate output mode (Config::build_crate, optionally Config::version): the generated code is a package of its
    own with the emitted manifest (edition 2018, runtime crates by version, patched to the working tree)."""
    cfg = dict(cfg)
    cfg["crate"] = ["%s-%d" % (rr.choice(["my-product", "lab_api", "x"]), i), rr.choice(["1.2.3", "0.0.1-rc1"]), rr.choice([None, "9.9.9"])]
    return cfg


# ---- pinned witnesses of the known C03 findings (DESIGN.md section 6): micro definitions
def pinned_c03():
    from ir import prim, opt, lst, set_, map_, ref, field, obj, alias, enum, union, arg, endpoint, service, definition
    P = "com.verif.pin"
    S = prim("STRING")
    return [
        ("C03-set-double-query", definition([], [service("PinService", P, [endpoint("q", "GET", "/pin/q", [arg("vals", set_(prim("DOUBLE")), "query", "vals")])])])),
        ("C03-union-named-unknown", definition([union("Unknown", P, [field("a", S)])])),
        ("C03-field-named-build", definition([obj("Holder", P, [field("build", S), field("other", S)])])),
        ("C03-type-named-like-client", definition([obj("PinServiceClient", P, [field("a", S)])], [service("PinService", P, [endpoint("e", "GET", "/pin/e")])])),
        ("C03-enum-values-collide", definition([enum("Clash", P, ["FOO_1", "FOO1"])])),
        ("C03-type-vs-subpackage-module", definition([obj("Foo", P, [field("a", S)]), obj("Inner", P + ".foo", [field("b", S)])])),
        ("C03-set-of-collection-with-double", definition([obj("Grid", P, [field("rows", set_(lst(prim("DOUBLE")))), field("maybe", set_(opt(prim("DOUBLE"))))])])),
        ("C03-type-named-option-with-double", definition([obj("Option", P, [field("x", prim("DOUBLE"))]), alias("Some", P + ".other", prim("DOUBLE"))])),
        ("C03-safe-binary-body", definition([alias("Blob", P, prim("BINARY"), "SAFE")], [service("BlobService", P, [endpoint("upload", "POST", "/blob/up", [arg("data", ref("Blob", P), "body")])])])),
        # the request-size tag on every flavour of body (witness family of the fixed finding C06-optional-body-ignores-size-limit)
        ("C03-size-limit-on-every-body-flavour", definition(
            [alias("MaybeText", P, opt(S)), alias("Texts", P, lst(S)), alias("MaybeTexts", P, opt(ref("Texts", P))), obj("Doc", P, [field("a", S)])],
            [service("LimitService", P, [
                endpoint("req", "POST", "/lim/req", [arg("body", S, "body")], tags=["server-limit-request-size: 1kb"]),
                endpoint("opt", "POST", "/lim/opt", [arg("body", opt(ref("Doc", P)), "body")], tags=["server-limit-request-size: 1 KiB"]),
                endpoint("aliasOpt", "POST", "/lim/aliasOpt", [arg("body", ref("MaybeText", P), "body")], tags=["server-limit-request-size: 1024"]),
                endpoint("aliasOptAlias", "POST", "/lim/aliasOptAlias", [arg("body", ref("MaybeTexts", P), "body")], tags=["server-limit-request-size: 2 mb"]),
                endpoint("aliasList", "POST", "/lim/aliasList", [arg("body", ref("Texts", P), "body")], tags=["server-limit-request-size: 10b"]),
                endpoint("bin", "POST", "/lim/bin", [arg("body", prim("BINARY"), "body")], tags=["server-limit-request-size: 1kb"]),
            ])])),
        # endpoint names that are also methods of the generated client / trait items
        ("C03-endpoint-named-like-std-methods", definition([], [service("StdNamesService", P, [endpoint(n, "GET", "/std/" + n) for n in ["clone", "default", "drop", "into", "from", "eq", "hash", "fmt", "new", "endpoints", "cmp", "next", "borrow", "asRef", "toString", "toOwned", "tryInto", "deref",
                                                                                                                                       "handle", "send", "unwrap", "map", "get", "name", "path", "method", "call", "poll", "sync", "serialize", "len", "isEmpty", "iter", "takeEndpoints"]])])),
        # shapes earlier seeded changes needed (one definition, compiled in every run)
        ("C03-regression-shapes", __import__("gen").regression_compile_definition()),
        ("C03-type-named-option-without-double", definition([obj("Option", P, [field("x", opt(S))]), union("Some", P, [field("a", S)]), enum("None", P, ["A"])])),
        # witnesses of fixed findings stay in the workload as ordinary judged cases
        ("C03-type-named-box-recursive", definition([obj("Leaf", P, [field("a", S)]), union("Box", P + ".other", [field("x", prim("INTEGER")), field("y", opt(ref("Leaf", P)))]),
                                                     obj("Option", P, [field("next", opt(ref("Option", P))), field("vec", lst(ref("Box", P + ".other")))])])),
        ("C03-keyword-members", definition([obj("Words", P, [field("try", S), field("await", S), field("async", S), field("type", S), field("self", S), field("new", S)]),
                                            enum("Keys", P, ["TRY", "AWAIT", "SELF"])],
                                           [service("WordService", P, [endpoint("try", "GET", "/w/{await}", [arg("await", S, "path"), arg("match", opt(S), "query", "match")])])])),
    ]


def c03_stage(prop, tier, seed, replay):
    from gen import LabGen, Profile
    build(["genrun"])
    rr = random.Random(seed * 31337 + 3)
    n = 16 if tier == "quick" else 96
    if replay:
        with open(replay) as f:
            doc = json.load(f)
        cases = [(doc["case_seed"], doc["detail"]["config"])]
    else:
        cfgs = lab_configs(n, rr)
        # every fourth lab (offset 2, so the four base configurations rotate through it) uses the crate output mode
        cfgs = [crate_mode(c, i, rr) if i % 4 == 2 + (i // 4) % 2 else c for i, c in enumerate(cfgs)]
        k = 1      # quick has four crate-mode labs: services only, errors only, types only, services + errors without types
        for c in cfgs:
            if c.get("crate"):
                c["needs"] = k
                k += 1
        cases = [(rr.getrandbits(48), cfgs[i]) for i in range(n)]
    rep = empty_report(prop)
    specs, meta = [], {}
    for i, (cs, cfg) in enumerate(cases):
        r = random.Random(cs)
        n_svc, n_err = r.choice([2, 3, 4]), r.choice([2, 4])
        n_types = r.choice([25, 40, 55])
        if cfg.get("crate"):
            # the emitted manifest lists only the runtime crates the definition needs: the crate-mode labs of a run
            # rotate through everything / services only / errors only / types only / services + errors without types
            n_svc, n_err, n_types = [(n_svc, n_err, n_types), (n_svc, 0, 0), (0, n_err, 0), (0, 0, n_types), (n_svc, n_err, 0)][cfg.get("needs", 0) % 5]
        g = LabGen(cs, Profile(n_types=n_types, services=n_svc, errors=n_err, hostile_names=True,
                               packages=["com.verif.lab", "com.verif.lab.sub", "com.verif.lab.sub.deep", "com.verif.other", "org.example", "com.verif.lab.type", "com.verif.async.mod",
                                         "com.verif.left.api", "com.verif.right.api", "com.verif.left.api.v1", "com.verif.right.api.v1"]))
        ir = g.ir()
        name = "lab%d" % i
        specs.append({"name": name, "ir": ir, "cfg": cfg, "driver": lab.driver_source(ir, cfg, registry=False)})
        meta[name] = (cs, cfg, ir)
    pins = pinned_c03() if not replay else []
    for pid, ir in pins:
        name = "pin_" + pid.lower().replace("-", "_")
        cfg = {"exhaustive": False, "serialize_empty": False, "strip": "com.verif"}
        specs.append({"name": name, "ir": ir, "cfg": cfg, "driver": lab.driver_source(ir, cfg, registry=False)})
        meta[name] = (pid, cfg, ir)
    res = lab.build_labs("c03-%s" % tier, specs)
    distinct = set()
    for name, (cs, cfg, ir) in meta.items():
        pinned = name.startswith("pin_")
        status = res.gen.get(name, {})
        kinds = [t["type"] for t in ir["types"]]
        shape = "types=%d|svc=%d|err=%d|ex=%s|se=%s|strip=%s|crate=%s" % (len(kinds) // 10 * 10, len(ir["services"]), len(ir["errors"]), cfg["exhaustive"], cfg["serialize_empty"], cfg["strip"],
                                                                          bool(cfg.get("crate")) and bool(cfg["crate"][2]))
        if not pinned:
            rep["evaluations"] += 2
            distinct.add(fnv(shape))
            for k in set(kinds):
                distinct.add(fnv("kind:" + k + "|" + str(cfg["exhaustive"])))
            for s in ir["services"]:
                for e in s["endpoints"]:
                    for a in e["args"]:
                        distinct.add(fnv("arg:%s:%s" % (a["paramType"]["type"], a["type"]["type"])))
            cell = "labs/%s" % ("compiled" if res.compiled.get(name) else "failed")
            rep["matrix"][cell] = rep["matrix"].get(cell, 0) + 1
            if cfg.get("crate"):
                rep["matrix"]["labs/crate-mode"] = rep["matrix"].get("labs/crate-mode", 0) + 1
            rep["matrix"]["items/types"] = rep["matrix"].get("items/types", 0) + len(ir["types"])
            rep["matrix"]["items/endpoints"] = rep["matrix"].get("items/endpoints", 0) + sum(len(s["endpoints"]) for s in ir["services"])
        if status.get("status") != "ok":
            sig = "generation-%s" % status.get("status", "failed")
            if pinned:
                rep["pinned"][cs] = sig
            else:
                rep["violations"].append(violation("labs", cs, sig, {"config": cfg, "message": str(status.get("message", ""))[:600]}))
            continue
        if not res.compiled.get(name):
            errs = res.errors.get(name, [])
            code = "E????"
            for e in errs:
                m = re.search(r"error\[(E\d+)\]", e)
                if m:
                    code = m.group(1)
                    break
            if pinned:
                # pinned witnesses: the set of error codes among the first diagnostics
                codes = sorted(set(re.findall(r"error\[(E\d+)\]", " ".join(errs))))
                code = "+".join(codes) or code
            if pinned:
                rep["pinned"][cs] = "compile-error:" + code
            else:
                rep["violations"].append(violation("labs", cs, "compile-error:" + code, {"config": cfg, "rustc": errs[:3], "lab_dir": os.path.join(res.dir, name)}))
            continue
        if len(rep["samples"]) < 3 and not pinned:
            rep["samples"].append({"sub": "labs", "case_seed": cs, "config": cfg, "types": len(ir["types"]), "services": len(ir["services"]),
                                   "first_types": [t[t["type"]]["typeName"]["name"] for t in ir["types"][:8]]})
    rep["distinct"] = sorted(distinct)
    if not replay:
        rep["floors"]["labs-built"] = [n, sum(1 for k in meta if not k.startswith("pin_"))]
    rep["notes"].append("every declared type, error, client, server trait and Endpoints type is named by full module path in the lab driver, so a missing re-export is a compile error")
    return rep


# ------------------------------------------------------------------------------------------------
# C02 / C10: wire format of generated types

def strict_loads(text):
    def bad_const(x):
        raise ValueError("non-standard JSON constant " + x)
    return json.loads(text, parse_constant=bad_const)


def type_shape(g, d):
    def tk(t):
        k = t["type"]
        if k == "primitive":
            return t["primitive"][:3]
        if k in ("optional", "list", "set"):
            return k[0] + "<" + tk(t[k]["itemType"]) + ">"
        if k == "map":
            return "m<" + tk(t["map"]["keyType"]) + "," + tk(t["map"]["valueType"]) + ">"
        if k == "external":
            return "x<" + tk(t["external"]["fallback"]) + ">"
        return g.by_name[t["reference"]["name"]].kind[:2]
    if d.kind == "alias":
        return "alias:" + tk(d.alias)
    if d.kind == "enum":
        return "enum:%d" % len(d.values)
    return d.kind + ":" + ",".join(sorted(set(tk(t) for (_, t, _) in d.fields)))


def plain_capable(g, d):
    """Enums and aliases whose target is a PLAIN scalar (not any / binary / collections)."""
    if d.kind == "enum":
        return True
    if d.kind != "alias":
        return False
    t = d.alias
    while t["type"] == "reference":
        dd = g.by_name[t["reference"]["name"]]
        if dd.kind == "enum":
            return True
        if dd.kind != "alias":
            return False
        t = dd.alias
    return t["type"] == "primitive" and t["primitive"] != "ANY"


def c10_labs(tier, seed):
    """The same definition built non-exhaustive and exhaustive (cross-configuration differential)."""
    from gen import LabGen, Profile
    rr = random.Random(seed * 7001 + 10)
    labs = []
    for i in range(2 if tier == "quick" else 8):
        cs = rr.getrandbits(48)
        se, strip = rr.random() < 0.5, rr.choice([None, "com.verif", "com.verif.lab"])
        for ex in (False, True):
            g = LabGen(cs, Profile(n_types=40 if tier == "quick" else 60, services=0, errors=0, hostile_names=True))
            if i == 0:
                add_regression_wire_types(g)        # both builds of the first definition
            labs.append((cs, {"exhaustive": ex, "serialize_empty": se, "strip": strip}, g))
    return labs


def c02_labs(tier, seed, replay):
    from gen import LabGen, Profile
    rr = random.Random(seed * 7001 + 2)
    n = 3 if tier == "quick" else 12
    cfgs = [{"exhaustive": False, "serialize_empty": False, "strip": "com.verif"},
            {"exhaustive": True, "serialize_empty": True, "strip": "com.verif.lab"},
            {"exhaustive": False, "serialize_empty": True, "strip": None}]
    labs = []
    for i in range(n):
        cs = rr.getrandbits(48)
        cfg = dict(cfgs[i % 3]) if i < 3 else {"exhaustive": rr.random() < 0.5, "serialize_empty": rr.random() < 0.5, "strip": rr.choice([None, "com", "com.verif", "com.verif.lab"])}
        g = LabGen(cs, Profile(n_types=40 if tier == "quick" else 60, services=0, errors=0, hostile_names=True))
        if i < 3:
            add_regression_wire_types(g)        # the three fixed configurations
        labs.append((cs, cfg, g))
    return labs


def add_regression_wire_types(g):
    from gen import regression_wire_types
    for d in regression_wire_types(g.p.packages[0]):
        if d.name not in g.by_name:
            g.types.append(d)
            g.by_name[d.name] = d


def wire_stage(prop, tier, seed, replay):
    """Shared by C02 and C10 (C10 looks only at the enum / union cases of the same run)."""
    import wire
    build(["genrun"])
    labs = c10_labs(tier, seed) if prop == "C10" else c02_labs(tier, seed, replay)
    listed_outputs = {}
    specs = []
    for i, (cs, cfg, g) in enumerate(labs):
        ir = g.ir()
        plain = [d.name for d in g.types if plain_capable(g, d)]
        specs.append({"name": "wire%d" % i, "ir": ir, "cfg": cfg, "driver": lab.driver_source(ir, cfg, plain_types=plain)})
    res = lab.build_labs("wire-%s" % tier, specs)
    rep = empty_report(prop)
    distinct = set()
    per_type = 10 if tier == "quick" else 24
    for i, (cs, cfg, g) in enumerate(labs):
        name = "wire%d" % i
        if res.gen.get(name, {}).get("status") != "ok" or not res.compiled.get(name):
            # generation / compilation problems are C03's business; here the lab is simply unusable
            raise Inconclusive("lab %s did not build (see ./check C03): %s %s" % (name, res.gen.get(name), res.errors.get(name)))
        # C10: both builds of a definition get the same values (model drawn as non-exhaustive)
        r = random.Random(cs ^ 0xC02)
        c = wire.Ctx(g, r, cfg["exhaustive"] and prop != "C10", cfg["serialize_empty"])
        cases, info = [], {}
        cid = 0
        for d in g.types:
            t = d.ref()
            for k in range(-1, per_type):
                try:
                    v = wire.gen_minimal(c, t) if k < 0 else wire.gen_value(c, t)
                except wire.NoValue:
                    if k < 0:
                        continue
                    break
                docs = [("canonical", wire.render(c, v, t, wire.Style(serialize_empty=cfg["serialize_empty"])), None)]
                docs.append(("non-canonical", wire.render(c, v, t, wire.Style(r, True)), None))
                sites = list(wire.fault_sites(c, v, t))
                r.shuffle(sites)
                seen_cls = set()
                for f in sites:
                    if f[3] in seen_cls or len(seen_cls) >= 4:
                        continue
                    seen_cls.add(f[3])
                    docs.append((f[3], wire.render(c, v, t, wire.Style(), fault=f), f))
                for cls, doc, f in docs:
                    cid += 1
                    cases.append({"id": cid, "ty": d.name, "op": "de", "doc": doc})
                    info[cid] = (d, v, cls, doc)
            if prop in ("C10",) and d.kind == "union" and not cfg["exhaustive"]:
                # unknown variants as values among others: equal exactly when name and payload are equal, in ==, cmp and hash
                # (a set or map keyed by the union must keep two unknown variants that differ only in their payload)
                listed_docs = [dd for (_, _, cls_, dd) in [info[k] for k in info if info[k][0] is d] if cls_ == "canonical"][:3]
                udocs = ["{\"type\":\"zzA\",\"zzA\":1}", "{\"type\":\"zzA\",\"zzA\":2}", "{\"type\":\"zzA\",\"zzA\":{\"k\":[1]}}", "{\"zzA\":1,\"type\":\"zzA\"}",
                         "{\"type\":\"zzB\",\"zzB\":1}", "{\"type\":\"zzB\",\"zzB\":\"1\"}", "{\"type\":\"zzB\",\"zzB\":null}", "{\"type\":\"zzB\",\"zzB\":[1,2]}"]
                cid += 1
                cases.append({"id": cid, "ty": d.name, "op": "laws", "docs": udocs + listed_docs})
                info[cid] = (d, None, "laws/unknown-variants", json.dumps(udocs + listed_docs))
            if prop in ("C10",) and d.kind in ("enum", "union"):
                for cls, doc in unknown_docs(r, d):
                    cid += 1
                    cases.append({"id": cid, "ty": d.name, "op": "de", "doc": doc})
                    info[cid] = (d, None, cls, doc)
                    if d.kind == "enum":
                        # the same value through the other parser of the type (FromStr / FromPlain: path, query, header parameters)
                        cid += 1
                        cases.append({"id": cid, "ty": d.name, "op": "plain", "doc": doc})
                        info[cid] = (d, None, cls.replace("unknown/", "plain/"), doc)
                        cid += 1
                        cases.append({"id": cid, "ty": d.name, "op": "plain-text", "doc": json.loads(doc)})
                        info[cid] = (d, None, cls.replace("unknown/", "plain-text/"), doc)
        results = lab.run_lab(res, name, cases)
        if "__crash__" in results:
            rep["violations"].append(violation("wire", cs, "lab-crashed", {"config": cfg, "crash": results["__crash__"]}))
            continue
        c.exhaustive = cfg["exhaustive"]
        for cid, (d, v, cls, doc) in info.items():
            out = results.get(cid)
            if cls == "laws/unknown-variants":
                rep["evaluations"] += 1
                rep["matrix"]["class/" + cls] = rep["matrix"].get("class/" + cls, 0) + 1
                o = out or {}
                docs_ = json.loads(doc)
                if "panic" in o or not o or o.get("parsed") != o.get("given"):
                    rep["violations"].append(violation("wire", cs, "unknown-variants:documents-not-parsed", {"type": d.name, "observed": json.dumps(o)[:300], "docs": docs_[:4]}))
                for bad in o.get("violations", []):
                    rep["violations"].append(violation("wire", cs, "unknown-variants:%s" % bad["law"], {"type": d.name, "law": bad["law"], "documents": [docs_[j] for j in bad["docs"] if j < len(docs_)][:3], "config": cfg}))
                # 8 unknown documents, two of which denote the same value (member order): 7 distinct values in a set
                if o.get("distinct_in_btreeset") is not None and o.get("distinct_in_btreeset") < 7:
                    rep["violations"].append(violation("wire", cs, "unknown-variants:set-drops-values", {"type": d.name, "kept": o.get("distinct_in_btreeset"), "docs": docs_[:8]}))
                continue
            if cls.startswith("plain/"):
                judge_plain_enum(rep, distinct, cs, cfg, d, cls, doc, out)
                continue
            if cls.startswith("plain-text/"):
                judge_plain_text_enum(rep, distinct, cs, cfg, d, cls, doc, out)
                continue
            if prop == "C10" and v is not None and value_has_unknown_variant(v):
                continue   # drawn with the non-exhaustive model; not a listed value
            judge_wire(prop, rep, distinct, c, g, cs, cfg, d, v, cls, doc, out)
            if prop == "C10" and d.kind in ("enum", "union") and cls in ("canonical", "non-canonical", "unknown/listed-enum-value") and out and "client" in out:
                key = (cs, d.name, doc)
                mine = (json.dumps(out["client"]), json.dumps(out["server"]))
                if key in listed_outputs and listed_outputs[key][1] != mine:
                    rep["violations"].append(violation("wire", cs, "listed-value-behaves-differently-when-exhaustive:" + d.kind,
                                                       {"type": d.name, "document": doc[:300], "non_exhaustive": listed_outputs[key][1], "exhaustive": mine}))
                elif key not in listed_outputs:
                    listed_outputs[key] = (cfg["exhaustive"], mine)
                else:
                    rep["matrix"]["differential/listed-values-compared"] = rep["matrix"].get("differential/listed-values-compared", 0) + 1
    rep["distinct"] = sorted(distinct)
    if not replay:
        need = 25 if prop == "C02" else 6
        rep["floors"]["case-classes"] = [need, len([k for k in rep["matrix"] if k.startswith("class/")])]
    rep["violations"] = rep["violations"][:150]
    return rep


def judge_plain_enum(rep, distinct, cs, cfg, d, cls, doc, out):
    """C10 through the text parser of a generated enum: the value parsed from JSON, printed as PLAIN text and parsed back
    must be the same value (so a listed value is itself, never Unknown, and an unlisted one survives unless exhaustive)."""
    rep["evaluations"] += 1
    rep["matrix"]["class/" + cls] = rep["matrix"].get("class/" + cls, 0) + 1
    distinct.add(fnv("%s|%s" % (cls, cfg["exhaustive"])))
    out = out or {}
    det = {"type": d.name, "class": cls, "document": doc, "config": cfg, "observed": json.dumps(out)[:300]}
    def fail(sig):
        rep["violations"].append(violation("wire", cs, sig, det))
    if "panic" in out or not out:
        return fail("panic-or-missing:" + cls)
    want = json.loads(doc)
    listed = cls == "plain/listed-enum-value"
    if "parse_error" in out:
        # the JSON side rejected the document: only legitimate for unlisted values in exhaustive mode (judged by the JSON cases)
        if listed or not cfg["exhaustive"]:
            fail("plain:json-side-rejected:" + cls)
        return
    if out.get("text") != want:
        return fail("plain:text-is-not-the-wire-name:" + ("listed" if listed else "unlisted"))
    if out.get("roundtrip_equal") is not True:
        return fail("plain:%s-value-%s" % ("listed" if listed else "unlisted", "classified-differently-by-the-text-parser" if "from_plain_error" not in out else "rejected-by-the-text-parser"))


def judge_plain_text_enum(rep, distinct, cs, cfg, d, cls, doc, out):
    """C10 through FromPlain alone: listed names are accepted as themselves in every configuration; unlisted well-formed
    names are accepted as Unknown (and print / serialize as the same name) by default and rejected when exhaustive."""
    rep["evaluations"] += 1
    rep["matrix"]["class/" + cls] = rep["matrix"].get("class/" + cls, 0) + 1
    distinct.add(fnv("%s|%s" % (cls, cfg["exhaustive"])))
    out = out or {}
    name = json.loads(doc)
    det = {"type": d.name, "class": cls, "text": name, "config": cfg, "observed": json.dumps(out)[:300]}
    def fail(sig):
        rep["violations"].append(violation("wire", cs, sig, det))
    if "panic" in out or not out:
        return fail("panic-or-missing:" + cls)
    listed = cls == "plain-text/listed-enum-value"
    if not listed and cfg["exhaustive"]:
        if "ok" in out:
            fail("plain-text:exhaustive-accepted-unlisted")
        return
    if "ok" not in out:
        return fail("plain-text:%s-rejected" % ("listed" if listed else "unlisted"))
    if json.loads(out["ok"]) != name or out.get("text") != name:
        return fail("plain-text:%s-not-roundtripped" % ("listed" if listed else "unlisted"))
    unknown = out.get("debug_head", "").startswith("Unknown")
    if listed and unknown:
        return fail("plain-text:listed-value-classified-unknown")
    if not listed and not unknown:
        return fail("plain-text:unlisted-not-exposed-as-unknown")


def judge_wire(prop, rep, distinct, c, g, cs, cfg, d, v, cls, doc, out):
    import wire
    # C10 looks at enums and unions themselves and, for valid documents, at the objects that hold them (a listed value is
    # itself wherever it sits, in both configurations and under both deserializers)
    if prop == "C10" and not (d.kind in ("enum", "union") or cls.startswith("exhaustive/") or cls.startswith("unknown/") or (d.kind == "object" and cls in ("canonical", "non-canonical"))):
        return
    if prop == "C02" and cls.startswith("unknown/"):
        return
    rep["evaluations"] += 1
    rep["matrix"]["class/" + cls] = rep["matrix"].get("class/" + cls, 0) + 1
    distinct.add(fnv("%s|%s|%s|%s" % (type_shape(g, d), cls, cfg["exhaustive"], cfg["serialize_empty"])))
    det = {"type": d.name, "kind": d.kind, "class": cls, "document": doc[:500], "config": cfg, "observed": json.dumps(out)[:700]}
    def fail(sig):
        rep["violations"].append(violation("wire", cs, sig, det))
    if out is None or "panic" in out or "harness_error" in out:
        return fail("panic-or-missing:" + cls)
    client, server, extra = out["client"], out["server"], out.get("extra", {})
    if len(rep["samples"]) < 4 and cls in ("non-canonical", "union-type-member-mismatch", "unknown-member"):
        rep["samples"].append({"sub": "wire", "case_seed": cs, "type": d.name, "class": cls, "document": doc[:300], "client": json.dumps(client)[:200], "server": json.dumps(server)[:120]})
    if cls.startswith("unknown/"):
        return judge_unknown(rep, det, cfg, d, cls, doc, client, server, extra, fail)
    valid = cls in ("canonical", "non-canonical")
    if valid or cls == "unknown-member":
        sides = [("client", client)] + ([("server", server)] if valid else [])
        for side_name, side in sides:
            if "ok" not in side:
                return fail("rejected-valid-document:%s:%s" % (side_name, d.kind))
            try:
                got = strict_loads(side["ok"])
            except Exception as e:
                det["parse_error"] = str(e)
                return fail("output-not-standard-json:" + d.kind)
            try:
                wire.check(c, v, d.ref(), got)
            except wire.Mismatch as e:
                det["mismatch"] = str(e)[:400]
                return fail("non-canonical-output:%s:%s" % (d.kind, cls))
        if cls == "unknown-member":
            if "err" not in server:
                return fail("server-accepted-unknown-member")
            return
        for flag in ("same_twice", "reparse_equal", "smile_roundtrip"):
            if extra.get(flag) is False:
                if flag == "smile_roundtrip" and value_has_any(v):
                    # `any` payloads compare by integer width; Smile narrows integers. The property
                    # is about JSON documents (Smile values are C01's), so this is only counted.
                    rep["observed_only"]["smile-roundtrip-of-any-payload-not-equal"] = rep["observed_only"].get("smile-roundtrip-of-any-payload-not-equal", 0) + 1
                    continue
                return fail("unstable:%s:%s" % (flag, d.kind))
        return
    # single-fault invalid documents must be rejected by both deserializers
    for side_name, side in (("client", client), ("server", server)):
        if "ok" in side:
            return fail("accepted-invalid-document:%s:%s" % (side_name, cls))
    # ... and also when the document is first parsed into the dynamic `any` value and viewed as the type from there
    # (judged for the structural faults the generated code itself decides; leaf coercions through `any` are C13's business and
    # are only counted: e.g. a string that is not Base64 is taken as raw bytes there)
    if (out.get("extra") or {}).get("via_any") == "ok":
        structural = cls.startswith("union-") or cls in ("missing-required-field", "null-required-field", "wrong-json-kind/object", "wrong-json-kind/union",
                                                         "wrong-json-kind/collection", "wrong-json-kind/map")
        if structural:
            return fail("accepted-invalid-document:via-any:%s" % cls)
        rep["observed_only"]["via-any-accepts-what-direct-parsing-rejects:" + cls.split("/")[0]] = rep["observed_only"].get("via-any-accepts-what-direct-parsing-rejects:" + cls.split("/")[0], 0) + 1


def value_has_unknown_variant(v):
    if not isinstance(v, tuple):
        return False
    if len(v) == 4 and v[0] == "union" and v[2] is None:
        return True
    for x in v[1:]:
        if isinstance(x, tuple) and value_has_unknown_variant(x):
            return True
        if isinstance(x, list):
            for y in x:
                if isinstance(y, tuple) and (value_has_unknown_variant(y) or any(isinstance(z, tuple) and value_has_unknown_variant(z) for z in y)):
                    return True
    return False


def value_has_any(v):
    if not isinstance(v, tuple):
        return False
    if (len(v) == 2 and v[0] == "any" and not isinstance(v[1], tuple)) or (len(v) == 4 and v[0] == "union" and v[2] is None):
        return True
    for x in v[1:]:
        if isinstance(x, tuple) and value_has_any(x):
            return True
        if isinstance(x, list):
            for y in x:
                if isinstance(y, tuple) and (value_has_any(y) or any(isinstance(z, tuple) and value_has_any(z) for z in y)):
                    return True
    return False


def unknown_docs(r, d):
    """C10 workload: unlisted well-formed enum names / unlisted variants with arbitrary payloads,
    plus every listed value (must never be classified as unknown)."""
    out = []
    if d.kind == "enum":
        for v in d.values:
            out.append(("unknown/listed-enum-value", json.dumps(v)))
        names = ["ZZ_FUTURE", "A", "X9", "UNKNOWN", "NOT_%s" % (d.values[0] if d.values else "X")]
        if d.values:
            names += [d.values[0] + "_", d.values[0] + "2", "_" + d.values[0] if False else d.values[0][:-1] or "Q"]
        for n in names:
            if n and n not in d.values:
                out.append(("unknown/unlisted-enum-value", json.dumps(n)))
    else:
        payloads = ["null", "1", "-0.5", "18446744073709551615", "{\"big\":[9223372036854775808,-9223372036854775808]}", "\"NaN\"", "\"text\"", "[]", "[1,[2,{\"a\":null}]]", "{}", "{\"type\":\"nested\",\"nested\":{\"k\":[true]}}", "{\"deep\":{\"deeper\":{\"deepest\":[1,2,3]}}}"]
        listed = [f[0] for f in d.fields]
        for name in ["zzFuture", "unknown", "Type", "", "ünï", "value"] + ([listed[0] + "2"] if listed else []):
            if name in listed or name == "type":
                continue
            p = r.choice(payloads)
            if r.random() < 0.5:
                out.append(("unknown/unlisted-variant", "{\"type\":%s,%s:%s}" % (json.dumps(name), json.dumps(name), p)))
            else:
                out.append(("unknown/unlisted-variant", "{%s:%s,\"type\":%s}" % (json.dumps(name), p, json.dumps(name))))
        if "type" not in listed:
            # a variant that is itself called `type`: discriminator first, then the value member under the same key
            out.append(("unknown/unlisted-variant", "{\"type\":\"type\",\"type\":%s}" % r.choice(["1", "[]", "{\"k\":[true]}", "null", "-0.5"])))
    return out


def judge_unknown(rep, det, cfg, d, cls, doc, client, server, extra, fail):
    import wire
    want = json.loads(doc)
    if cls == "unknown/listed-enum-value":
        for side in (client, server):
            if "ok" not in side or json.loads(side["ok"]) != want:
                return fail("listed-value-not-roundtripped:enum")
        if extra.get("debug_head", "").startswith("Unknown"):
            return fail("listed-value-classified-unknown:enum")
        return
    if cfg["exhaustive"]:
        for side_name, side in (("client", client), ("server", server)):
            if "ok" in side:
                return fail("exhaustive-accepted-unlisted:%s:%s" % (d.kind, side_name))
        return
    for side_name, side in (("client", client), ("server", server)):
        if "ok" not in side:
            return fail("unlisted-rejected:%s:%s" % (d.kind, side_name))
        try:
            got = strict_loads(side["ok"])
        except Exception:
            return fail("output-not-standard-json:" + d.kind)
        if not wire.any_equiv(want, got):
            det["reserialized"] = side["ok"][:300]
            return fail("unlisted-not-roundtripped:" + d.kind)
    if not extra.get("debug_head", "").startswith("Unknown"):
        return fail("unlisted-not-exposed-as-unknown:" + d.kind)
    for flag in ("same_twice", "reparse_equal"):
        if extra.get(flag) is False:
            return fail("unstable:%s:%s" % (flag, d.kind))


# ------------------------------------------------------------------------------------------------
# lab halves of C12 (PLAIN of generated enums / aliases), C14 (order/eq/hash laws of generated
# types containing doubles) and C17 (generated error types)

COLLIDING_DOUBLES = [float("nan"), 0.0, -0.0, 1.0, -1.0, float("inf"), float("-inf"), 1.5]


def contains_double(g, t, seen=None):
    seen = seen if seen is not None else set()
    k = t["type"]
    if k == "primitive":
        return t["primitive"] == "DOUBLE"
    if k in ("optional", "list", "set"):
        return contains_double(g, t[k]["itemType"], seen)
    if k == "map":
        return contains_double(g, t["map"]["keyType"], seen) or contains_double(g, t["map"]["valueType"], seen)
    if k == "external":
        return contains_double(g, t["external"]["fallback"], seen)
    n = t["reference"]["name"]
    if n in seen:
        return False
    seen.add(n)
    d = g.by_name[n]
    if d.kind == "alias":
        return contains_double(g, d.alias, seen)
    if d.kind == "enum":
        return False
    return any(contains_double(g, ft, seen) for (_, ft, _) in d.fields)


def typed_labs(tier, seed, tag, errors=0):
    from gen import LabGen, Profile
    rr = random.Random(seed * 9001 + fnv(tag) % 1000)
    n = 2 if tier == "quick" else 8
    labs = []
    for i in range(n):
        cs = rr.getrandbits(48)
        cfg = {"exhaustive": i % 2 == 1, "serialize_empty": rr.random() < 0.5, "strip": rr.choice([None, "com.verif", "com.verif.lab"])}
        g = LabGen(cs, Profile(n_types=40 if tier == "quick" else 60, services=0, errors=errors, hostile_names=True, plain_aliases=(tag == "plain")))
        if tag == "laws":
            # the laws are about types that contain doubles: redraw (deterministically) until the definition has enough of them
            def doubles(gg):
                return sum(1 for d in gg.types if d.kind != "enum" and contains_double(gg, d.ref()))
            tries = 0
            while doubles(g) < 10 and tries < 30:
                cs = rr.getrandbits(48)
                g = LabGen(cs, Profile(n_types=40 if tier == "quick" else 60, services=0, errors=errors, hostile_names=True))
                tries += 1
        labs.append((cs, cfg, g))
    specs = []
    if tag == "errs":
        # names whose Rust identifier differs from the declared name (runs of capitals, `Self`) and safe-argument names whose
        # byte order differs from their case-insensitive order: every run has them (first lab)
        import ir as irb
        g0 = labs[0][2]
        I_, S_ = irb.prim("INTEGER"), irb.prim("STRING")
        for nm, ns in (("HTTPUpstreamError", "Gateway"), ("DBConnectionLost", "Storage"), ("Self", "Identity"), ("IOFailure", "Disk")):
            if nm.lower() not in g0.used_names:
                g0.add_error(nm, g0.p.packages[0], ns, "CUSTOM_CLIENT", [("maxRetries", I_), ("maximum", I_), ("attempt", S_), ("zulu", S_), ("alpha", S_), ("alphaBeta", I_), ("alpha2", I_), ("maxZ", I_)], [("token", S_), ("maximumValue", I_)])
    if tag == "laws":
        # layout-sensitive shapes (found by finding C14-union-order-reads-payload-bytes) ride along in the first lab of every run
        from gen import layout_sensitive_types
        for (_, _, g0) in labs[:2]:        # one non-exhaustive and one exhaustive build (with / without an Unknown variant)
            for d in layout_sensitive_types(g0.p.packages[0]):
                g0.types.append(d)
                g0.by_name[d.name] = d
    for i, (cs, cfg, g) in enumerate(labs):
        ir = g.ir()
        plain = [d.name for d in g.types if plain_capable(g, d)]
        specs.append({"name": "%s%d" % (tag, i), "ir": ir, "cfg": cfg, "driver": lab.driver_source(ir, cfg, plain_types=plain)})
    res = lab.build_labs("%s-%s" % (tag, tier), specs)
    for i in range(len(labs)):
        name = "%s%d" % (tag, i)
        if res.gen.get(name, {}).get("status") != "ok" or not res.compiled.get(name):
            raise Inconclusive("lab %s did not build (see ./check C03): %s %s" % (name, res.gen.get(name), res.errors.get(name)))
    return res, labs


def plain_stage(prop, tier, seed, replay):
    """C12 lab half: PLAIN text of generated enums and aliases parses back to the same value."""
    import wire
    build(["genrun"])
    res, labs = typed_labs(tier, seed, "plain")
    rep = empty_report(prop)
    distinct = set()
    for i, (cs, cfg, g) in enumerate(labs):
        r = random.Random(cs ^ 0xC12)
        c = wire.Ctx(g, r, cfg["exhaustive"], cfg["serialize_empty"])
        cases, info = [], {}
        for d in g.types:
            if not plain_capable(g, d):
                continue
            for k in range(8 if tier == "quick" else 40):
                v = wire.gen_value(c, d.ref())
                cid = len(cases) + 1
                cases.append({"id": cid, "ty": d.name, "op": "plain", "doc": wire.render(c, v, d.ref(), wire.Style())})
                info[cid] = (d, v)
            # values a generated enum (or an alias of one) holds in its Unknown variant are values of the type too (default configuration)
            base = d
            while base.kind == "alias" and base.alias["type"] == "reference":
                base = g.by_name[base.alias["reference"]["name"]]
            if base.kind == "enum" and not cfg["exhaustive"]:
                for name_ in ["ZZ_UNLISTED_7", "Q", "PURPLE"]:
                    if name_ not in base.values:
                        cid = len(cases) + 1
                        cases.append({"id": cid, "ty": d.name, "op": "plain", "doc": json.dumps(name_)})
                        info[cid] = (d, ("enum", name_))
        results = lab.run_lab(res, "plain%d" % i, cases)
        for cid, (d, v) in info.items():
            out = results.get(cid) or {}
            u = wire.unalias(v)
            rep["evaluations"] += 1
            cell = "lab-plain/%s/%s" % (d.kind, u[0])
            rep["matrix"][cell] = rep["matrix"].get(cell, 0) + 1
            distinct.add(fnv("%s|%s|%s" % (type_shape(g, d), u[0], cfg["exhaustive"])))
            det = {"type": d.name, "kind": d.kind, "value": str(u)[:200], "observed": out, "config": cfg}
            if out.get("roundtrip_equal") is not True:
                rep["violations"].append(violation("lab-plain", cs, "generated:%s:plain-roundtrip-failed:%s" % (d.kind, u[0]), det))
                continue
            # spelling: enum wire name; string/rid/token/uuid verbatim; booleans lower case; non-finite doubles by name
            text = out.get("text")
            want = None
            if u[0] in ("enum", "str", "rid", "token", "uuid"):
                want = u[1]
            elif u[0] == "bool":
                want = "true" if u[1] else "false"
            elif u[0] in ("int", "long"):
                want = str(u[1])
            elif u[0] == "dbl" and u[1] != u[1]:
                want = "NaN"
            elif u[0] == "dbl" and u[1] in (float("inf"), float("-inf")):
                want = "Infinity" if u[1] > 0 else "-Infinity"
            elif u[0] == "bin":
                import base64
                want = base64.b64encode(u[1]).decode()
            elif u[0] == "time" and text is not None and wire.parse_time(text) != tuple(u[1]):
                want = "<an RFC 3339 datetime denoting %s>" % (u[1],)
            if want is not None and text != want:
                rep["violations"].append(violation("lab-plain", cs, "generated:%s:plain-spelling:%s" % (d.kind, u[0]), det))
            if len(rep["samples"]) < 2:
                rep["samples"].append({"sub": "lab-plain", "case_seed": cs, "type": d.name, "plain": text})
    rep["distinct"] = sorted(distinct)
    if not replay:
        rep["floors"]["lab-plain-cells"] = [4, len([k for k in rep["matrix"] if k.startswith("lab-plain/")])]
    return rep


def laws_stage(prop, tier, seed, replay):
    """C14 lab half: order / equality / hash laws over all triples of values of every generated
    type that contains a double, values drawn from a small colliding pool."""
    import wire
    build(["genrun"])
    res, labs = typed_labs(tier, seed, "laws")
    rep = empty_report(prop)
    distinct = set()
    orig = wire.SPECIAL_DOUBLES
    for i, (cs, cfg, g) in enumerate(labs):
        r = random.Random(cs ^ 0xC14)
        c = wire.Ctx(g, r, cfg["exhaustive"], cfg["serialize_empty"])
        cases, info = [], {}
        wire.SPECIAL_DOUBLES = COLLIDING_DOUBLES
        try:
            for d in g.types:
                if d.kind == "enum" or not contains_double(g, d.ref()):
                    continue
                docs = []
                for k in range(14 if tier == "quick" else 30):
                    try:
                        # force the double generator onto the colliding pool
                        state = r.getstate()
                        v = gen_colliding(wire, c, d.ref())
                    except wire.NoValue:
                        break
                    docs.append(wire.render(c, v, d.ref(), wire.Style()))
                if len(docs) < 3:
                    continue
                docs += docs[:2]     # the same document twice must give equal values
                cid = len(cases) + 1
                cases.append({"id": cid, "ty": d.name, "op": "laws", "docs": docs})
                info[cid] = (d, docs)
        finally:
            wire.SPECIAL_DOUBLES = orig
        results = lab.run_lab(res, "laws%d" % i, cases)
        for cid, (d, docs) in info.items():
            out = results.get(cid) or {}
            rep["evaluations"] += out.get("triples", 0)
            cell = "lab-laws/%s" % d.kind
            rep["matrix"][cell] = rep["matrix"].get(cell, 0) + 1
            rep["matrix"]["lab-laws/nontrivial-equal-pairs"] = rep["matrix"].get("lab-laws/nontrivial-equal-pairs", 0) + out.get("nontrivial_equal_pairs", 0)
            distinct.add(fnv("%s|%s" % (type_shape(g, d), cfg["exhaustive"])))
            if out.get("parsed") != out.get("given") or "panic" in out:
                rep["violations"].append(violation("lab-laws", cs, "generated:%s:documents-not-parsed" % d.kind, {"type": d.name, "observed": out, "docs": docs[:3]}))
                continue
            for bad in out.get("violations", []):
                rep["violations"].append(violation("lab-laws", cs, "generated:%s:%s" % (d.kind, bad["law"]),
                                                   {"type": d.name, "law": bad["law"], "documents": [docs[j] for j in bad["docs"] if j < len(docs)][:3], "config": cfg}))
            if len(rep["samples"]) < 2:
                rep["samples"].append({"sub": "lab-laws", "case_seed": cs, "type": d.name, "documents": docs[:3]})
    rep["distinct"] = sorted(distinct)
    if not replay:
        rep["floors"]["lab-types-with-doubles"] = [10, sum(v for k, v in rep["matrix"].items() if k.startswith("lab-laws/") and not k.endswith("pairs"))]
    return rep


def gen_colliding(wire, c, t):
    """A value whose doubles come from the colliding pool only."""
    real = c.r.random
    v = None
    class Biased:
        pass
    orig_gen = wire.gen_scalar
    def gen_scalar(cc, p):
        if p == "DOUBLE":
            return ("dbl", cc.r.choice(COLLIDING_DOUBLES))
        return orig_gen(cc, p)
    wire.gen_scalar = gen_scalar
    try:
        return wire.gen_value(c, t)
    finally:
        wire.gen_scalar = orig_gen


def errors_stage(prop, tier, seed, replay):
    """C17 lab half: generated error types -- name, code, sorted safe_args equal to the definition,
    parameters = stringified scalar arguments, partition by declared safety."""
    import wire, math
    build(["genrun"])
    res, labs = typed_labs(tier, seed, "errs", errors=8)
    rep = empty_report(prop)
    distinct = set()
    for i, (cs, cfg, g) in enumerate(labs):
        r = random.Random(cs ^ 0xC17)
        c = wire.Ctx(g, r, cfg["exhaustive"], cfg["serialize_empty"])
        cases, info = [], {}
        ir_errors = {e["errorName"]["name"]: e for e in g.errors}
        for d in g.error_defs:
            for k in range(6 if tier == "quick" else 30):
                try:
                    v = wire.gen_value(c, d.ref())
                except wire.NoValue:
                    break
                cid = len(cases) + 1
                cases.append({"id": cid, "ty": d.name, "op": "error", "doc": wire.render(c, v, d.ref(), wire.Style())})
                info[cid] = (d, v)
        results = lab.run_lab(res, "errs%d" % i, cases)
        for cid, (d, v) in info.items():
            out = results.get(cid) or {}
            e = ir_errors[d.name]
            rep["evaluations"] += 1
            det = {"error": d.name, "observed": json.dumps(out)[:800], "definition": {"safeArgs": [f["fieldName"] for f in e["safeArgs"]], "unsafeArgs": [f["fieldName"] for f in e["unsafeArgs"]]}}
            def fail(sig):
                rep["violations"].append(violation("lab-errors", cs, "generated-error:" + sig, det))
            if "parameters" not in out:
                fail("not-encoded")
                continue
            safe_names = sorted(f["fieldName"] for f in e["safeArgs"])
            if out.get("name") != "%s:%s" % (e["namespace"], d.name):
                fail("name")
            code = "".join(w.capitalize() for w in e["code"].split("_"))
            if out.get("code") != code:
                fail("code")
            if out.get("safe_args") != safe_names:
                fail("safe-args-not-sorted-or-not-equal-to-definition")
            if out.get("instance_ids_differ") is not True:
                fail("instance-id-not-fresh")
            params = out["parameters"]
            for (fn, fv) in v[2]:
                u = wire.unalias(fv)
                while u[0] == "opt" and u[1] is not None:
                    u = wire.unalias(u[1])
                kind = u[0]
                cell = "lab-error-param/" + kind
                rep["matrix"][cell] = rep["matrix"].get(cell, 0) + 1
                distinct.add(fnv("%s|%s" % (kind, fn in safe_names)))
                got = params.get(fn)
                if kind in ("list", "set", "map", "obj", "union", "bin") or (kind == "opt"):
                    if got is not None:
                        fail("non-scalar-parameter-not-omitted:" + kind)
                    continue
                if kind in ("time", "token", "long", "any"):
                    continue      # observed-only (DESIGN C17 FA)
                if got is None:
                    fail("scalar-parameter-missing:" + kind)
                    continue
                ok = True
                if kind in ("str", "uuid", "rid", "enum"):
                    ok = got == u[1]
                elif kind == "bool":
                    ok = got == ("true" if u[1] else "false")
                elif kind == "int":
                    ok = got == str(u[1])
                elif kind == "dbl":
                    x = u[1]
                    if math.isnan(x) or math.isinf(x):
                        # whatever the spelling (Rust's or Conjure's), it parses back to the same number
                        try:
                            back = float(got)
                            ok = (math.isnan(back) and math.isnan(x)) or back == x
                        except ValueError:
                            ok = False
                    else:
                        try:
                            ok = float(got) == x
                        except ValueError:
                            ok = False
                if not ok:
                    fail("parameter-text:" + kind)
                side = "service_safe_params" if fn in safe_names else "service_unsafe_params"
                other = "service_unsafe_params" if fn in safe_names else "service_safe_params"
                if fn not in out.get(side, []) or fn in out.get(other, []):
                    fail("partition:" + ("declared-safe" if fn in safe_names else "declared-unsafe"))
            extra = set(params) - set(fn for fn, _ in v[2])
            if extra:
                fail("undeclared-parameter")
            if len(rep["samples"]) < 2:
                rep["samples"].append({"sub": "lab-errors", "case_seed": cs, "error": d.name, "parameters": params})
    rep["distinct"] = sorted(distinct)
    if not replay:
        rep["floors"]["lab-error-param-kinds"] = [5, len([k for k in rep["matrix"] if k.startswith("lab-error-param/")])]
    rep["violations"] = rep["violations"][:100]
    return rep


# ------------------------------------------------------------------------------------------------
# generated services of random definitions, executed: lab half of C04 (and a runtime cross-check of
# the safe markers for C09)

def rust_arg_name(n):
    return lab.snake(n)


def visible_ascii(r, n=None):
    n = n or r.randrange(1, 12)
    return "".join(chr(r.randrange(0x21, 0x7f)) for _ in range(n))


def pct_decode(s):
    out = bytearray()
    i = 0
    b = s.encode("latin-1", "replace")
    while i < len(b):
        if b[i] == 0x25:
            if i + 2 >= len(b) + 0 and i + 2 > len(b) - 1:
                return None
            try:
                out.append(int(b[i + 1:i + 3].decode(), 16))
            except ValueError:
                return None
            i += 3
        else:
            out.append(b[i])
            i += 1
    try:
        return out.decode("utf-8")
    except UnicodeDecodeError:
        return None


def plain_equal(wire, v, text):
    """Does PLAIN `text` denote the value v (spelling-insensitive for doubles and datetimes)."""
    import math
    u = wire.unalias(v)
    if text is None:
        return False
    if u[0] == "dbl":
        x = u[1]
        if math.isnan(x):
            return text == "NaN"
        if math.isinf(x):
            return text == ("Infinity" if x > 0 else "-Infinity")
        try:
            return float(text) == x and text.lower() not in ("inf", "-inf", "nan")
        except ValueError:
            return False
    if u[0] == "time":
        return wire.parse_time(text) == tuple(u[1])
    return text == plain_text(wire, v)


def check_uri_shape(wire, c, e, vals, uri):
    """Independent RFC 3986 split of the URI a generated client built: segment count, literal
    segments, one key=value pair per supplied value in order, values decode back exactly."""
    if "#" in uri:
        return "fragment: " + uri[:120]
    path, _, q = uri.partition("?")
    segs = path.split("/")[1:]
    tmpl = e["httpPath"].split("/")[1:]
    if len(segs) != len(tmpl):
        return "segment-count: %d vs template %d" % (len(segs), len(tmpl))
    for got, want in zip(segs, tmpl):
        d = pct_decode(got)
        if d is None:
            return "bad-escape-in-path: " + got[:60]
        if want.startswith("{"):
            an = want[1:-1]
            v = vals[an][0]
            if not plain_equal(wire, v, d):
                return "path-value-altered: %r vs %r" % (d, plain_text(wire, v))
        elif d != want:
            return "literal-segment-altered: %r vs %r" % (d, want)
    expected = []     # (key, [values], is_set)
    for a in e["args"]:
        if a["paramType"]["type"] != "query":
            continue
        key = a["paramType"]["query"]["paramId"]
        u = wire.unalias(vals[a["argName"]][0])
        if u[0] == "opt":
            if u[1] is not None:
                expected.append((key, [u[1]], False))
        elif u[0] in ("list", "set"):
            expected.append((key, list(u[1]), u[0] == "set"))
        else:
            expected.append((key, [vals[a["argName"]][0]], False))
    pairs = q.split("&") if q else []
    n_expected = sum(len(v) for _, v, _ in expected)
    if len(pairs) != n_expected:
        return "query-pair-count: %d vs %d supplied values" % (len(pairs), n_expected)
    i = 0
    for key, values, is_set in expected:
        got_vals = []
        for _ in values:
            k, eq, v = pairs[i].partition("=")
            i += 1
            if not eq:
                return "query-pair-without-equals: " + pairs[i - 1][:60]
            if "+" in v:
                return "raw-plus-in-query-value: " + v[:60]
            dk, dv = pct_decode(k), pct_decode(v)
            if dk != key:
                return "query-key-altered: %r vs %r" % (dk, key)
            got_vals.append(dv)
        if is_set:
            # a set is emitted in the set's own order: match as a multiset
            left = list(values)
            for g in got_vals:
                hit = next((x for x in left if plain_equal(wire, x, g)), None)
                if hit is None:
                    return "query-value-altered: %r not among the set's values" % (g,)
                left.remove(hit)
        else:
            for g, x in zip(got_vals, values):
                if not plain_equal(wire, x, g):
                    return "query-value-altered: %r vs %r" % (g, plain_text(wire, x))
    return None


def force_optional_headers(g, ir):
    """Every service lab has optional<string> header arguments (direct and through an alias of an optional, when the
    definition has one): added to the first two endpoints of each service before generation."""
    import ir as irb
    alias_opt = None
    for d in g.types:
        if d.kind == "alias" and d.alias["type"] == "optional" and d.alias["optional"]["itemType"] == irb.prim("STRING"):
            alias_opt = d.ref()
            break
    for s in ir["services"]:
        for k, e in enumerate(s["endpoints"][:2]):
            names = {a["argName"].lower() for a in e["args"]}
            ids = {a["paramType"]["header"]["paramId"].lower() for a in e["args"] if a["paramType"]["type"] == "header"}
            if "verifoptheader" in names or "verif-opt" in ids:
                continue
            t = alias_opt if (alias_opt is not None and k == 1) else irb.opt(irb.prim("STRING"))
            e["args"].append(irb.arg("verifOptHeader", t, "header", "Verif-Opt"))


def force_return_types(g, ir):
    """Service labs: endpoints (no arguments) whose return types are the shapes the client / server decode selection looks
    through: aliases of optional<binary>, of binary, of optionals and collections, and external types with optional / set /
    map / list fallbacks. The aliases are added to the definition."""
    import ir as irb
    from gen import TDef
    if not ir["services"] or "VerifMaybeBlob" in g.by_name:
        return
    pkg = g.p.packages[0]
    S, B = irb.prim("STRING"), irb.prim("BINARY")
    new_aliases = [("VerifMaybeBlob", irb.opt(B)), ("VerifBlob", B), ("VerifMaybeText", irb.opt(S)), ("VerifNames", irb.lst(S)), ("VerifNameSet", irb.set_(S)), ("VerifCounts", irb.map_(S, irb.prim("INTEGER")))]
    for name, t in new_aliases:
        d = TDef("alias", name, pkg)
        d.alias = t
        g.types.append(d)
        g.by_name[name] = d
        ir["types"].append(d.to_ir())
    ext = lambda n, fb: irb.external(n, "java.ext", fb)
    rets = [("verifRetMaybeBlob", irb.ref("VerifMaybeBlob", pkg)), ("verifRetOptBlobAlias", irb.opt(irb.ref("VerifBlob", pkg))), ("verifRetBlobAlias", irb.ref("VerifBlob", pkg)),
            ("verifRetMaybeText", irb.ref("VerifMaybeText", pkg)), ("verifRetNames", irb.ref("VerifNames", pkg)), ("verifRetNameSet", irb.ref("VerifNameSet", pkg)),
            ("verifRetCounts", irb.ref("VerifCounts", pkg)), ("verifRetExtOpt", ext("VerifExtOpt", irb.opt(S))), ("verifRetExtSet", ext("VerifExtSet", irb.set_(S))),
            ("verifRetExtMap", ext("VerifExtMap", irb.map_(S, S))), ("verifRetExtList", ext("VerifExtList", irb.lst(S))), ("verifRetText", S), ("verifRetFlag", irb.prim("BOOLEAN")),
            ("verifRetCount", irb.prim("INTEGER"))]
    s0 = ir["services"][0]
    for k, (name, t) in enumerate(rets):
        s0["endpoints"].append(irb.endpoint(name, "GET", "/verif-ret/r%d" % k, [], returns=t))


def force_map_bodies(g, ir):
    """C09 labs: body arguments whose type is a map with a primitive key and safe values (an enum of the definition),
    directly, keyed by bearer tokens, and nested in a list: not safe, whatever the values are."""
    import ir as irb
    enums = [d for d in g.types if d.kind == "enum"]
    if not enums:
        return
    e_ref = enums[0].ref()
    # a union whose declared variants are all safe is still not safe (it may hold an unknown variant)
    from gen import TDef
    if "VerifSafeUnion" not in g.by_name:
        u = TDef("union", "VerifSafeUnion", g.p.packages[0])
        u.fields = [("code", irb.prim("INTEGER"), "SAFE"), ("label", irb.prim("STRING"), "SAFE"), ("kind", e_ref, None)]
        g.types.append(u)
        g.by_name[u.name] = u
        ir["types"].append(u.to_ir())
    u_ref = g.by_name["VerifSafeUnion"].ref()
    shapes = [irb.map_(irb.prim("STRING"), e_ref), u_ref, irb.map_(irb.prim("BEARERTOKEN"), e_ref), irb.lst(u_ref), irb.lst(irb.map_(irb.prim("STRING"), e_ref)),
              irb.opt(irb.map_(irb.prim("INTEGER"), e_ref))]
    k = 0
    for s in ir["services"]:
        for e in s["endpoints"]:
            if e["httpMethod"] in ("POST", "PUT") and not any(a["paramType"]["type"] == "body" for a in e["args"]) and "verifmapbody" not in {a["argName"].lower() for a in e["args"]}:
                e["args"].append(irb.arg("verifMapBody", shapes[k % len(shapes)], "body"))
                k += 1
                if k >= 6:
                    return


def services_stage(prop, tier, seed, replay):
    import wire
    from gen import LabGen, Profile
    from safety import SafetyModel
    build(["genrun"])
    rr = random.Random(seed * 4001 + 4)
    n = 4 if tier == "quick" else 16
    labs, specs = [], []
    for i in range(n):
        cs = rr.getrandbits(48)
        cfg = {"exhaustive": i % 2 == 1, "serialize_empty": rr.random() < 0.5, "strip": rr.choice([None, "com.verif", "com.verif.lab"])}
        # C09 compares SafeParams with the log-safety model: most arguments are bodies typed by the definition's own types there
        g = LabGen(cs, Profile(n_types=25, services=3, errors=0, hostile_names=True, body_bias=(prop == "C09")))
        ir = g.ir()
        force_optional_headers(g, ir)
        force_return_types(g, ir)
        if prop == "C09":
            force_map_bodies(g, ir)
        labs.append((cs, cfg, g, ir))
        specs.append({"name": "svc%d" % i, "ir": ir, "cfg": cfg, "drive": True, "driver": lab.driver_source(ir, cfg, registry=False, services=True)})
    res = lab.build_labs("svc-%s" % tier, specs)
    rep = empty_report(prop)
    distinct = set()
    for i, (cs, cfg, g, ir) in enumerate(labs):
        name = "svc%d" % i
        if res.gen.get(name, {}).get("status") != "ok" or not res.compiled.get(name):
            raise Inconclusive("service lab %s did not build: %s %s" % (name, res.gen.get(name), res.errors.get(name)))
        r = random.Random(cs ^ 0xC04)
        c = wire.Ctx(g, r, cfg["exhaustive"], cfg["serialize_empty"])
        model = SafetyModel(ir)
        cases, info = [], {}
        orig_scalar = wire.gen_scalar
        for s in ir["services"]:
            sn = s["serviceName"]["name"]
            for e in s["endpoints"]:
                for k in range(5 if tier == "quick" else 20):
                    for flavour in ("sync", "async"):
                        args, vals, ok = {}, {}, True
                        hostile_headers = (r.random() < 0.2) and prop == "C04"      # header texts HTTP cannot carry: refused, never delivered altered
                        for a in e["args"]:
                            kind = a["paramType"]["type"]
                            t = a["type"]
                            if kind == "header":
                                # HTTP can carry only visible ASCII as header text; other texts (one call in five) must be refused
                                def hs(cc, p, _o=orig_scalar, _h=hostile_headers):
                                    if p == "STRING":
                                        return ("str", cc.r.choice(["\u00e9", "caf\u00e9", "\u65e5\u672c", "a\u00e9b", "x\u007f", "line\nbreak", "\u0000"]) if _h else visible_ascii(cc.r))
                                    return _o(cc, p)
                                wire.gen_scalar = hs
                            try:
                                v = wire.gen_value(c, t)
                            except wire.NoValue:
                                ok = False
                                break
                            finally:
                                wire.gen_scalar = orig_scalar
                            u = wire.unalias(v)
                            if u[0] == "bin" and kind == "body":
                                args[rust_arg_name(a["argName"])] = json.dumps("hex:" + u[1].hex())
                            else:
                                args[rust_arg_name(a["argName"])] = wire.render(c, v, t, wire.Style())
                            vals[a["argName"]] = (v, t, kind)
                        if not ok:
                            continue
                        token = None
                        if e.get("auth"):
                            token = "tok" + visible_ascii(r, 6).replace("=", "a").translate({ord(ch): "x" for ch in "!\"#$%&'()*,:;<>?@[\\]^`{|}"})
                            args["auth_"] = json.dumps(token)
                        script, ret = {}, None
                        if e.get("returns"):
                            rt_ = e["returns"]
                            try:
                                rv = wire.gen_value(c, rt_)
                            except wire.NoValue:
                                continue
                            ru = wire.unalias(rv)
                            if ru[0] == "bin":
                                script[e["endpointName"]] = "hex:" + ru[1].hex()
                            elif ru[0] == "opt" and (ru[1] is None or wire.unalias(ru[1])[0] == "bin") and wire.dealias(c, wire.dealias(c, rt_)["optional"]["itemType"]) == {"type": "primitive", "primitive": "BINARY"}:
                                script[e["endpointName"]] = "<absent>" if ru[1] is None else "hex:" + wire.unalias(ru[1])[1].hex()
                            else:
                                script[e["endpointName"]] = wire.render(c, rv, rt_, wire.Style())
                            ret = (rv, rt_)
                        headers_ok = True
                        for an, (v, t, kind) in vals.items():
                            if kind == "header":
                                u = wire.unalias(v)
                                items = ([] if u[1] is None else [u[1]]) if u[0] == "opt" else [v]
                                headers_ok = headers_ok and all(all(0x20 <= ord(ch) < 0x7f for ch in plain_text(wire, x)) for x in items)
                        cid = len(cases) + 1
                        cases.append({"id": cid, "ty": "%s/%s" % (sn, flavour), "op": "call", "method": lab.snake(e["endpointName"]), "args": args, "script": script})
                        info[cid] = (sn, e, flavour, vals, token, ret, script, headers_ok)
        results = lab.run_lab(res, name, cases)
        if "__crash__" in results:
            rep["violations"].append(violation("lab-services", cs, "lab-crashed", {"crash": results["__crash__"]}))
            continue
        for cid, (sn, e, flavour, vals, token, ret, script, headers_ok) in info.items():
            out = results.get(cid) or {}
            rep["evaluations"] += 1
            kinds = sorted(set(k for (_, _, k) in vals.values()))
            cell = "lab-call/%s/%s" % (flavour, "+".join(kinds) or "no-args")
            rep["matrix"][cell] = rep["matrix"].get(cell, 0) + 1
            for an, (v, t, kind) in vals.items():
                distinct.add(fnv("%s|%s|%s" % (flavour, kind, wire.unalias(v)[0])))
            det = {"service": sn, "endpoint": e["endpointName"], "flavour": flavour, "observed": json.dumps(out)[:900], "config": cfg,
                   "supplied": {k: (wire.render(c, v, t, wire.Style())[:120]) for k, (v, t, _) in vals.items()}}
            def fail(sig):
                rep["violations"].append(violation("lab-services", cs, "generated-service:%s:%s" % (flavour, sig), det))
            result = out.get("result", {})
            calls = out.get("calls", [])
            if "panic" in result or "harness_error" in out:
                fail("panic")
                continue
            if prop == "C07":
                # URI structure of what the generated client handed to the transport
                bad = check_uri_shape(wire, c, e, vals, out.get("uri") or "")
                if bad:
                    det["uri"] = out.get("uri")
                    det["mismatch"] = bad
                    fail("uri:" + bad.split(":")[0])
                continue
            if "ok" not in result and not headers_ok and prop == "C04":
                # a header value that is not visible ASCII may be refused by the client or the server, but then nothing was delivered
                rep["matrix"]["lab-call/%s/refused-unrepresentable-header" % flavour] = rep["matrix"].get("lab-call/%s/refused-unrepresentable-header" % flavour, 0) + 1
                if calls:
                    fail("error-after-delivery")
                continue
            if "ok" not in result:
                # a body larger than the endpoint's server-limit-request-size is rightly refused (C06); nothing was delivered then
                clen = [int(v) for k, v in out.get("request_headers", []) if k == "content-length" and v.isdigit()]
                if clen and clen[0] > endpoint_limit(e) and result.get("err") == "service:InvalidArgument" and not calls:
                    rep["matrix"]["lab-call/%s/refused-oversize-body" % flavour] = rep["matrix"].get("lab-call/%s/refused-oversize-body" % flavour, 0) + 1
                    continue
                fail("call-failed")
                continue
            if len(calls) != 1 or calls[0]["endpoint"] != e["endpointName"]:
                fail("handler-events")
                continue
            rec = dict((k, v) for k, v in calls[0]["args"])
            bad = None
            for an, (v, t, kind) in vals.items():
                got = rec.get(an)
                u = wire.unalias(v)
                try:
                    if got is None:
                        raise wire.Mismatch("argument not recorded")
                    if u[0] == "bin" and kind == "body":
                        if got != "hex:" + u[1].hex():
                            raise wire.Mismatch("binary body differs")
                    else:
                        wire.check(c, v, t, strict_loads(got))
                except (wire.Mismatch, ValueError) as ex:
                    bad = "%s (%s): %s" % (an, kind, str(ex)[:200])
                    break
            if bad:
                det["mismatch"] = bad
                fail("arguments-differ:" + bad.split(" ")[1].strip("():"))
                continue
            if token is not None and rec.get("auth") != json.dumps(token):
                fail("auth-token-differs")
                continue
            if ret is not None:
                rv, rt_ = ret
                want = script[e["endpointName"]]
                ok_txt = result["ok"]
                try:
                    if want.startswith("hex:") or want == "<absent>":
                        if ok_txt != want:
                            raise wire.Mismatch("binary return differs: %s vs %s" % (ok_txt[:60], want[:60]))
                    else:
                        wire.check(c, rv, rt_, strict_loads(ok_txt))
                except (wire.Mismatch, ValueError) as ex:
                    det["mismatch"] = str(ex)[:300]
                    fail("return-value-differs")
                    continue
            # runtime cross-check of the safe markers: SafeParams holds exactly the arguments the model calls safe
            expected_safe = sorted(a["argName"] for a in e["args"] if model.arg_safe(a))
            got_safe = sorted(k for k, _ in out.get("safe_params", []))
            if expected_safe != got_safe:
                det["expected_safe"], det["got_safe"] = expected_safe, got_safe
                fail("safe-params-differ-from-model")
            if len(rep["samples"]) < 3:
                rep["samples"].append({"sub": "lab-services", "case_seed": cs, "service": sn, "endpoint": e["endpointName"], "flavour": flavour, "uri": out.get("uri"), "args": det["supplied"]})
    rep["distinct"] = sorted(distinct)
    if not replay:
        rep["floors"]["lab-call-cells"] = [6, len([k for k in rep["matrix"] if k.startswith("lab-call/")])]
    rep["violations"] = rep["violations"][:100]
    return rep


# ------------------------------------------------------------------------------------------------
# C19 lab half: raw requests with corrupted arguments against generated endpoints of random services

def plain_text(wire, v):
    import base64, math
    u = wire.unalias(v)
    k = u[0]
    if k in ("str", "uuid", "rid", "token", "enum"):
        return u[1]
    if k in ("int", "long"):
        return str(u[1])
    if k == "bool":
        return "true" if u[1] else "false"
    if k == "dbl":
        x = u[1]
        if math.isnan(x):
            return "NaN"
        if math.isinf(x):
            return "Infinity" if x > 0 else "-Infinity"
        return repr(x)
    if k == "time":
        return wire.time_text(u[1][0], u[1][1])
    if k == "bin":
        return base64.b64encode(u[1]).decode()
    raise ValueError(k)


def pct(s):
    out = []
    for b in s.encode("utf-8"):
        ch = chr(b)
        out.append(ch if (ch.isalnum() and b < 128) or ch in "-._~" else "%%%02X" % b)
    return "".join(out)


def latin(s):
    """utf-8 bytes of s as a latin-1 string (the transport format of labrt::svc::RawSpec)."""
    return s.encode("utf-8").decode("latin-1")


def param_shape(wire, c, t):
    """(single-valued?, optional?, typed?) of a path/query/header parameter type."""
    d = wire.dealias(c, t)
    optional = d["type"] == "optional"
    multi = d["type"] in ("list", "set")
    item = wire.dealias(c, d[d["type"]]["itemType"]) if (optional or multi) else d
    if item["type"] == "reference":
        typed = True          # enum
    else:
        typed = item["primitive"] not in ("STRING", "ANY", "BINARY")
    return (not multi, optional, typed)


def raw_stage(prop, tier, seed, replay):
    import wire
    from gen import LabGen, Profile
    build(["genrun"])
    rr = random.Random(seed * 4001 + 19)
    n = 3 if tier == "quick" else 12
    labs, specs = [], []
    for i in range(n):
        cs = rr.getrandbits(48)
        cfg = {"exhaustive": i % 2 == 1, "serialize_empty": rr.random() < 0.5, "strip": rr.choice([None, "com.verif", "com.verif.lab"])}
        g = LabGen(cs, Profile(n_types=20, services=3, errors=0, hostile_names=True))
        ir = g.ir()
        labs.append((cs, cfg, g, ir))
        specs.append({"name": "raw%d" % i, "ir": ir, "cfg": cfg, "drive": True, "driver": lab.driver_source(ir, cfg, registry=False, services=True)})
    res = lab.build_labs("raw-%s" % tier, specs)
    rep = empty_report(prop)
    distinct = set()
    orig_scalar = wire.gen_scalar
    for i, (cs, cfg, g, ir) in enumerate(labs):
        name = "raw%d" % i
        if res.gen.get(name, {}).get("status") != "ok" or not res.compiled.get(name):
            raise Inconclusive("service lab %s did not build: %s %s" % (name, res.gen.get(name), res.errors.get(name)))
        r = random.Random(cs ^ 0xC19)
        c = wire.Ctx(g, r, cfg["exhaustive"], cfg["serialize_empty"])
        cases, info = [], {}
        for s in ir["services"]:
            sn = s["serviceName"]["name"]
            for e in s["endpoints"]:
                if any(a["paramType"]["type"] == "body" and wire.dealias(c, a["type"]) in ({"type": "primitive", "primitive": "BINARY"},) for a in e["args"]):
                    continue
                for k in range(6 if tier == "quick" else 24):
                    def hs(cc, p, _o=orig_scalar):
                        if p == "STRING":
                            return ("str", visible_ascii(cc.r))
                        return _o(cc, p)
                    vals = {}
                    ok = True
                    for a in e["args"]:
                        wire.gen_scalar = hs if a["paramType"]["type"] == "header" else orig_scalar
                        try:
                            vals[a["argName"]] = wire.gen_value(c, a["type"])
                        except wire.NoValue:
                            ok = False
                        finally:
                            wire.gen_scalar = orig_scalar
                    if not ok:
                        continue
                    # choose the corruptions (2/3 of the requests)
                    cands = []
                    for a in e["args"]:
                        kind = a["paramType"]["type"]
                        if kind == "body":
                            continue
                        single, optional, typed = param_shape(wire, c, a["type"])
                        if kind == "path" and typed:
                            cands.append((a, "unparsable"))
                        if kind == "query":
                            if single and not optional:
                                cands.append((a, "absent"))
                            if single:
                                cands.append((a, "repeated"))
                            if typed:
                                cands.append((a, "unparsable"))
                                cands.append((a, "empty-value"))
                        if kind == "header":
                            cands += [(a, "not-text"), (a, "repeated")]
                            if not optional:
                                cands.append((a, "absent"))
                            if typed:
                                cands.append((a, "unparsable"))
                    if e.get("auth"):
                        cands += [(None, "auth-missing"), (None, "auth-wrong-prefix"), (None, "auth-bad-chars")]
                    chosen = {}
                    if cands and r.random() < 0.67:
                        for _ in range(1 if r.random() < 0.75 else 2):
                            a, how = r.choice(cands)
                            chosen[a["argName"] if a else "__auth__"] = how
                    # render
                    path = e["httpPath"]
                    query, headers, body = [], [], ""
                    for a in e["args"]:
                        an, kind, v = a["argName"], a["paramType"]["type"], vals[a["argName"]]
                        how = chosen.get(an)
                        u = wire.unalias(v)
                        texts = []
                        if kind != "body":
                            if u[0] == "opt":
                                texts = [] if u[1] is None else [plain_text(wire, u[1])]
                            elif u[0] in ("list", "set"):
                                texts = [plain_text(wire, x) for x in u[1]]
                            else:
                                texts = [plain_text(wire, v)]
                        if kind == "path":
                            path = path.replace("{" + an + "}", pct("!bad" if how else texts[0]))
                        elif kind == "query":
                            key = a["paramType"]["query"]["paramId"]
                            if how == "absent":
                                texts = []
                            elif how == "repeated":
                                texts = (texts or ["1"])[:1] * 2
                            elif how == "unparsable":
                                texts = ["!bad"]
                            elif how == "empty-value":
                                # `key=`: the empty text is no value of a typed parameter; a list / set keeps its other elements
                                texts = (texts + [""]) if u[0] in ("list", "set") else [""]
                            query += [(key, t) for t in texts]
                        elif kind == "header":
                            key = a["paramType"]["header"]["paramId"].lower()
                            if how == "absent":
                                texts = []
                            elif how == "repeated":
                                texts = (texts or ["1"])[:1] * 2
                            elif how == "unparsable":
                                texts = ["!bad"]
                            elif how == "not-text":
                                texts = ["xÿ"]
                            headers += [(key, t if how == "not-text" else latin(t)) for t in texts]
                        else:
                            body = latin(wire.render(c, v, a["type"], wire.Style()))
                            if not (u[0] == "opt" and u[1] is None):
                                headers.append(("content-type", "application/json"))
                            else:
                                body = ""
                    if e.get("auth"):
                        how = chosen.get("__auth__")
                        cookie = e["auth"]["type"] == "cookie"
                        prefix = (e["auth"]["cookie"]["cookieName"] + "=") if cookie else "Bearer "
                        hn = "cookie" if cookie else "authorization"
                        if how == "auth-wrong-prefix":
                            headers.append((hn, "Basic abc"))
                        elif how == "auth-bad-chars":
                            headers.append((hn, prefix + "to ken!"))
                        elif how != "auth-missing":
                            headers.append((hn, prefix + "tok.en"))
                    uri = path + ("?" + "&".join("%s=%s" % (pct(k), pct(v)) for k, v in query) if query else "")
                    if len(body) > endpoint_limit(e):
                        continue        # a body beyond the endpoint's server-limit-request-size is refused whatever the parameters are (C06's business)
                    for flavour in ("raw-sync", "raw-async"):
                        cid = len(cases) + 1
                        cases.append({"id": cid, "ty": "%s/%s" % (sn, flavour), "op": "raw", "http_method": e["httpMethod"], "uri": uri, "headers": headers, "body": body})
                        info[cid] = (sn, e, flavour, chosen, uri, headers)
        results = lab.run_lab(res, name, cases)
        if "__crash__" in results:
            rep["violations"].append(violation("lab-raw", cs, "lab-crashed", {"crash": results["__crash__"]}))
            continue
        for cid, (sn, e, flavour, chosen, uri, headers) in info.items():
            out = results.get(cid) or {}
            rep["evaluations"] += 1
            sig_c = "+".join(sorted("%s@%s" % (how, ("auth" if an == "__auth__" else [a["paramType"]["type"] for a in e["args"] if a["argName"] == an][0])) for an, how in chosen.items())) or "valid"
            cell = "lab-raw/%s/%s" % (flavour, sig_c)
            rep["matrix"][cell] = rep["matrix"].get(cell, 0) + 1
            distinct.add(fnv(cell))
            det = {"service": sn, "endpoint": e["endpointName"], "flavour": flavour, "uri": uri, "headers": headers[:8], "corrupted": chosen, "observed": json.dumps(out)[:800]}
            def fail(sig):
                rep["violations"].append(violation("lab-raw", cs, "generated-endpoint:%s:%s" % (flavour, sig), det))
            result, calls = out.get("result", {}), out.get("calls", [])
            if "panic" in result:
                fail("panic")
                continue
            if not chosen:
                # no return value is scripted in raw mode: the recording handler itself answers with a harness error
                harness_err = str(result.get("cause", "")).startswith("harness:")
                if len(calls) != 1 or not ("ok" in result or harness_err):
                    fail("valid-request-rejected")
                continue
            if calls:
                fail("handler-invoked:" + sig_c)
                continue
            if "err" not in result:
                fail("no-error")
                continue
            code = result["err"]
            params = [n for n in chosen if n != "__auth__"]
            param = dict((k, v) for k, v in result.get("safe_params", [])).get("param")
            okc = (code == "PermissionDenied" and "__auth__" in chosen) or (code == "InvalidArgument" and any(param == json.dumps(p) for p in params))
            if not okc:
                kind = "wrong-param-name" if (code == "InvalidArgument" and params) else "wrong-code"
                det["code"], det["param"] = code, param
                fail(kind)
            if len(rep["samples"]) < 3:
                rep["samples"].append({"sub": "lab-raw", "case_seed": cs, "endpoint": e["endpointName"], "uri": uri, "corrupted": chosen, "code": code, "param": param})
    rep["distinct"] = sorted(distinct)
    if not replay:
        rep["floors"]["lab-raw-cells"] = [8, len([k for k in rep["matrix"] if k.startswith("lab-raw/")])]
    rep["violations"] = rep["violations"][:100]
    return rep


# ------------------------------------------------------------------------------------------------
# C06 / C18 lab halves: request bodies and responses of generated services of random definitions

LIMITS = {"100b": 100, "2kb": 2000, "1 MiB": 1024 * 1024, "5mb": 5 * 1000 * 1000}
DEFAULT_LIMIT = 50 * 1024 * 1024
INJECTED = "verif-injected-stream-error"


def endpoint_limit(e):
    for t in e.get("tags", []):
        if t.startswith("server-limit-request-size:"):
            return LIMITS[t.split(":", 1)[1].strip()]
    return DEFAULT_LIMIT


def gen_args(wire, c, e, orig_scalar):
    """Values for every argument of e (header strings restricted to visible ASCII); None if a type has no value."""
    def hs(cc, p, _o=orig_scalar):
        if p == "STRING":
            return ("str", visible_ascii(cc.r))
        return _o(cc, p)
    vals = {}
    for a in e["args"]:
        wire.gen_scalar = hs if a["paramType"]["type"] == "header" else orig_scalar
        try:
            vals[a["argName"]] = wire.gen_value(c, a["type"])
        except wire.NoValue:
            return None
        finally:
            wire.gen_scalar = orig_scalar
    return vals


def render_valid_params(wire, e, vals):
    """(uri, headers) of a request carrying every non-body argument (and the auth token) validly."""
    path, query, headers = e["httpPath"], [], []
    for a in e["args"]:
        an, kind, v = a["argName"], a["paramType"]["type"], vals[a["argName"]]
        if kind == "body":
            continue
        u = wire.unalias(v)
        if u[0] == "opt":
            texts = [] if u[1] is None else [plain_text(wire, u[1])]
        elif u[0] in ("list", "set"):
            texts = [plain_text(wire, x) for x in u[1]]
        else:
            texts = [plain_text(wire, v)]
        if kind == "path":
            path = path.replace("{" + an + "}", pct(texts[0]))
        elif kind == "query":
            query += [(a["paramType"]["query"]["paramId"], t) for t in texts]
        else:
            headers += [(a["paramType"]["header"]["paramId"].lower(), latin(t)) for t in texts]
    if e.get("auth"):
        cookie = e["auth"]["type"] == "cookie"
        headers.append(("cookie", e["auth"]["cookie"]["cookieName"] + "=tok.en") if cookie else ("authorization", "Bearer tok.en"))
    uri = path + ("?" + "&".join("%s=%s" % (pct(k), pct(v)) for k, v in query) if query else "")
    return uri, headers


def content_type_case(r, want_valid):
    """(header value or None, class, names JSON?)"""
    if want_valid:
        return r.choice([("application/json", "exact", True)] * 3 + [("application/json; charset=utf-8", "with-parameters", True), ("APPLICATION/JSON", "upper-case", True),
                                                                     ("application/json;q=0.1;x=y", "with-parameters", True)])
    return r.choice([(None, "absent", False), ("text/plain", "unregistered", False), ("application/*", "wildcard", False), ("garbage", "unparsable", False),
                     ("application/json\xff", "non-ascii", False), ("application/json+zip", "registered+suffix", False), ("application/problem+json", "other+suffix", False),
                     ("application/x-jackson-smile", "other-registered-encoding", False), ("", "empty", False), ("application/cbor", "unregistered", False)])


def body_case(wire, c, r, v, t, limit):
    """One request body for value v of type t: (text, class, valid?)."""
    canon = wire.render(c, v, t, wire.Style())
    top_absent = wire.unalias(v)[0] == "opt" and wire.unalias(v)[1] is None     # renders as `null`
    if limit <= 2000 and r.random() < 0.3:
        # a valid document padded with leading whitespace to limit-1 .. limit+2 bytes
        target = limit + r.choice([-1, 0, 0, 1, 1, 2])
        pad = target - len(canon.encode("utf-8"))
        if pad >= 0:
            return " " * pad + canon, "padded-to-limit%+d" % (target - limit), True
    k = r.random()
    if k < 0.22:
        return canon, "canonical", True
    if k < 0.34:
        return wire.render(c, v, t, wire.Style(r, noncanon=True)), "non-canonical", True
    if k < 0.42:
        ws = r.choice([" ", "\n", "\t \r\n", "  "])
        return r.choice([canon + ws, ws + canon, ws + canon + ws]), "surrounding-whitespace", True
    if k < 0.56:
        return canon + r.choice(["x", "{}", " 1", ",", "]", "}", "\x00", "null", " []", "\"", "\n\n0", " " + canon]), "trailing-data", False
    if k < 0.68:
        if canon[-1] in "}]\"":
            cut = r.randint(1, min(len(canon), 6)) if r.random() < 0.7 else r.randint(1, len(canon))
            return canon[:-cut], "truncated", False
        return "", "empty", False
    if k < 0.72:
        return r.choice(["", " ", "\n"]), "empty", False
    if k < 0.78:
        return r.choice(["{", "[1,", "nul", "tru", "\"abc", "{\"a\":}", "[1 2]", "{'a':1}", "01", "+1", "\xff\xfe", "NaN", "[", "]", ":)\n"]), "malformed", False
    sites = list(wire.fault_sites(c, v, t))
    if not sites or top_absent:
        return canon, "canonical", True
    path, kind, payload, cls = r.choice(sites)
    return wire.render(c, v, t, wire.Style(), (path, kind, payload)), "fault/" + cls, False


def force_small_limits(wire, g, ir):
    """Every bodies lab has small size limits on (up to) two endpoints with an optional and two with a required
    serializable body: the tag is rewritten in the IR before generation."""
    c = wire.Ctx(g, random.Random(0))
    BIN = {"type": "primitive", "primitive": "BINARY"}
    quota = {True: ["100b", "2kb"], False: ["2kb", "100b"]}
    def serializable_bodies():
        for s in ir["services"]:
            for e in s["endpoints"]:
                bodies = [a for a in e["args"] if a["paramType"]["type"] == "body"]
                if not bodies:
                    continue
                bt = wire.dealias(c, bodies[0]["type"])
                optional = bt["type"] == "optional"
                if bt == BIN:
                    continue
                yield e, bodies[0], optional
    found = list(serializable_bodies())
    if not any(o for _, _, o in found):
        required = [(e, a) for e, a, o in found if not o]
        if len(required) >= 2:
            # no endpoint with an optional body was drawn: make the last required body optional
            e, a = required[-1]
            a["type"] = {"type": "optional", "optional": {"itemType": a["type"]}}
    for e, a, optional in list(serializable_bodies()):
        if quota[optional]:
            e["tags"] = [t for t in e.get("tags", []) if not t.startswith("server-limit-request-size:")] + ["server-limit-request-size: " + quota[optional].pop(0)]


def bodies_stage(prop, tier, seed, replay):
    """C06 lab half: raw requests whose body (and Content-Type, chunking, stream error) is hostile, against the generated
    endpoints of random definitions. Reference decision by construction, as in the in-process monitor."""
    import wire
    from gen import LabGen, Profile
    build(["genrun"])
    rr = random.Random(seed * 4001 + 6)
    n = 3 if tier == "quick" else 12
    labs, specs = [], []
    for i in range(n):
        cs = rr.getrandbits(48)
        cfg = {"exhaustive": i % 2 == 1, "serialize_empty": rr.random() < 0.5, "strip": rr.choice([None, "com.verif", "com.verif.lab"])}
        g = LabGen(cs, Profile(n_types=25, services=3, errors=0, hostile_names=True, body_bias=True, limit_bias=0.5))
        ir = g.ir()
        force_small_limits(wire, g, ir)
        labs.append((cs, cfg, g, ir))
        specs.append({"name": "body%d" % i, "ir": ir, "cfg": cfg, "drive": True, "driver": lab.driver_source(ir, cfg, registry=False, services=True)})
    res = lab.build_labs("body-%s" % tier, specs)
    rep = empty_report(prop)
    distinct = set()
    orig_scalar = wire.gen_scalar
    BIN = {"type": "primitive", "primitive": "BINARY"}
    for i, (cs, cfg, g, ir) in enumerate(labs):
        name = "body%d" % i
        if res.gen.get(name, {}).get("status") != "ok" or not res.compiled.get(name):
            raise Inconclusive("service lab %s did not build: %s %s" % (name, res.gen.get(name), res.errors.get(name)))
        r = random.Random(cs ^ 0xC06)
        c = wire.Ctx(g, r, cfg["exhaustive"], cfg["serialize_empty"])
        cases, info = [], {}
        for s in ir["services"]:
            sn = s["serviceName"]["name"]
            for e in s["endpoints"]:
                bodies = [a for a in e["args"] if a["paramType"]["type"] == "body"]
                if not bodies:
                    continue
                ba = bodies[0]
                bt = wire.dealias(c, ba["type"])
                if bt == BIN:
                    continue        # streaming binary bodies are not "serializable request bodies" (optional<binary> is one: Base64 in JSON)
                optional = bt["type"] == "optional"
                limit = endpoint_limit(e)
                for k in range(30 if tier == "quick" else 120):
                    vals = gen_args(wire, c, e, orig_scalar)
                    if vals is None:
                        continue
                    uri, headers = render_valid_params(wire, e, vals)
                    v = vals[ba["argName"]]
                    text, bcls, valid = body_case(wire, c, r, v, ba["type"], limit)
                    ct, ctcls, names_json = content_type_case(r, r.random() < 0.8)
                    fail_at = r.choice([0, 0, 1, 2, 3, 50]) if r.random() < 0.12 else None
                    if ct is not None:
                        headers = headers + [("content-type", ct)]
                    data = b"\xff\xfe" if text == "\xff\xfe" else text.encode("utf-8")
                    absent_optional = optional and ct is None
                    if absent_optional:
                        accept = True
                    elif not names_json or fail_at is not None or len(data) > limit:
                        accept = False
                    else:
                        accept = valid
                    for flavour in ("raw-sync", "raw-async"):
                        cid = len(cases) + 1
                        cases.append({"id": cid, "ty": "%s/%s" % (sn, flavour), "op": "raw", "http_method": e["httpMethod"], "uri": uri, "headers": headers,
                                      "body": data.decode("latin-1"), "fail_at": fail_at})
                        info[cid] = (sn, e, flavour, ba, v, bcls, ctcls, fail_at, accept, absent_optional, len(data), limit, text)
        results = lab.run_lab(res, name, cases)
        if "__crash__" in results:
            rep["violations"].append(violation("lab-bodies", cs, "lab-crashed", {"crash": results["__crash__"]}))
            continue
        for cid, (sn, e, flavour, ba, v, bcls, ctcls, fail_at, accept, absent_optional, size, limit, text) in info.items():
            out = results.get(cid) or {}
            rep["evaluations"] += 1
            nchunks = out.get("chunks", 0)
            chunk_class = str(nchunks) if nchunks < 3 else "3+"
            for cell in ("lab-body/%s" % bcls.split("/")[0], "lab-content-type/%s" % ctcls, "lab-chunks/%s/%s" % (flavour, chunk_class)) + (("lab-stream-error/%s/%s" % (flavour, chunk_class),) if fail_at is not None else ()):
                rep["matrix"][cell] = rep["matrix"].get(cell, 0) + 1
            distinct.add(fnv("%s|%s|%s|%s|%s|%s" % (flavour, bcls, ctcls, chunk_class, fail_at is not None, size > limit)))
            det = {"service": sn, "endpoint": e["endpointName"], "flavour": flavour, "body_class": bcls, "content_type_class": ctcls, "stream_error_at": fail_at, "chunks": nchunks,
                   "body": text[:400], "body_len": size, "limit": limit, "expected_accept": accept, "observed": json.dumps(out)[:700]}
            def fail(sig):
                rep["violations"].append(violation("lab-bodies", cs, "generated-endpoint:%s:%s" % (flavour, sig), det))
            result, calls = out.get("result", {}), out.get("calls", [])
            if "panic" in result:
                fail("panic:" + bcls.split("/")[0])
                continue
            if accept:
                harness_err = str(result.get("cause", "")).startswith("harness:")
                if len(calls) != 1 or not ("ok" in result or harness_err):
                    fail("rejected-valid:%s:%s" % (bcls.split("/")[0], ctcls))
                    continue
                got = dict((k, x) for k, x in calls[0]["args"]).get(ba["argName"])
                try:
                    if got is None:
                        raise wire.Mismatch("body argument not recorded")
                    if absent_optional:
                        if strict_loads(got) is not None:
                            raise wire.Mismatch("an optional body without Content-Type was delivered as %s" % got[:80])
                    else:
                        wire.check(c, v, ba["type"], strict_loads(got))
                except (wire.Mismatch, ValueError) as ex:
                    det["mismatch"] = str(ex)[:300]
                    fail("handler-saw-different-value:" + bcls.split("/")[0])
                continue
            if calls:
                why = "stream-error" if fail_at is not None else ("content-type:" + ctcls if ctcls not in ("exact", "with-parameters", "upper-case") else ("oversize" if size > limit else bcls))
                fail("accepted:" + why)
                continue
            if "err" not in result:
                fail("no-error:" + bcls.split("/")[0])
                continue
            admissible = result["err"] == "InvalidArgument" or (fail_at is not None and INJECTED in str(result.get("cause", "")))
            if not admissible:
                det["code"] = result["err"]
                fail("wrong-error:%s:%s" % (result["err"], bcls.split("/")[0]))
                continue
            if len(rep["samples"]) < 3 and bcls not in ("canonical",):
                rep["samples"].append({"sub": "lab-bodies", "case_seed": cs, "endpoint": e["endpointName"], "body_class": bcls, "content_type": ctcls, "chunks": nchunks,
                                       "stream_error_at": fail_at, "code": result["err"]})
    rep["distinct"] = sorted(distinct)
    if not replay:
        rep["floors"]["lab-body-classes"] = [9, len([k for k in rep["matrix"] if k.startswith("lab-body/")])]
        rep["floors"]["lab-content-type-classes"] = [6, len([k for k in rep["matrix"] if k.startswith("lab-content-type/")])]
    rep["violations"] = rep["violations"][:100]
    return rep


def responses_stage(prop, tier, seed, replay):
    """C18 lab half: generated clients of random services are handed canned responses (status, Content-Type, body, random
    chunking, stream error) by the transport; reference decision by construction."""
    import wire
    from gen import LabGen, Profile
    build(["genrun"])
    rr = random.Random(seed * 4001 + 18)
    n = 3 if tier == "quick" else 12
    labs, specs = [], []
    for i in range(n):
        cs = rr.getrandbits(48)
        cfg = {"exhaustive": i % 2 == 1, "serialize_empty": rr.random() < 0.5, "strip": rr.choice([None, "com.verif", "com.verif.lab"])}
        g = LabGen(cs, Profile(n_types=25, services=3, errors=0, hostile_names=True))
        ir = g.ir()
        force_return_types(g, ir)
        labs.append((cs, cfg, g, ir))
        specs.append({"name": "resp%d" % i, "ir": ir, "cfg": cfg, "drive": True, "driver": lab.driver_source(ir, cfg, registry=False, services=True)})
    res = lab.build_labs("resp-%s" % tier, specs)
    rep = empty_report(prop)
    distinct = set()
    orig_scalar = wire.gen_scalar
    BIN = {"type": "primitive", "primitive": "BINARY"}
    JSON_DOCS = ["null", "1", "\"x\"", "[]", "{}", "[1,{\"a\":null}]", "{\"a\":{\"b\":[true,false]}}", " 7 ", "-0.5e3", "\"\\u00e9\""]
    BAD_DOCS = ["", " ", "{", "[1,", "nul", "\"abc", "{\"a\":}", "1 2", "[]x", "{} {}", "\xff\xfe", "NaN", "]", "01"]
    for i, (cs, cfg, g, ir) in enumerate(labs):
        name = "resp%d" % i
        if res.gen.get(name, {}).get("status") != "ok" or not res.compiled.get(name):
            raise Inconclusive("service lab %s did not build: %s %s" % (name, res.gen.get(name), res.errors.get(name)))
        r = random.Random(cs ^ 0xC18)
        c = wire.Ctx(g, r, cfg["exhaustive"], cfg["serialize_empty"])
        cases, info = [], {}
        for s in ir["services"]:
            sn = s["serviceName"]["name"]
            for e in s["endpoints"]:
                rt_ = e.get("returns")
                if rt_ is None:
                    rclass = "unit"
                else:
                    d = wire.dealias(c, rt_)
                    if d == BIN:
                        rclass = "binary"
                    elif d["type"] == "optional" and wire.dealias(c, d["optional"]["itemType"]) == BIN:
                        rclass = "optional-binary"
                    elif d["type"] == "optional":
                        rclass = "optional"
                    elif d["type"] in ("list", "set", "map"):
                        rclass = d["type"]
                    else:
                        rclass = "value"
                binary = rclass in ("binary", "optional-binary")
                requested = "application/octet-stream" if binary else "application/json"
                for k in range(20 if tier == "quick" else 80):
                    vals = gen_args(wire, c, e, orig_scalar)
                    if vals is None:
                        continue
                    args, ok = {}, True
                    for a in e["args"]:
                        v, kind = vals[a["argName"]], a["paramType"]["type"]
                        u = wire.unalias(v)
                        if u[0] == "bin" and kind == "body":
                            args[rust_arg_name(a["argName"])] = json.dumps("hex:" + u[1].hex())
                        else:
                            args[rust_arg_name(a["argName"])] = wire.render(c, v, a["type"], wire.Style())
                    if not ok:
                        continue
                    if e.get("auth"):
                        args["auth_"] = json.dumps("tok.en")
                    # ---- the canned response
                    status = 204 if r.random() < 0.15 else 200
                    k2 = r.random()
                    if k2 < 0.7:
                        ct, ctcls = requested, "requested"
                    elif k2 < 0.78:
                        ct, ctcls = None, "absent"
                    elif k2 < 0.86:
                        ct, ctcls = ("application/json" if binary else "application/octet-stream"), "the-other-conjure-type"
                    elif k2 < 0.93:
                        ct, ctcls = r.choice(["text/plain", "application/x-jackson-smile", "application/cbor", "text/html", "garbage", ""]), "unrelated"
                    elif k2 < 0.96:
                        ct, ctcls = requested + r.choice(["; charset=utf-8", ";q=1", " "]) if r.random() < 0.7 else requested.upper(), "spelled-differently(observed-only)"
                    elif k2 < 0.985:
                        # two Content-Type header lines that contradict each other: the response's Content-Type is not "the requested one"
                        ct, ctcls = [r.choice(["text/html", "application/octet-stream" if not binary else "application/json", "text/plain"]), requested], "duplicate:other-then-requested"
                    else:
                        ct, ctcls = [requested, r.choice(["text/html", "text/plain"])], "duplicate:requested-then-other(observed-only)"
                    want, wanted = None, None      # want: None = error expected; wanted: the value (for comparison)
                    if status == 204:
                        data, bcls = b"", "empty-204"
                    elif binary:
                        data = bytes(r.getrandbits(8) for _ in range(r.choice([0, 1, 2, 7, 40, 300])))
                        bcls = "bytes"
                    elif rclass == "unit":
                        if r.random() < 0.6:
                            data, bcls, valid = r.choice(JSON_DOCS).encode(), "any-json", True
                        else:
                            t = r.choice(BAD_DOCS)
                            data, bcls, valid = (b"\xff\xfe" if t == "\xff\xfe" else t.encode()), "malformed", False
                    else:
                        try:
                            rv = wire.gen_value(c, rt_)
                        except wire.NoValue:
                            continue
                        text, bcls, valid = body_case(wire, c, r, rv, rt_, DEFAULT_LIMIT)
                        if bcls == "fault/unknown-member":
                            valid = True           # clients tolerate unknown object fields
                        if rclass in ("list", "set", "map") and r.random() < 0.1:
                            # `null` is not a document of a collection type (only a 204 stands for the empty collection)
                            text, bcls, valid = r.choice(["null", " null ", "null\n"]), "null-for-collection", False
                        data = b"\xff\xfe" if text == "\xff\xfe" else text.encode("utf-8")
                        wanted = rv
                    fail_at = r.choice([0, 0, 1, 2, 3, 50]) if r.random() < 0.12 else None
                    # ---- reference decision
                    decided = True
                    if status == 204 and rclass in ("unit", "optional", "list", "set", "map", "optional-binary"):
                        expect = "empty"
                    elif ctcls.endswith("(observed-only)"):
                        decided, expect = False, None
                    elif ctcls != "requested" or fail_at is not None:
                        expect = "error"
                    elif binary:
                        expect = "bytes"
                    elif status == 204:
                        expect = "error"           # an empty body is not a document of a type that has no empty value
                    else:
                        expect = "value" if valid else "error"
                    headers = [("content-type", x) for x in (ct if isinstance(ct, list) else [ct])] if ct is not None else []
                    if r.random() < 0.3:
                        headers.append(("x-other", "1"))
                    for flavour in ("sync", "async"):
                        cid = len(cases) + 1
                        cases.append({"id": cid, "ty": "%s/%s" % (sn, flavour), "op": "call", "method": lab.snake(e["endpointName"]), "args": args, "script": {},
                                      "canned_status": status, "headers": headers, "body": data.decode("latin-1"), "fail_at": fail_at})
                        info[cid] = (sn, e, flavour, rclass, status, ctcls, bcls, fail_at, decided, expect, wanted, data)
        results = lab.run_lab(res, name, cases)
        if "__crash__" in results:
            rep["violations"].append(violation("lab-responses", cs, "lab-crashed", {"crash": results["__crash__"]}))
            continue
        twins = {}
        for cid, (sn, e, flavour, rclass, status, ctcls, bcls, fail_at, decided, expect, wanted, data) in info.items():
            out = results.get(cid) or {}
            rep["evaluations"] += 1
            nchunks = out.get("routes_matched", 0)
            chunk_class = str(nchunks) if nchunks < 3 else "3+"
            for cell in ("lab-return/%s/%s" % (rclass, flavour), "lab-response-body/%s" % bcls.split("/")[0], "lab-response-content-type/%s" % ctcls, "lab-response-chunks/%s/%s" % (flavour, chunk_class)) + \
                    (("lab-response-stream-error/%s/%s" % (flavour, chunk_class),) if fail_at is not None else ()):
                rep["matrix"][cell] = rep["matrix"].get(cell, 0) + 1
            distinct.add(fnv("%s|%s|%s|%s|%s|%s|%s" % (flavour, rclass, status, ctcls, bcls, chunk_class, fail_at is not None)))
            det = {"service": sn, "endpoint": e["endpointName"], "flavour": flavour, "return_class": rclass, "status": status, "content_type_class": ctcls, "body_class": bcls,
                   "body": data[:300].decode("latin-1"), "stream_error_at": fail_at, "chunks": nchunks, "expected": expect, "observed": json.dumps(out)[:600]}
            def fail(sig):
                rep["violations"].append(violation("lab-responses", cs, "generated-client:%s:%s" % (flavour, sig), det))
            result = out.get("result", {})
            if "panic" in result or "harness_error" in out:
                fail("panic:" + rclass)
                continue
            if str(result.get("cause", "")).startswith("harness:") or str(result.get("cause", "")).startswith(("verif:", "verif-transport")):
                raise Inconclusive("harness error in the responses lab: %s" % json.dumps(out)[:400])
            got_ok = "ok" in result
            twins.setdefault(cid - (1 if flavour == "async" else 0), []).append(("ok:" + result["ok"]) if got_ok else "err")
            if not decided:
                rep["observed_only"]["content-type-spelling"] = rep["observed_only"].get("content-type-spelling", 0) + 1
                continue
            if expect == "error":
                if got_ok:
                    why = "content-type:" + ctcls if ctcls != "requested" else ("stream-error" if fail_at is not None else ("204-for-non-empty-type" if status == 204 else bcls))
                    fail("value-from-bad-response:%s:%s" % (rclass, why))
                continue
            if not got_ok:
                fail("rejected-valid-response:%s:%s" % (rclass, bcls.split("/")[0]))
                continue
            txt = result["ok"]
            try:
                if expect == "empty":
                    if rclass == "optional-binary":
                        if txt != "<absent>":
                            raise wire.Mismatch("204 did not yield the absent optional: " + txt[:60])
                    else:
                        emp = strict_loads(txt)
                        want_emp = {"unit": None, "optional": None, "list": [], "set": [], "map": {}}[rclass]
                        if emp != want_emp:
                            raise wire.Mismatch("204 yielded %s" % txt[:80])
                elif expect == "bytes":
                    if txt != "hex:" + data.hex():
                        raise wire.Mismatch("bytes differ: %s" % txt[:80])
                elif rclass == "unit":
                    if txt != "null":
                        raise wire.Mismatch("unit rendered as " + txt[:40])
                else:
                    wire.check(c, wanted, e["returns"], strict_loads(txt))
            except (wire.Mismatch, ValueError) as ex:
                det["mismatch"] = str(ex)[:300]
                fail("wrong-value:%s:%s" % (rclass, bcls.split("/")[0]))
                continue
            if len(rep["samples"]) < 3 and bcls not in ("canonical", "bytes"):
                rep["samples"].append({"sub": "lab-responses", "case_seed": cs, "endpoint": e["endpointName"], "return_class": rclass, "status": status, "body_class": bcls, "content_type": ctcls,
                                       "chunks": nchunks, "stream_error_at": fail_at, "returned": txt[:120]})
        # the duplicated blocking / async decoding paths must agree (same response bytes; the chunkings differ)
        for cid, pair in twins.items():
            if len(pair) == 2 and pair[0] != pair[1] and not (pair[0].startswith("ok:") and pair[1].startswith("ok:")):
                sn, e = info[cid][0], info[cid][1]
                rep["violations"].append(violation("lab-responses", cs, "generated-client:twins-disagree:%s" % info[cid][3],
                                                   {"service": sn, "endpoint": e["endpointName"], "blocking": pair[0][:200], "async": pair[1][:200], "body_class": info[cid][6], "content_type_class": info[cid][5]}))
    rep["distinct"] = sorted(distinct)
    if not replay:
        rep["floors"]["lab-return-classes"] = [8, len([k for k in rep["matrix"] if k.startswith("lab-return/")])]
        rep["floors"]["lab-response-body-classes"] = [8, len([k for k in rep["matrix"] if k.startswith("lab-response-body/")])]
    rep["violations"] = rep["violations"][:100]
    return rep

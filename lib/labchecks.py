"""Lab-based stages: C03 (generation succeeds and compiles), C02/C10 (wire format of generated
types), lab halves of C12/C14."""
import json, os, random, re, sys

from vcheck import VERIF, Inconclusive, build, empty_report, log
from bedb import fnv, violation
import lab

sys.path.insert(0, os.path.join(VERIF, "irgen"))


def lab_configs(n, rr):
    base = [
        {"exhaustive": False, "serialize_empty": False, "strip": "com.verif"},
        {"exhaustive": True, "serialize_empty": True, "strip": "com.verif.lab"},
        {"exhaustive": False, "serialize_empty": True, "strip": None},
        {"exhaustive": True, "serialize_empty": False, "strip": "com"},
    ]
    out = []
    for i in range(n):
        out.append(dict(base[i % len(base)]) if i < len(base) else {"exhaustive": rr.random() < 0.5, "serialize_empty": rr.random() < 0.5,
                                                                   "strip": rr.choice([None, "com", "com.verif", "com.verif.lab"])})
    return out


# ---- pinned witnesses of the known C03 findings (DESIGN.md section 6): micro definitions
def pinned_c03():
    from ir import prim, opt, lst, set_, map_, ref, field, obj, alias, enum, union, arg, endpoint, service, definition
    P = "com.verif.pin"
    S = prim("STRING")
    return [
        ("C03-set-double-query", definition([], [service("PinService", P, [endpoint("q", "GET", "/pin/q", [arg("vals", set_(prim("DOUBLE")), "query", "vals")])])])),
        ("C03-union-named-unknown", definition([union("Unknown", P, [field("a", S)])])),
        ("C03-field-named-build", definition([obj("Holder", P, [field("build", S), field("other", S)])])),
        ("C03-type-named-like-client", definition([obj("PinServiceClient", P, [field("a", S)])], [service("PinService", P, [endpoint("e", "GET", "/pin/e")])])),
        ("C03-enum-values-collide", definition([enum("Clash", P, ["FOO_1", "FOO1"])])),
        ("C03-type-vs-subpackage-module", definition([obj("Foo", P, [field("a", S)]), obj("Inner", P + ".foo", [field("b", S)])])),
    ]


def c03_stage(prop, tier, seed, replay):
    from gen import LabGen, Profile
    build(["genrun"])
    rr = random.Random(seed * 31337 + 3)
    n = 4 if tier == "quick" else 32
    if replay:
        with open(replay) as f:
            doc = json.load(f)
        cases = [(doc["case_seed"], doc["detail"]["config"])]
    else:
        cfgs = lab_configs(n, rr)
        cases = [(rr.getrandbits(48), cfgs[i]) for i in range(n)]
    rep = empty_report(prop)
    specs, meta = [], {}
    for i, (cs, cfg) in enumerate(cases):
        r = random.Random(cs)
        g = LabGen(cs, Profile(n_types=r.choice([25, 40, 55]), services=r.choice([2, 3, 4]), errors=r.choice([2, 4]), hostile_names=True,
                               packages=["com.verif.lab", "com.verif.lab.sub", "com.verif.lab.sub.deep", "com.verif.other", "org.example", "com.verif.lab.type", "com.verif.async.mod"]))
        ir = g.ir()
        name = "lab%d" % i
        specs.append({"name": name, "ir": ir, "cfg": cfg, "driver": lab.driver_source(ir, cfg, registry=False)})
        meta[name] = (cs, cfg, ir)
    pins = pinned_c03() if not replay else []
    for pid, ir in pins:
        name = "pin_" + pid.lower().replace("-", "_")
        cfg = {"exhaustive": False, "serialize_empty": False, "strip": "com.verif"}
        specs.append({"name": name, "ir": ir, "cfg": cfg, "driver": lab.driver_source(ir, cfg, registry=False)})
        meta[name] = (pid, cfg, ir)
    res = lab.build_labs("c03-%s" % tier, specs)
    distinct = set()
    for name, (cs, cfg, ir) in meta.items():
        pinned = name.startswith("pin_")
        status = res.gen.get(name, {})
        kinds = [t["type"] for t in ir["types"]]
        shape = "types=%d|svc=%d|err=%d|ex=%s|se=%s|strip=%s" % (len(kinds) // 10 * 10, len(ir["services"]), len(ir["errors"]), cfg["exhaustive"], cfg["serialize_empty"], cfg["strip"])
        if not pinned:
            rep["evaluations"] += 2
            distinct.add(fnv(shape))
            for k in set(kinds):
                distinct.add(fnv("kind:" + k + "|" + str(cfg["exhaustive"])))
            for s in ir["services"]:
                for e in s["endpoints"]:
                    for a in e["args"]:
                        distinct.add(fnv("arg:%s:%s" % (a["paramType"]["type"], a["type"]["type"])))
            cell = "labs/%s" % ("compiled" if res.compiled.get(name) else "failed")
            rep["matrix"][cell] = rep["matrix"].get(cell, 0) + 1
            rep["matrix"]["items/types"] = rep["matrix"].get("items/types", 0) + len(ir["types"])
            rep["matrix"]["items/endpoints"] = rep["matrix"].get("items/endpoints", 0) + sum(len(s["endpoints"]) for s in ir["services"])
        if status.get("status") != "ok":
            sig = "generation-%s" % status.get("status", "failed")
            if pinned:
                rep["pinned"][cs] = sig
            else:
                rep["violations"].append(violation("labs", cs, sig, {"config": cfg, "message": str(status.get("message", ""))[:600]}))
            continue
        if not res.compiled.get(name):
            errs = res.errors.get(name, [])
            code = "E????"
            for e in errs:
                m = re.search(r"error\[(E\d+)\]", e)
                if m:
                    code = m.group(1)
                    break
            if pinned:
                rep["pinned"][cs] = "compile-error:" + code
            else:
                rep["violations"].append(violation("labs", cs, "compile-error:" + code, {"config": cfg, "rustc": errs[:3], "lab_dir": os.path.join(res.dir, name)}))
            continue
        if len(rep["samples"]) < 3 and not pinned:
            rep["samples"].append({"sub": "labs", "case_seed": cs, "config": cfg, "types": len(ir["types"]), "services": len(ir["services"]),
                                   "first_types": [t[t["type"]]["typeName"]["name"] for t in ir["types"][:8]]})
    rep["distinct"] = sorted(distinct)
    if not replay:
        rep["floors"]["labs-built"] = [n, sum(1 for k in meta if not k.startswith("pin_"))]
    rep["notes"].append("every declared type, error, client, server trait and Endpoints type is named by full module path in the lab driver, so a missing re-export is a compile error")
    return rep

#!/bin/bash
# confirm_mutant.sh <worktree> <mN> <crate-for-demo>
# Confirms, in the scratch worktree: patch applies, workspace compiles, the 112 baseline tests pass
# with the patch, the demo fails with the patch and passes without it. Leaves the worktree clean.
set -u
wt=$1; m=$2; crate=$3
cd "$wt" || exit 2
export CARGO_NET_OFFLINE=true RUST_BACKTRACE=0
git checkout -q -- . ; rm -rf "$crate/tests"
git apply "demo/$m.diff" || { echo "RESULT $m patch-does-not-apply"; exit 1; }
suite=$(cargo test --workspace --lib --tests --offline 2>&1 | grep -E "^test result" | awk '{p+=$4; f+=$6} END {print p" passed "f" failed"}')
mkdir -p "$crate/tests"; cp "demo/${m}_demo.rs" "$crate/tests/"
with=$(cargo test -p "$crate" --test "${m}_demo" --offline 2>&1 | grep -E "^test result" | tail -1)
git apply -R "demo/$m.diff"
without=$(cargo test -p "$crate" --test "${m}_demo" --offline 2>&1 | grep -E "^test result" | tail -1)
rm -rf "$crate/tests"; git checkout -q -- .
echo "RESULT $m suite-with-patch: $suite | demo-with-patch: $with | demo-without: $without"

"""Bed B stages: random Conjure IR -> real generator -> observation. Stages return report dicts
in the same shape as `rt` (see vcheck.empty_report)."""
import hashlib, json, os, shutil, subprocess, sys, time, zlib
from concurrent.futures import ProcessPoolExecutor

from vcheck import VERIF, WORK, TARGET, ENV, Inconclusive, build, empty_report, merge, log

sys.path.insert(0, os.path.join(VERIF, "irgen"))
GENRUN = os.path.join(TARGET, "debug", "genrun")
NPROC = max(2, min(16, os.cpu_count() or 4))


def fnv(s):
    h = 0xcbf29ce484222325
    for b in s.encode():
        h ^= b
        h = (h * 0x100000001b3) & 0xFFFFFFFFFFFFFFFF
    return h


def scratch(name):
    d = os.path.join(WORK, "scratch", name)
    shutil.rmtree(d, ignore_errors=True)
    os.makedirs(d)
    return d


def violation(sub, case_seed, sig, detail):
    return {"sig": sig, "sub": sub, "case_seed": case_seed, "detail": detail}


# ------------------------------------------------------------------------------------------------
# C08

N_PERM = 6


def c08_profile(seed):
    import random
    from gen import Profile
    r = random.Random(seed ^ 0x5eed)
    return Profile(n_types=r.choice([4, 6, 8, 10, 14]), cycles=r.choice([0.4, 0.6, 0.8]), safety=r.choice([0.2, 0.4, 0.6]),
                   services=2, errors=0, hostile_names=False, any_binary=True, externals=True, body_bias=True,
                   packages=["com.verif.lab", "com.verif.lab.sub"])


def c08_case_ir(case_seed, perm):
    """Even case seeds: small graphs aimed at recursion (irgen/c08gen.py); odd: the general generator."""
    shuffle = None if perm == 0 else case_seed * 31 + perm
    if case_seed % 4 != 3:
        import c08gen
        return c08gen.build(case_seed, shuffle)
    from gen import LabGen
    g = LabGen(case_seed, c08_profile(case_seed))
    return g.ir(shuffle)


def c08_shard(args):
    shard, seeds, replay = args
    from safety import SafetyModel
    rep = empty_report("C08")
    d = scratch("c08-%d" % shard)
    listing = []
    for cs in seeds:
        for k in range(N_PERM):
            p = os.path.join(d, "%d-%d.json" % (cs, k))
            with open(p, "w") as f:
                json.dump(c08_case_ir(cs, k), f)
            listing.append(p)
    lf = os.path.join(d, "list.txt")
    with open(lf, "w") as f:
        f.write("\n".join(listing) + "\n")
    r = subprocess.run([GENRUN, "safe-batch", lf, d], stdout=subprocess.PIPE, stderr=subprocess.PIPE, text=True, env=ENV)
    if r.returncode != 0:
        raise Inconclusive("genrun safe-batch failed: %s" % r.stderr[-500:])
    results = {}
    for line in r.stdout.splitlines():
        o = json.loads(line)
        results[os.path.basename(o["ir"])] = o
    distinct = set()
    for cs in seeds:
        base_ir = c08_case_ir(cs, 0)
        model = SafetyModel(base_ir)
        expected, classes = {}, {}
        for s in base_ir["services"]:
            sn = s["serviceName"]["name"]
            for e in s["endpoints"]:
                for a in e["args"]:
                    for trait in (sn, "Async" + sn):
                        key = "%s|%s|%s" % (trait, e["endpointName"], a["argName"])
                        expected[key] = model.arg_safe(a)
                        how = "explicit" if a.get("safety") else ("legacy" if (a.get("tags") or a.get("markers")) else "type")
                        classes[key] = (how, model.reaches_cycle(a["type"]), a["paramType"]["type"])
        first = None
        for k in range(N_PERM):
            o = results.get("%d-%d.json" % (cs, k))
            rep["evaluations"] += 1
            if o is None or o["status"] != "ok":
                rep["violations"].append(violation("graphs", cs, "generation-failed", {"perm": k, "result": o}))
                continue
            got = o["safe"]
            if set(got) != set(expected):
                rep["violations"].append(violation("graphs", cs, "argument-set-differs", {"perm": k, "missing": sorted(set(expected) - set(got))[:5], "extra": sorted(set(got) - set(expected))[:5]}))
                continue
            for key, want in expected.items():
                how, cyc, kind = classes[key]
                cell = "decided-by/%s/%s/%s" % (how, "cyclic" if cyc else "acyclic", "safe" if want else "not-safe")
                rep["matrix"][cell] = rep["matrix"].get(cell, 0) + 1
                distinct.add(fnv("%s|%s|%s|%s|%d" % (how, cyc, kind, want, len(base_ir["types"]))))
                if got[key] != want:
                    sig = "model-mismatch:codegen-says-%s:model-says-%s:%s:%s" % ("safe" if got[key] else "not-safe", "safe" if want else "not-safe", how, "cyclic" if cyc else "acyclic")
                    rep["violations"].append(violation("graphs", cs, sig, {"perm": k, "argument": key, "ir_seed": cs}))
            if first is None:
                first = got
            elif got != first:
                diff = sorted(k2 for k2 in got if got[k2] != first.get(k2))
                rep["violations"].append(violation("graphs", cs, "order-dependent", {"perm": k, "arguments": diff[:6], "ir_seed": cs}))
        if len(rep["samples"]) < 2:
            rep["samples"].append({"sub": "graphs", "case_seed": cs, "types": len(base_ir["types"]), "expected_safe": sorted(k for k, v in expected.items() if v)[:6]})
    rep["distinct"] = sorted(distinct)
    shutil.rmtree(d, ignore_errors=True)
    return rep


def c08_stage(prop, tier, seed, replay):
    build(["genrun"])
    import random
    if replay:
        with open(replay) as f:
            doc = json.load(f)
        seeds = [doc["case_seed"]]
        n = 1
    else:
        n = 600 if tier == "quick" else 30000
        rr = random.Random(seed * 7919 + 8)
        seeds = [rr.getrandbits(48) for _ in range(n)]
    shards = [(i, seeds[i::NPROC], replay) for i in range(NPROC) if seeds[i::NPROC]]
    rep = empty_report(prop)
    with ProcessPoolExecutor(max_workers=NPROC) as ex:
        for part in ex.map(c08_shard, shards):
            merge(rep, part)
    if not replay:
        cells = [k for k in rep["matrix"] if k.startswith("decided-by/")]
        rep["floors"]["decision-classes"] = [8, len(cells)]
        cyc = sum(v for k, v in rep["matrix"].items() if "/cyclic/" in k)
        rep["floors"]["arguments-reaching-cycles"] = [50, cyc]
    rep["notes"].append("each IR is generated %d times with types, services, endpoints and arguments permuted; distinct = (decision source, cyclic?, parameter kind, expected, graph size)" % N_PERM)
    # keep the report bounded
    rep["violations"] = rep["violations"][:200]
    return rep

"""Bed B stages: random Conjure IR -> real generator -> observation. Stages return report dicts
in the same shape as `rt` (see vcheck.empty_report)."""
import hashlib, json, os, shutil, subprocess, sys, time, zlib
from concurrent.futures import ProcessPoolExecutor

from vcheck import VERIF, WORK, TARGET, ENV, Inconclusive, build, empty_report, merge, log

sys.path.insert(0, os.path.join(VERIF, "irgen"))
GENRUN = os.path.join(TARGET, "debug", "genrun")
NPROC = max(2, min(16, os.cpu_count() or 4))


def fnv(s):
    h = 0xcbf29ce484222325
    for b in s.encode():
        h ^= b
        h = (h * 0x100000001b3) & 0xFFFFFFFFFFFFFFFF
    return h


def scratch(name):
    d = os.path.join(WORK, "scratch", name)
    shutil.rmtree(d, ignore_errors=True)
    os.makedirs(d)
    return d


def violation(sub, case_seed, sig, detail):
    return {"sig": sig, "sub": sub, "case_seed": case_seed, "detail": detail}


# ------------------------------------------------------------------------------------------------
# C08

N_PERM = 6


def c08_profile(seed):
    import random
    from gen import Profile
    r = random.Random(seed ^ 0x5eed)
    return Profile(n_types=r.choice([4, 6, 8, 10, 14]), cycles=r.choice([0.4, 0.6, 0.8]), safety=r.choice([0.2, 0.4, 0.6]),
                   services=2, errors=0, hostile_names=False, any_binary=True, externals=True, body_bias=True,
                   packages=["com.verif.lab", "com.verif.lab.sub"])


def c08_case_ir(case_seed, perm):
    """Even case seeds: small graphs aimed at recursion (irgen/c08gen.py); odd: the general generator."""
    shuffle = None if perm == 0 else case_seed * 31 + perm
    if case_seed % 4 != 3:
        import c08gen
        return c08gen.build(case_seed, shuffle)
    from gen import LabGen
    g = LabGen(case_seed, c08_profile(case_seed))
    return g.ir(shuffle)


def c08_shard(args):
    shard, seeds, replay = args
    from safety import SafetyModel
    rep = empty_report("C08")
    d = scratch("c08-%d" % shard)
    listing = []
    for cs in seeds:
        for k in range(N_PERM):
            p = os.path.join(d, "%d-%d.json" % (cs, k))
            with open(p, "w") as f:
                json.dump(c08_case_ir(cs, k), f)
            listing.append(p)
    lf = os.path.join(d, "list.txt")
    with open(lf, "w") as f:
        f.write("\n".join(listing) + "\n")
    r = subprocess.run([GENRUN, "safe-batch", lf, d], stdout=subprocess.PIPE, stderr=subprocess.PIPE, text=True, env=ENV)
    if r.returncode != 0:
        raise Inconclusive("genrun safe-batch failed: %s" % r.stderr[-500:])
    results = {}
    for line in r.stdout.splitlines():
        o = json.loads(line)
        results[os.path.basename(o["ir"])] = o
    distinct = set()
    for cs in seeds:
        base_ir = c08_case_ir(cs, 0)
        model = SafetyModel(base_ir)
        expected, classes = {}, {}
        for s in base_ir["services"]:
            sn = s["serviceName"]["name"]
            for e in s["endpoints"]:
                for a in e["args"]:
                    for trait in (sn, "Async" + sn):
                        key = "%s|%s|%s" % (trait, e["endpointName"], a["argName"])
                        expected[key] = model.arg_safe(a)
                        how = "explicit" if a.get("safety") else ("legacy" if (a.get("tags") or a.get("markers")) else "type")
                        classes[key] = (how, model.reaches_cycle(a["type"]), a["paramType"]["type"])
        first = None
        for k in range(N_PERM):
            o = results.get("%d-%d.json" % (cs, k))
            rep["evaluations"] += 1
            if o is None or o["status"] != "ok":
                rep["violations"].append(violation("graphs", cs, "generation-failed", {"perm": k, "result": o}))
                continue
            got = o["safe"]
            if set(got) != set(expected):
                rep["violations"].append(violation("graphs", cs, "argument-set-differs", {"perm": k, "missing": sorted(set(expected) - set(got))[:5], "extra": sorted(set(got) - set(expected))[:5]}))
                continue
            for key, want in expected.items():
                how, cyc, kind = classes[key]
                cell = "decided-by/%s/%s/%s" % (how, "cyclic" if cyc else "acyclic", "safe" if want else "not-safe")
                rep["matrix"][cell] = rep["matrix"].get(cell, 0) + 1
                distinct.add(fnv("%s|%s|%s|%s|%d" % (how, cyc, kind, want, len(base_ir["types"]))))
                if got[key] != want:
                    sig = "model-mismatch:codegen-says-%s:model-says-%s:%s:%s" % ("safe" if got[key] else "not-safe", "safe" if want else "not-safe", how, "cyclic" if cyc else "acyclic")
                    rep["violations"].append(violation("graphs", cs, sig, {"perm": k, "argument": key, "ir_seed": cs}))
            if first is None:
                first = got
            elif got != first:
                diff = sorted(k2 for k2 in got if got[k2] != first.get(k2))
                rep["violations"].append(violation("graphs", cs, "order-dependent", {"perm": k, "arguments": diff[:6], "ir_seed": cs}))
        if len(rep["samples"]) < 2:
            rep["samples"].append({"sub": "graphs", "case_seed": cs, "types": len(base_ir["types"]), "expected_safe": sorted(k for k, v in expected.items() if v)[:6]})
    rep["distinct"] = sorted(distinct)
    shutil.rmtree(d, ignore_errors=True)
    return rep


def c08_stage(prop, tier, seed, replay):
    build(["genrun"])
    import random
    if replay:
        with open(replay) as f:
            doc = json.load(f)
        seeds = [doc["case_seed"]]
        n = 1
    else:
        n = 600 if tier == "quick" else 30000
        rr = random.Random(seed * 7919 + 8)
        seeds = [rr.getrandbits(48) for _ in range(n)]
    shards = [(i, seeds[i::NPROC], replay) for i in range(NPROC) if seeds[i::NPROC]]
    rep = empty_report(prop)
    with ProcessPoolExecutor(max_workers=NPROC) as ex:
        for part in ex.map(c08_shard, shards):
            merge(rep, part)
    if not replay:
        cells = [k for k in rep["matrix"] if k.startswith("decided-by/")]
        rep["floors"]["decision-classes"] = [8, len(cells)]
        cyc = sum(v for k, v in rep["matrix"].items() if "/cyclic/" in k)
        rep["floors"]["arguments-reaching-cycles"] = [50, cyc]
    rep["notes"].append("each IR is generated %d times with types, services, endpoints and arguments permuted; distinct = (decision source, cyclic?, parameter kind, expected, graph size)" % N_PERM)
    # keep the report bounded
    rep["violations"] = rep["violations"][:200]
    return rep


# ------------------------------------------------------------------------------------------------
# C20

CLI = os.path.join(WORK, "target-cli", "debug", "conjure-rust")
REPO_IRS = ["/repo/conjure-test/test-ir.json", "/repo/conjure-error/error-types.conjure.json", "/repo/conjure-codegen/example-types-ir.json",
            "/repo/conjure-codegen/conjure-api-4.32.0.conjure.json"]


def build_cli():
    env = dict(ENV)
    env["CARGO_TARGET_DIR"] = os.path.join(WORK, "target-cli")
    t = time.time()
    r = subprocess.run(["cargo", "build", "--offline", "--quiet", "-p", "conjure-rust"], cwd="/repo", env=env, stdout=subprocess.PIPE, stderr=subprocess.STDOUT, text=True)
    if r.returncode != 0:
        raise Inconclusive("conjure-rust CLI does not build: " + r.stdout[-1500:])
    log("[build] conjure-rust CLI ok in %.1fs" % (time.time() - t))


def tree_digest(d):
    out = {}
    for root, dirs, files in os.walk(d):
        dirs.sort()
        for fn in sorted(files):
            p = os.path.join(root, fn)
            with open(p, "rb") as f:
                out[os.path.relpath(p, d)] = hashlib.sha256(f.read()).hexdigest()
    return out


def c20_configs(r):
    cfg = {"exhaustive": r.random() < 0.4, "serialize_empty": r.random() < 0.4,
           "strip": r.choice([None, "com.verif", "com.verif.lab", "com", "com.verif.", "com.", "org", "com.verif.lab.sub.deep.er"]), "crate": None}
    if r.random() < 0.35:
        cfg["crate"] = (r.choice(["my-product", "lab_api", "x"]), r.choice(["1.2.3", "0.0.1-rc1"]), r.choice([None, "9.9.9"]))
    return cfg


def lib_flags(cfg):
    f = []
    if cfg["exhaustive"]:
        f.append("--exhaustive")
    if cfg["serialize_empty"]:
        f.append("--serialize-empty")
    if cfg["strip"]:
        f += ["--strip-prefix", cfg["strip"]]
    if cfg["crate"]:
        name, pv, cv = cfg["crate"]
        f += ["--crate", name, cv or pv, "--version", pv]
    return f


def cli_flags(cfg, r):
    f = []
    if cfg["exhaustive"]:
        f.append(r.choice(["--exhaustive", "--exhaustive=true"]))
    elif r.random() < 0.3:
        f.append("--exhaustive=false")
    if cfg["serialize_empty"]:
        f.append(r.choice(["--serializeEmptyCollections", "--serializeEmptyCollections=true"]))
    if cfg["strip"]:
        f += ["--stripPrefix", cfg["strip"]]
    if cfg["crate"]:
        name, pv, cv = cfg["crate"]
        f += ["--productName", name, "--productVersion", pv]
        if cv:
            f += ["--crateVersion", cv]
    return f


WRITE_CALLS = ("mkdir", "mkdirat", "rename", "renameat", "renameat2", "unlink", "unlinkat", "rmdir", "symlink", "symlinkat", "link", "linkat", "creat", "truncate", "chmod", "fchmodat", "mknod", "mknodat")


def strace_escapes(trace_text, cwd, outdir):
    """Paths created / written / renamed / removed outside `outdir` according to an strace -f log."""
    import re
    bad = []
    for line in trace_text.splitlines():
        m = re.match(r"^(?:\[pid\s+\d+\]\s+|\d+\s+)?(\w+)\((.*)$", line)
        if not m:
            continue
        call, rest = m.group(1), m.group(2)
        if " = -1 " in line:
            continue
        paths = re.findall(r'"((?:[^"\\]|\\.)*)"', rest)
        writes = False
        if call in ("open", "openat"):
            writes = any(fl in rest for fl in ("O_WRONLY", "O_RDWR", "O_CREAT", "O_TRUNC", "O_APPEND"))
        elif call in WRITE_CALLS:
            writes = True
        if not writes:
            continue
        for p in paths:
            ap = os.path.normpath(p if os.path.isabs(p) else os.path.join(cwd, p))
            if ap == "/dev/null" or ap.startswith("/dev/tty") or ap.startswith("/proc/self/"):
                continue
            if not (ap == outdir or ap.startswith(outdir + os.sep)):
                bad.append((call, ap))
    return bad


def c20_shard(args):
    shard, cases = args
    import random
    from gen import LabGen, Profile
    rep = empty_report("C20")
    base = scratch("c20-%d" % shard)
    distinct = set()
    for idx, (case_seed, ir_path) in enumerate(cases):
        r = random.Random(case_seed)
        if ir_path is None:
            g = LabGen(case_seed, Profile(n_types=r.choice([3, 8, 20, 40]), services=r.choice([0, 1, 3]), errors=r.choice([0, 2])))
            ir_path = os.path.join(base, "ir-%d.json" % idx)
            with open(ir_path, "w") as f:
                json.dump(g.ir(), f)
            origin = "random"
        else:
            origin = os.path.basename(ir_path)
        cfg = c20_configs(r)
        digests, errors = [], []
        for run in range(4):
            cwd = os.path.join(base, "cwd-%d-%d-%s" % (idx, run, "x" * run))
            os.makedirs(cwd, exist_ok=True)
            # every run gets a parent directory of its own that holds nothing else: whatever appears in it
            # beside the output directory was created outside the requested output directory
            par = os.path.join(base, "par-%d-%d" % (idx, run))
            out = os.path.join(par, r.choice(["out", "o", "deeply/nested/out dir"]))
            os.makedirs(os.path.dirname(out), exist_ok=True)   # only the output directory itself is the generator's to create
            before = set()
            for root, dirs, files in os.walk(par):
                before.update(os.path.join(root, x) for x in dirs + files)
            env = dict(ENV)
            env.update({"TMPDIR": cwd, "HOME": cwd, "LANG": r.choice(["C", "en_US.UTF-8", "tr_TR.UTF-8"]), "TZ": r.choice(["UTC", "Asia/Tokyo", "America/New_York"]),
                        "RUST_BACKTRACE": r.choice(["0", "1"])})
            do_strace = run == 3 and (idx % 5 == 0)
            if run < 2:
                cmd = [GENRUN, "gen", ir_path, out] + lib_flags(cfg)
            else:
                cmd = [CLI, "generate"] + cli_flags(cfg, r) + [ir_path, out]
            trace = os.path.join(cwd, "trace.txt")
            if do_strace:
                cmd = ["strace", "-f", "-qq", "-e", "trace=%file", "-o", trace] + cmd
            pr = subprocess.run(cmd, cwd=cwd, env=env, stdout=subprocess.PIPE, stderr=subprocess.PIPE, text=True)
            ok = pr.returncode == 0 and (run >= 2 or '"ok"' in pr.stdout)
            rep["evaluations"] += 1
            if not ok:
                errors.append((run, (pr.stdout + pr.stderr)[-300:]))
                digests.append(None)
                continue
            digests.append(tree_digest(out))
            if do_strace:
                with open(trace) as f:
                    esc = strace_escapes(f.read(), cwd, os.path.normpath(out))
                rep["matrix"]["containment/strace-runs"] = rep["matrix"].get("containment/strace-runs", 0) + 1
                if esc:
                    rep["violations"].append(violation("determinism", case_seed, "writes-outside-output-directory", {"origin": origin, "paths": esc[:5], "config": cfg}))
            outn = os.path.normpath(out)
            strays = []
            for root, dirs, files in os.walk(par):
                for x in dirs + files:
                    q = os.path.join(root, x)
                    if q not in before and not (q == outn or q.startswith(outn + os.sep)):
                        strays.append(os.path.relpath(q, par))
            rep["matrix"]["containment/listed-parents"] = rep["matrix"].get("containment/listed-parents", 0) + 1
            if strays:
                rep["violations"].append(violation("determinism", case_seed, "writes-outside-output-directory", {"origin": origin, "paths": sorted(strays)[:5], "config": cfg, "seen_by": "listing of the run's private parent directory"}))
            # nothing but the output directory may appear in the scratch cwd either
            extra = [e for e in os.listdir(cwd) if e != "trace.txt"]
            if extra:
                rep["violations"].append(violation("determinism", case_seed, "files-created-in-cwd-or-tmp", {"origin": origin, "entries": extra[:5]}))
            shutil.rmtree(par, ignore_errors=True)
        sig = "%s|ex=%s|se=%s|strip=%s|crate=%s" % (origin if origin != "random" else "random", cfg["exhaustive"], cfg["serialize_empty"], cfg["strip"], bool(cfg["crate"]))
        distinct.add(fnv(sig))
        rep["matrix"]["config/" + sig.split("|", 1)[1]] = rep["matrix"].get("config/" + sig.split("|", 1)[1], 0) + 1
        if errors:
            rep["violations"].append(violation("determinism", case_seed, "generation-failed", {"origin": origin, "config": cfg, "errors": errors[:2]}))
            continue
        a = digests[0]
        names = ["library#1", "library#2", "cli#1", "cli#2"]
        for k in range(1, 4):
            b = digests[k]
            if a != b:
                diff = sorted(set(a) ^ set(b))[:4] + [f for f in a if f in b and a[f] != b[f]][:4]
                kind = "library-vs-cli" if k >= 2 and digests[1] == a else "run-to-run"
                rep["violations"].append(violation("determinism", case_seed, "trees-differ:" + kind, {"origin": origin, "config": cfg, "between": [names[0], names[k]], "files": diff}))
                break
        if len(rep["samples"]) < 2:
            rep["samples"].append({"sub": "determinism", "case_seed": case_seed, "origin": origin, "config": cfg, "files": len(a), "digest_of_first_file": sorted(a.items())[0] if a else None})
    rep["distinct"] = sorted(distinct)
    shutil.rmtree(base, ignore_errors=True)
    return rep


def c20_stage(prop, tier, seed, replay):
    build(["genrun"])
    build_cli()
    import random
    rr = random.Random(seed * 104729 + 20)
    if replay:
        with open(replay) as f:
            doc = json.load(f)
        cases = [(doc["case_seed"], doc["detail"].get("origin_path"))]
    else:
        n = 160 if tier == "quick" else 6000
        cases = [(rr.getrandbits(48), None) for _ in range(n)]
        # the IR files shipped in the repository, under several configurations each
        for p in REPO_IRS:
            if os.path.exists(p):
                for k in range(3 if tier == "quick" else 12):
                    cases.append((rr.getrandbits(48), p))
    shards = [(i, cases[i::NPROC]) for i in range(NPROC) if cases[i::NPROC]]
    rep = empty_report(prop)
    with ProcessPoolExecutor(max_workers=NPROC) as ex:
        for part in ex.map(c20_shard, shards):
            merge(rep, part)
    if not replay:
        rep["floors"]["configurations"] = [8, len([k for k in rep["matrix"] if k.startswith("config/")])]
        rep["floors"]["strace-runs"] = [10, rep["matrix"].get("containment/strace-runs", 0)]
    rep["notes"].append("each definition x configuration is generated 4 times in separate processes (2x library entry via genrun, 2x conjure-rust CLI) into fresh "
                        "directories with different cwd/TMPDIR/HOME/LANG/TZ; file lists and SHA-256 of every file compared; every run's private parent directory and cwd are listed afterwards (nothing but the output directory may appear); every 5th CLI run under strace -f -e trace=%file")
    rep["violations"] = rep["violations"][:100]
    return rep

"""Reference model of the Conjure log-safety rules, written from the statement of property C08:
an argument is safe iff it is explicitly declared SAFE, or (no explicit declaration) carries the
legacy marker/tag, or (neither) its type is safe, where type safety is the GREATEST fixpoint of:
enum -> safe; optional/list/set -> item; map -> key and value; alias -> declared==SAFE, or target if
undeclared; object -> every field (declared==SAFE, or its type if undeclared); primitives, any,
bearertoken, external, union -> not safe."""


def _is_safe_marker(m):
    return m.get("type") == "external" and m["external"]["externalReference"] == {"name": "Safe", "package": "com.palantir.logsafe"}


class SafetyModel:
    def __init__(self, ir):
        self.defs = {}
        for t in ir["types"]:
            d = t[t["type"]]
            self.defs[(d["typeName"]["package"], d["typeName"]["name"])] = (t["type"], d)

    def type_safe(self, t, visiting=None):
        visiting = visiting if visiting is not None else set()
        k = t["type"]
        if k in ("primitive", "external"):
            return False
        if k in ("optional", "list", "set"):
            return self.type_safe(t[k]["itemType"], visiting)
        if k == "map":
            return self.type_safe(t["map"]["keyType"], visiting) and self.type_safe(t["map"]["valueType"], visiting)
        if k == "reference":
            key = (t["reference"]["package"], t["reference"]["name"])
            kind, d = self.defs[key]
            if kind == "enum":
                return True
            if kind == "union":
                return False
            if key in visiting:
                return True  # greatest fixpoint: a cycle alone never makes a type unsafe
            visiting = visiting | {key}
            if kind == "alias":
                if d.get("safety"):
                    return d["safety"] == "SAFE"
                return self.type_safe(d["alias"], visiting)
            for f in d["fields"]:
                if f.get("safety"):
                    if f["safety"] != "SAFE":
                        return False
                elif not self.type_safe(f["type"], visiting):
                    return False
            return True
        raise ValueError(k)

    def arg_safe(self, a):
        if a.get("safety"):
            return a["safety"] == "SAFE"
        if "safe" in a.get("tags", []) or any(_is_safe_marker(m) for m in a.get("markers", [])):
            return True
        return self.type_safe(a["type"])

    def reaches_cycle(self, t, seen=None, stack=None):
        """True if the argument type lies in or reaches a non-trivial SCC (classification only)."""
        seen = seen if seen is not None else set()
        stack = stack if stack is not None else []
        k = t["type"]
        if k in ("optional", "list", "set"):
            return self.reaches_cycle(t[k]["itemType"], seen, stack)
        if k == "map":
            return self.reaches_cycle(t["map"]["keyType"], seen, stack) or self.reaches_cycle(t["map"]["valueType"], seen, stack)
        if k == "reference":
            key = (t["reference"]["package"], t["reference"]["name"])
            if key in stack:
                return True
            if key in seen:
                return False
            seen.add(key)
            kind, d = self.defs[key]
            stack = stack + [key]
            if kind == "alias":
                return self.reaches_cycle(d["alias"], seen, stack)
            if kind in ("object", "union"):
                fs = d["fields"] if kind == "object" else d["union"]
                return any(self.reaches_cycle(f["type"], seen, stack) for f in fs)
        return False

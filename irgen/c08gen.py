"""Definitions aimed at the log-safety computation: small graphs of mutually recursive objects /
unions / aliases whose leaves are mostly safe, with a few unannotated or unsafe 'poison' leaves, and
many endpoint arguments typed by those objects."""
import random
from ir import *

P = ["com.verif.lab", "com.verif.lab.sub"]


def build(seed, shuffle_seed=None):
    r = random.Random(seed)
    n_obj = r.choice([2, 2, 3, 3, 4, 5, 6])
    objs = ["Obj%s" % chr(65 + i) for i in range(n_obj)]
    pkg = {o: r.choice(P) for o in objs}
    types = [enum("Color", P[0], ["RED", "GREEN"])]
    aliases = []
    for i in range(r.choice([0, 1, 2])):
        name = "Ali%d" % i
        x = r.random()
        if x < 0.5:
            aliases.append((name, alias(name, P[0], prim(r.choice(["STRING", "INTEGER"])), r.choice([None, "SAFE", "SAFE", "UNSAFE", "DO_NOT_LOG"]))))
        else:
            o = r.choice(objs)
            t = ref(o, pkg[o])
            aliases.append((name, alias(name, P[0], r.choice([opt(t), lst(t), t]))))
    unions = []
    if r.random() < 0.35:
        o = r.choice(objs)
        unions.append(("Uni0", union("Uni0", P[1], [field("one", ref(o, pkg[o])), field("two", prim("STRING"), r.choice([None, "SAFE"]))])))

    def leaf():
        x = r.random()
        if x < 0.08:
            # external types are never safe, whatever their fallback is
            fb = r.choice([ref("Color", P[0]), opt(ref("Color", P[0])), prim("STRING")] + [ref(n, P[0]) for n, a in aliases if a["alias"].get("safety") == "SAFE"])
            return external("Ext%d" % r.randrange(3), "java.ext", fb), None
        if x < 0.2:
            return ref("Color", P[0]), None
        if x < 0.3 and aliases:
            n, a = r.choice(aliases)
            # a declaration on the field decides, whatever the alias behind it says (aliases of primitives without a safety of their own)
            if a["alias"]["alias"]["type"] == "primitive" and not a["alias"].get("safety") and r.random() < 0.5:
                return ref(n, P[0]), r.choice(["SAFE", "SAFE", "UNSAFE", "DO_NOT_LOG"])
            return ref(n, P[0]), None
        s = r.choices(["SAFE", None, "UNSAFE", "DO_NOT_LOG"], [70, 12, 9, 9])[0]
        t = prim(r.choice(["STRING", "INTEGER", "UUID", "DOUBLE"]))
        if r.random() < 0.2:
            t = r.choice([opt(t), lst(t), map_(prim("STRING"), t)])
        return t, s

    for i, o in enumerate(objs):
        fields = []
        for k in range(r.choice([0, 1, 2, 2, 3, 4])):     # an object without fields can hold nothing unsafe: it is safe
            x = r.random()
            if x < 0.55:
                target = r.choice(objs)
                t = ref(target, pkg[target])
                j = objs.index(target)
                wrap = r.choice(["opt", "list", "map", "set", "direct"])
                if wrap == "direct" and j >= i:
                    wrap = "opt"
                t = {"opt": opt(t), "list": lst(t), "map": map_(prim("STRING"), t), "set": set_(t), "direct": t}[wrap]
                fields.append(field("f%d" % k, t))
            elif x < 0.62 and unions:
                fields.append(field("f%d" % k, opt(ref("Uni0", P[1]))))
            else:
                t, s = leaf()
                fields.append(field("f%d" % k, t, s))
        types.append(obj(o, pkg[o], fields))
    types += [a for _, a in aliases] + [u for _, u in unions]
    eps = []
    for e in range(r.choice([4, 6, 8, 10])):
        args = []
        cands = objs + [n for n, _ in aliases] + [n for n, _ in unions]
        target = r.choice(cands)
        tp = pkg.get(target, P[0] if target.startswith("Ali") else P[1])
        t = ref(target, tp)
        w = r.random()
        if w < 0.2 and not target.startswith("Ali"):
            t = opt(t)
        elif w < 0.35:
            t = lst(t)
        elif w < 0.45:
            t = map_(prim("STRING"), t)
        x = r.random()
        kw = {}
        if x < 0.15:
            kw["safety"] = r.choice(["SAFE", "UNSAFE", "DO_NOT_LOG"])
        elif x < 0.22:
            kw["markers"] = [SAFE_MARKER]
        elif x < 0.28:
            kw["tags"] = ["safe"]
        elif x < 0.36:
            kw["tags"] = [r.choice(NOISE_TAGS)]
        elif x < 0.41:
            kw["markers"] = [r.choice(NOISE_MARKERS)]
        elif x < 0.49:
            # an explicit declaration on the argument together with the legacy marker / tag: the declaration wins
            kw["safety"] = r.choice(["UNSAFE", "DO_NOT_LOG", "UNSAFE", "SAFE"])
            if r.random() < 0.5:
                kw["markers"] = [SAFE_MARKER]
            else:
                kw["tags"] = ["safe"]
        args.append(arg("body", t, "body", **kw))
        for q in range(r.choice([0, 1, 2])):
            qt = r.choice([ref("Color", P[0]), opt(ref("Color", P[0])), prim("STRING"), lst(prim("INTEGER")), external("ExtQ", "java.ext", ref("Color", P[0])),
                           opt(external("ExtQ", "java.ext", ref("Color", P[0])))] + [ref(n, P[0]) for n, a in aliases if a["alias"]["alias"]["type"] == "primitive"]
                          + [external("ExtA", "java.ext", ref(n, P[0])) for n, a in aliases if a["alias"].get("safety") == "SAFE"])
            kw = {}
            if r.random() < 0.2:
                kw["safety"] = r.choice(["SAFE", "UNSAFE"])
            args.append(arg("q%d" % q, qt, "query", "q%d" % q, **kw))
        eps.append(endpoint("ep%d" % e, "POST", "/c08/ep%d" % e, args))
    if r.random() < 0.4:
        # the same not-safe type reached through a field that declares its safety and through one that does not:
        # the declaration covers only its own field (alias of a primitive without a safety of its own)
        types.append(alias("AliPlain", P[0], prim("STRING")))
        decl = r.choice(["SAFE", "SAFE", "UNSAFE"])
        fs = [field("first", ref("AliPlain", P[0]), decl), field("second", ref("AliPlain", P[0]))]
        if r.random() < 0.3:
            fs.reverse()
        if r.random() < 0.5:
            fs.insert(r.randrange(3), field("extra", ref("Color", P[0])))
        types.append(obj("Twice", P[1], fs))
        tt = ref("Twice", P[1])
        eps.insert(r.randrange(len(eps) + 1), endpoint("twice", "POST", "/c08/twice", [arg("body", r.choice([tt, opt(tt), lst(tt)]), "body")]))
        if r.random() < 0.5:
            # ... and an argument of the bare alias elsewhere (fills or does not fill any cache first, depending on the order)
            eps.insert(r.randrange(len(eps) + 1), endpoint("plain", "POST", "/c08/plain", [arg("body", ref("AliPlain", P[0]), "body")]))
    if r.random() < 0.4:
        # two types with one simple name in different packages on one query path: the inner one is not safe
        inner_safe = r.random() < 0.3
        types.append(obj("Session", P[1], [field("token", prim("STRING"), "SAFE" if inner_safe else None)]))
        fs = [field("id", prim("STRING"), "SAFE"), field("detail", r.choice([ref("Session", P[1]), opt(ref("Session", P[1])), lst(ref("Session", P[1]))]))]
        if r.random() < 0.5:
            fs.reverse()
        types.append(obj("Session", P[0], fs))
        eps.insert(r.randrange(len(eps) + 1), endpoint("session", "POST", "/c08/session", [arg("body", ref("Session", P[0]), "body")]))
        if r.random() < 0.4:
            eps.insert(r.randrange(len(eps) + 1), endpoint("innerSession", "POST", "/c08/inner-session", [arg("body", ref("Session", P[1]), "body")]))
    services = [service("GraphService", P[0], eps[: len(eps) // 2 + 1]), service("OtherService", P[1], eps[len(eps) // 2 + 1:])]
    services = [s for s in services if s["endpoints"]]
    if shuffle_seed is not None:
        rr = random.Random(shuffle_seed)
        rr.shuffle(types)
        services = [dict(s, endpoints=[dict(e, args=rr.sample(e["args"], len(e["args"]))) for e in rr.sample(s["endpoints"], len(s["endpoints"]))]) for s in services]
        rr.shuffle(services)
    return definition(types, services)

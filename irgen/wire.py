"""Executable model of the Conjure JSON wire format for the types of a generated definition.

* gen_value(t)            random typed value
* render(v, t, style)     JSON text of the value (canonical or a legal non-canonical spelling)
* check(v, t, got, cfg)   does the (parsed) re-serialised document equal the canonical form of v
* faults(v, t)            single-fault invalid documents with the fault class
Written from the Conjure wire specification / the statement of C02, sharing nothing with the code
under test."""
import base64, datetime, json, math, random, re

MAX_SAFE = (1 << 53) - 1
SPECIAL_DOUBLES = [float("nan"), float("inf"), float("-inf"), 0.0, -0.0, 1.0, -1.0, 1.5, 5e-324, 1.7976931348623157e308, 1e21, 123456789.125, 0.1]
STRINGS = ["", "a", "hello world", "NaN", "Infinity", "true", "null", "AA==", "ünï¢ödé", "日本", "😀", "quote\"back\\slash", "line\nbreak\ttab", "\u0000", "ri.a.b.c.d", "/", "{}"]
ANYS = [None, True, 1, -5, 1.5, "NaN", "text", [], [1, [2, {"a": None}]], {}, {"k": [True, 2.5, "x"], "z": {"y": None}}, 12345678901234567890, -1e-7]


class Ctx:
    def __init__(self, lab, rng, exhaustive=False, serialize_empty=False):
        self.lab, self.r, self.exhaustive, self.serialize_empty = lab, rng, exhaustive, serialize_empty

    def tdef(self, t):
        return self.lab.by_name[t["reference"]["name"]]


def dealias(c, t):
    while True:
        if t["type"] == "reference" and c.tdef(t).kind == "alias":
            t = c.tdef(t).alias
        elif t["type"] == "external":
            t = t["external"]["fallback"]
        else:
            return t


# ---------------------------------------------------------------------------------------------
# values

def gen_time(r):
    secs = r.choice([0, 1, 1577836800, 253402300799, -62135596800, r.randrange(-62135596800, 253402300799)])
    nanos = r.choice([0, 0, 999999999, 123000000, 123456000, r.randrange(1000000000)])
    return (secs, nanos)


def gen_scalar(c, p):
    r = c.r
    if p == "STRING":
        return ("str", r.choice(STRINGS) if r.random() < 0.5 else "".join(r.choice("abcXYZ019 _-é") for _ in range(r.randrange(12))))
    if p == "INTEGER":
        return ("int", r.choice([0, 1, -1, 2147483647, -2147483648, r.randrange(-2147483648, 2147483648)]))
    if p == "SAFELONG":
        return ("long", r.choice([0, MAX_SAFE, -MAX_SAFE, r.randrange(-MAX_SAFE, MAX_SAFE + 1)]))
    if p == "DOUBLE":
        return ("dbl", r.choice(SPECIAL_DOUBLES) if r.random() < 0.5 else r.uniform(-1e6, 1e6) * r.choice([1, 1e-9, 1e9, 1e200]))
    if p == "BOOLEAN":
        return ("bool", r.random() < 0.5)
    if p == "UUID":
        return ("uuid", "%08x-%04x-%04x-%04x-%012x" % (r.getrandbits(32), r.getrandbits(16), r.getrandbits(16), r.getrandbits(16), r.getrandbits(48)))
    if p == "RID":
        return ("rid", "ri.%s.%s.%s.%s" % (r.choice(["svc", "a", "x-1"]), r.choice(["", "inst", "0"]), r.choice(["kind", "t"]), r.choice(["loc", "a.b.c", "A_b-9.z"])))
    if p == "BEARERTOKEN":
        return ("token", r.choice(["abc", "a.b-c_d~e+f/g==", "T0K3n"]))
    if p == "DATETIME":
        return ("time", gen_time(r))
    if p == "BINARY":
        return ("bin", bytes(r.getrandbits(8) for _ in range(r.choice([0, 1, 2, 3, 4, 10]))))
    if p == "ANY":
        return ("any", r.choice(ANYS))
    raise ValueError(p)


def key_text(v):
    """Canonical key identity used for de-duplication of map keys / set items."""
    k = v[0]
    if k == "dbl":
        x = v[1]
        return "nan" if math.isnan(x) else repr(x + 0.0 if x != 0 else 0.0)
    if k == "alias":
        return key_text(v[2])
    # containers: identity up to the order of set items and map entries (two sets listing the same items in
    # another order are the same item of an enclosing set)
    if k == "opt":
        return "opt(" + ("" if v[1] is None else key_text(v[1])) + ")"
    if k == "list":
        return "[" + ",".join(key_text(x) for x in v[1]) + "]"
    if k == "set":
        return "{" + ",".join(sorted(key_text(x) for x in v[1])) + "}"
    if k == "map":
        return "{" + ",".join(sorted(key_text(a) + ":" + key_text(b) for a, b in v[1])) + "}"
    if k == "obj":
        return "obj:" + v[1] + "(" + ",".join(fn + "=" + key_text(fv) for fn, fv in v[2]) + ")"
    if k == "union":
        return "union:" + v[1] + ":" + str(v[2]) + "(" + ("" if v[2] is None else key_text(v[3])) + ")"
    return json.dumps(v[1:], default=lambda b: b.hex() if isinstance(b, bytes) else str(b), sort_keys=True)


def gen_minimal(c, t, depth=0):
    """The 'emptiest' value of a type: absent optionals, empty collections / binaries / strings, zeros, first enum value,
    first union variant. Drawn once per type besides the random values, so that everything that treats emptiness
    specially (skip_serializing_if, defaults) is exercised at every seed."""
    k = t["type"]
    if k == "primitive":
        p = t["primitive"]
        return {"STRING": ("str", ""), "INTEGER": ("int", 0), "SAFELONG": ("long", 0), "DOUBLE": ("dbl", 0.0), "BOOLEAN": ("bool", False), "BINARY": ("bin", b""),
                "ANY": ("any", 0)}.get(p) or gen_scalar(c, p)
    if k == "external":
        return gen_minimal(c, t["external"]["fallback"], depth)
    if k == "optional":
        return ("opt", None)
    if k in ("list", "set"):
        return (k, [])
    if k == "map":
        return ("map", [])
    d = c.tdef(t)
    if depth > 12:
        raise NoValue(d.name)
    if d.kind == "alias":
        return ("alias", d.name, gen_minimal(c, d.alias, depth + 1))
    if d.kind == "enum":
        return ("enum", d.values[0])
    if d.kind == "object":
        return ("obj", d.name, [(fn, gen_minimal(c, ft, depth + 1)) for (fn, ft, _) in d.fields])
    if not d.fields:
        raise NoValue(d.name)
    for fn, ft, _ in d.fields:
        try:
            return ("union", d.name, fn, gen_minimal(c, ft, depth + 1))
        except NoValue:
            continue
    raise NoValue(d.name)


def gen_value(c, t, depth=0):
    r = c.r
    k = t["type"]
    if k == "primitive":
        return gen_scalar(c, t["primitive"])
    if k == "external":
        return gen_value(c, t["external"]["fallback"], depth)
    if k == "optional":
        if depth >= 3 or r.random() < 0.35:
            return ("opt", None)
        try:
            inner = gen_value(c, t["optional"]["itemType"], depth + 1)
        except NoValue:
            return ("opt", None)
        if unalias(inner) == ("any", None):
            return ("opt", None)      # optional<any> holding null is the absent optional
        return ("opt", inner)
    if k in ("list", "set"):
        n = 0 if depth >= 3 else r.choice([0, 0, 1, 2, 3])
        try:
            items = [gen_value(c, t[k]["itemType"], depth + 1) for _ in range(n)]
        except NoValue:
            items = []
        if k == "set":
            seen, out = set(), []
            for it in items:
                kt = key_text(it)
                if kt not in seen:
                    seen.add(kt)
                    out.append(it)
            items = out
        return (k, items)
    if k == "map":
        n = 0 if depth >= 3 else r.choice([0, 0, 1, 2, 3])
        seen, out = set(), []
        for _ in range(n):
            kv = gen_value(c, t["map"]["keyType"], depth + 1)
            kt = key_text(kv)
            if kt in seen:
                continue
            try:
                vv = gen_value(c, t["map"]["valueType"], depth + 1)
            except NoValue:
                break
            seen.add(kt)
            out.append((kv, vv))
        return ("map", out)
    d = c.tdef(t)
    if d.kind == "alias":
        return ("alias", d.name, gen_value(c, d.alias, depth))
    if d.kind == "enum":
        return ("enum", r.choice(d.values))
    if d.kind == "object":
        return ("obj", d.name, [(fn, gen_value(c, ft, depth + 1)) for (fn, ft, _) in d.fields])
    if not d.fields:
        # an empty union has no known variant; only the unknown form exists (non-exhaustive)
        if c.exhaustive:
            raise NoValue(d.name)
        return ("union", d.name, None, None)
    order = list(range(len(d.fields)))
    if depth < 3:
        r.shuffle(order)
    for i in order:
        fn, ft, _ = d.fields[i]
        try:
            return ("union", d.name, fn, gen_value(c, ft, depth + 1))
        except NoValue:
            continue
    raise NoValue(d.name)


# ---------------------------------------------------------------------------------------------
# rendering

def jstr(s, r=None):
    out = json.dumps(s, ensure_ascii=False)
    if r is not None and r.random() < 0.2:
        out = json.dumps(s, ensure_ascii=True)      # \uXXXX escapes (incl. surrogate pairs)
    return out


def dbl_text(x, r=None, noncanon=False):
    if math.isnan(x):
        return '"NaN"'
    if math.isinf(x):
        return '"Infinity"' if x > 0 else '"-Infinity"'
    if noncanon and r is not None and x == int(x) and abs(x) < 1e15 and r.random() < 0.5:
        return ("-" if math.copysign(1, x) < 0 and x == 0 else "") + str(int(x))      # integer spelling of a double
    t = repr(float(x))
    if noncanon and r is not None and "e" in t and r.random() < 0.5:
        t = t.replace("e", "E")
    return t


def time_text(secs, nanos, r=None, noncanon=False):
    off = 0
    if noncanon and r is not None and r.random() < 0.5:
        off = r.choice([60, -60, 330, -420, 14 * 60 - 1])
    base = datetime.datetime(1970, 1, 1) + datetime.timedelta(seconds=secs)
    try:
        local = base + datetime.timedelta(minutes=off)
    except OverflowError:
        local, off = base, 0
    if local.year < 1 or local.year > 9999:
        local, off = base, 0
    frac = ""
    if nanos:
        frac = "." + ("%09d" % nanos).rstrip("0")
        if noncanon and r is not None and r.random() < 0.3:
            frac = "." + "%09d" % nanos
    s = "%04d-%02d-%02dT%02d:%02d:%02d%s" % (local.year, local.month, local.day, local.hour, local.minute, local.second, frac)
    if off == 0:
        return s + ("Z" if not (noncanon and r is not None and r.random() < 0.3) else "+00:00")
    sign = "+" if off > 0 else "-"
    return s + "%s%02d:%02d" % (sign, abs(off) // 60, abs(off) % 60)


def parse_time(s):
    m = re.match(r"^(\d{4})-(\d{2})-(\d{2})[Tt](\d{2}):(\d{2}):(\d{2})(\.\d+)?([Zz]|[+-]\d{2}:\d{2})$", s)
    if not m:
        return None
    y, mo, d, h, mi, se = (int(m.group(i)) for i in range(1, 7))
    try:
        base = datetime.datetime(y, mo, d, h, mi, se)
    except ValueError:
        return None
    frac = m.group(7) or ""
    nanos = int((frac[1:] + "000000000")[:9]) if frac else 0
    off = 0
    z = m.group(8)
    if z not in ("Z", "z"):
        off = (int(z[1:3]) * 60 + int(z[4:6])) * (1 if z[0] == "+" else -1)
    secs = int((base - datetime.datetime(1970, 1, 1)).total_seconds()) - off * 60
    return (secs, nanos)


def scalar_text(v, r=None, noncanon=False, as_key=False):
    k = v[0]
    if k == "str":
        return jstr(v[1], r if noncanon else None)
    if k in ("int", "long"):
        return '"%d"' % v[1] if as_key else str(v[1])
    if k == "dbl":
        if as_key:
            t = dbl_text(v[1])
            return t if t.startswith('"') else '"%s"' % t
        return dbl_text(v[1], r, noncanon)
    if k == "bool":
        t = "true" if v[1] else "false"
        return '"%s"' % t if as_key else t
    if k == "uuid":
        return '"%s"' % (v[1].upper() if (noncanon and r is not None and r.random() < 0.4) else v[1])
    if k in ("rid", "token"):
        return '"%s"' % v[1]
    if k == "time":
        return '"%s"' % time_text(v[1][0], v[1][1], r, noncanon)
    if k == "bin":
        return '"%s"' % base64.b64encode(v[1]).decode()
    if k == "enum":
        return '"%s"' % v[1]
    if k == "any":
        return json.dumps(v[1])
    raise ValueError(k)


class Style:
    def __init__(self, r=None, noncanon=False, serialize_empty=False):
        self.r, self.noncanon, self.serialize_empty = r, noncanon, serialize_empty


def is_collection(c, t):
    t = dealias(c, t)
    return t["type"] in ("list", "set", "map")


def is_optional(c, t):
    return dealias(c, t)["type"] == "optional"


def render(c, v, t, st, fault=None, path=()):
    """JSON text of value v of type t. `fault` = (path, kind, payload) replaces the text at a path."""
    if fault is not None and fault[0] == path and fault[1] == "replace":
        return fault[2]
    r = st.r
    k = v[0]
    if t["type"] == "external":
        return render(c, v, t["external"]["fallback"], st, fault, path)
    if k == "alias":
        return render(c, v[2], c.tdef(t).alias if t["type"] == "reference" else t, st, fault, path)
    if k == "opt":
        return "null" if v[1] is None else render(c, v[1], t["optional"]["itemType"], st, fault, path + ("some",))
    if k in ("list", "set"):
        items = list(enumerate(v[1]))
        if k == "set" and st.noncanon and r is not None:
            r.shuffle(items)
        return "[" + ",".join(render(c, it, t[k]["itemType"], st, fault, path + (i,)) for i, it in items) + "]"
    if k == "map":
        ents = list(enumerate(v[1]))
        if st.noncanon and r is not None:
            r.shuffle(ents)
        parts = []
        for i, (kv, vv) in ents:
            kt = map_key_text(c, kv, t["map"]["keyType"], st)
            if fault is not None and fault[0] == path + (i, "key") and fault[1] == "replace":
                kt = fault[2]
            parts.append(kt + ":" + render(c, vv, t["map"]["valueType"], st, fault, path + (i,)))
        return "{" + ",".join(parts) + "}"
    if k == "obj":
        d = c.lab.by_name[v[1]]
        parts = []
        for (fn, fv), (_, ft, _) in zip(v[2], d.fields):
            if fault is not None and fault[0] == path + (fn,) and fault[1] == "drop":
                continue
            p = path + (fn,)
            if fv[0] == "opt" and fv[1] is None or (fv[0] == "alias" and unalias(fv)[0] == "opt" and unalias(fv)[1] is None):
                if (st.noncanon and r is not None and r.random() < 0.4):
                    parts.append(jstr(fn) + ":null")
                continue
            u = unalias(fv)
            if u[0] in ("list", "set", "map") and not u[1] and not (fault is not None and fault[0] == p):
                if st.serialize_empty or (st.noncanon and r is not None and r.random() < 0.4):
                    parts.append(jstr(fn) + ":" + ("{}" if u[0] == "map" else "[]"))
                continue
            parts.append(jstr(fn) + ":" + render(c, fv, ft, st, fault, p))
        if fault is not None and fault[0] == path and fault[1] == "extra-member":
            parts.append(fault[2])
        if st.noncanon and r is not None:
            r.shuffle(parts)
        return "{" + ",".join(parts) + "}"
    if k == "union":
        d = c.lab.by_name[v[1]]
        if v[2] is None:
            return '{"type":"someFutureVariant","someFutureVariant":{"x":[1,null]}}'
        ft = [f for f in d.fields if f[0] == v[2]][0][1]
        tpart = '"type":' + jstr(v[2])
        vpart = jstr(v[2]) + ":" + render(c, v[3], ft, st, fault, path + ("value",))
        if fault is not None and fault[0] == path:
            if fault[1] == "union-mismatch":
                tpart = '"type":' + jstr(fault[2])
            elif fault[1] == "union-no-member":
                return "{" + tpart + "}"
            elif fault[1] == "union-no-type":
                return "{" + vpart + "}"
            elif fault[1] == "union-extra":
                return "{" + tpart + "," + vpart + ',"zzExtra":1}'
            elif fault[1] == "union-type-misnamed":
                # the discriminator under another name, before or after the value member
                kpart = '"kind":' + jstr(v[2])
                return "{" + (kpart + "," + vpart if fault[2] == "first" else vpart + "," + kpart) + "}"
            elif fault[1] == "union-type-not-string":
                tpart = '"type":7'
        parts = [tpart, vpart]
        if st.noncanon and r is not None and r.random() < 0.5:
            parts.reverse()
        return "{" + ",".join(parts) + "}"
    return scalar_text(v, r, st.noncanon)


def unalias(v):
    while v[0] == "alias":
        v = v[2]
    return v


def map_key_text(c, kv, kt, st):
    kv = unalias(kv)
    if kv[0] == "str":
        return jstr(kv[1])
    return scalar_text(kv, st.r, False, as_key=True)


# ---------------------------------------------------------------------------------------------
# checking a re-serialised document against the value

class Mismatch(Exception):
    pass


class NoValue(Exception):
    """The type has no valid value under the configuration (empty union, exhaustive)."""


def any_equiv(a, b):
    if isinstance(a, bool) or isinstance(b, bool):
        return a is b
    if isinstance(a, (int, float)) and isinstance(b, (int, float)):
        return a == b
    if isinstance(a, list) and isinstance(b, list):
        return len(a) == len(b) and all(any_equiv(x, y) for x, y in zip(a, b))
    if isinstance(a, dict) and isinstance(b, dict):
        return set(a) == set(b) and all(any_equiv(a[k], b[k]) for k in a)
    return type(a) == type(b) and a == b


def check_scalar(v, got, where):
    k = v[0]
    def bad(msg):
        raise Mismatch("%s: %s (got %r)" % (where, msg, got))
    if k == "str" or k in ("rid", "token", "enum"):
        if got != v[1] or not isinstance(got, str):
            bad("expected string %r" % v[1])
    elif k in ("int", "long"):
        if isinstance(got, bool) or not isinstance(got, int) or got != v[1]:
            bad("expected integer %d" % v[1])
    elif k == "dbl":
        x = v[1]
        if math.isnan(x):
            if got != "NaN":
                bad("expected \"NaN\"")
        elif math.isinf(x):
            if got != ("Infinity" if x > 0 else "-Infinity"):
                bad("expected infinity string")
        elif isinstance(got, bool) or not isinstance(got, (int, float)) or float(got) != x:
            bad("expected number %r" % x)
    elif k == "bool":
        if got is not v[1]:
            bad("expected %r" % v[1])
    elif k == "uuid":
        if got != v[1]:
            bad("expected canonical uuid %s" % v[1])
    elif k == "time":
        if not isinstance(got, str) or parse_time(got) != tuple(v[1]):
            bad("expected an RFC 3339 text for %r" % (v[1],))
    elif k == "bin":
        if got != base64.b64encode(v[1]).decode():
            bad("expected padded standard Base64")
    elif k == "any":
        if not any_equiv(v[1], got):
            bad("expected an equivalent document of %r" % (v[1],))
    else:
        raise ValueError(k)


def check_key(kv, got_key, where):
    kv = unalias(kv)
    k = kv[0]
    if k == "str":
        ok = got_key == kv[1]
    elif k in ("int", "long"):
        ok = got_key == str(kv[1])
    elif k == "bool":
        ok = got_key == ("true" if kv[1] else "false")
    elif k == "dbl":
        x = kv[1]
        if math.isnan(x):
            ok = got_key == "NaN"
        elif math.isinf(x):
            ok = got_key == ("Infinity" if x > 0 else "-Infinity")
        else:
            try:
                ok = float(got_key) == x and got_key not in ("inf", "-inf", "nan")
            except ValueError:
                ok = False
    elif k == "time":
        ok = parse_time(got_key) == tuple(kv[1])
    elif k == "bin":
        ok = got_key == base64.b64encode(kv[1]).decode()
    else:
        ok = got_key == kv[1]
    return ok


def check(c, v, t, got, where="$"):
    """Raises Mismatch unless `got` (parsed JSON) is the canonical wire form of v."""
    k = v[0]
    if t["type"] == "external":
        return check(c, v, t["external"]["fallback"], got, where)
    if k == "alias":
        return check(c, v[2], c.tdef(t).alias if t["type"] == "reference" else t, got, where)
    if k == "opt":
        if v[1] is None:
            if got is not None:
                raise Mismatch("%s: expected null / absent" % where)
            return
        return check(c, v[1], t["optional"]["itemType"], got, where)
    if k == "list":
        if not isinstance(got, list) or len(got) != len(v[1]):
            raise Mismatch("%s: expected a list of %d (got %r)" % (where, len(v[1]), got if not isinstance(got, list) else len(got)))
        for i, (x, g) in enumerate(zip(v[1], got)):
            check(c, x, t["list"]["itemType"], g, "%s[%d]" % (where, i))
        return
    if k == "set":
        if not isinstance(got, list) or len(got) != len(v[1]):
            raise Mismatch("%s: expected a set of %d (got %r)" % (where, len(v[1]), got))
        used = [False] * len(got)
        for x in v[1]:
            for i, g in enumerate(got):
                if used[i]:
                    continue
                try:
                    check(c, x, t["set"]["itemType"], g, where + "{}")
                    used[i] = True
                    break
                except Mismatch:
                    continue
            else:
                raise Mismatch("%s: set element %r not found in %r" % (where, x, got))
        return
    if k == "map":
        if not isinstance(got, dict) or len(got) != len(v[1]):
            raise Mismatch("%s: expected a map of %d entries (got %r)" % (where, len(v[1]), got))
        for kv, vv in v[1]:
            hit = [gk for gk in got if check_key(kv, gk, where)]
            if len(hit) != 1:
                raise Mismatch("%s: key %r not found exactly once among %r" % (where, unalias(kv), list(got)))
            check(c, vv, t["map"]["valueType"], got[hit[0]], "%s[%s]" % (where, hit[0]))
        return
    if k == "obj":
        d = c.lab.by_name[v[1]]
        if not isinstance(got, dict):
            raise Mismatch("%s: expected an object (got %r)" % (where, got))
        expected = set()
        for (fn, fv), (_, ft, _) in zip(v[2], d.fields):
            u = unalias(fv)
            if u[0] == "opt" and u[1] is None:
                if fn in got:
                    # absent optionals are omitted; under serializeEmptyCollections `null` is documented too
                    if not (c.serialize_empty and got[fn] is None):
                        raise Mismatch("%s.%s: absent optional must be omitted" % (where, fn))
                    expected.add(fn)
                continue
            if u[0] in ("list", "set", "map") and not u[1]:
                if c.serialize_empty:
                    if fn not in got:
                        raise Mismatch("%s.%s: empty collection must be present under serializeEmptyCollections" % (where, fn))
                else:
                    if fn in got:
                        raise Mismatch("%s.%s: empty collection must be omitted" % (where, fn))
                    continue
            if fn not in got:
                raise Mismatch("%s.%s: member missing" % (where, fn))
            expected.add(fn)
            check(c, fv, ft, got[fn], "%s.%s" % (where, fn))
        extra = set(got) - expected
        if extra:
            raise Mismatch("%s: unexpected members %r" % (where, sorted(extra)))
        return
    if k == "union":
        d = c.lab.by_name[v[1]]
        if v[2] is None:
            want = {"type": "someFutureVariant", "someFutureVariant": {"x": [1, None]}}
            if not any_equiv(want, got):
                raise Mismatch("%s: unknown variant must re-serialise equivalently (got %r)" % (where, got))
            return
        if not isinstance(got, dict) or set(got) != {"type", v[2]} or got["type"] != v[2]:
            raise Mismatch("%s: expected {type: %s, %s: ..} (got %r)" % (where, v[2], v[2], got))
        ft = [f for f in d.fields if f[0] == v[2]][0][1]
        return check(c, v[3], ft, got[v[2]], "%s.%s" % (where, v[2]))
    return check_scalar(v, got, where)


# ---------------------------------------------------------------------------------------------
# single faults

WRONG_KIND = {
    "str": ["17", "true", "[\"a\"]", "{\"a\":1}"],
    "int": ["\"12\"", "true", "[1]", "{}", "null"],
    "long": ["\"12\"", "true", "[1]", "{}", "null"],
    "dbl": ["\"abc\"", "true", "[]", "{}", "null", "\"nan\"", "\"inf\""],
    "bool": ["\"true\"", "1", "null", "[]"],
    "uuid": ["\"not-a-uuid\"", "\"1234\"", "17", "\"00000000-0000-0000-0000-00000000000g\""],
    "rid": ["\"ri.bad\"", "\"ri.A.b.c.d\"", "\"ri.a.b.c.\"", "5", "\"\""],
    "time": ["\"2020-13-01T00:00:00Z\"", "\"yesterday\"", "1577836800", "\"2020-01-01\"", "\"2020-01-01T00:00:00\""],
    "token": ["\"bad token!\"", "\"\"", "5", "\"a=b\""],
    "bin": ["\"not base64!\"", "\"AA=\"", "\"A\"", "5", "[1,2]"],
    "enum": ["\"red\"", "\"\"", "\"BAD-NAME\"", "5", "null", "\"RED \"", "\"\u00c9CRU\"", "\"\u03a3IGMA\"", "\"BLUE_\u00b2\"", "\"\u2167\"", "\"BLUE_\u0663\"", "\"A\u0130\""],
}


def fault_sites(c, v, t, path=()):
    """Yields (path, kind, payload, class) for every applicable single fault inside v."""
    k = v[0]
    if t["type"] == "external":
        yield from fault_sites(c, v, t["external"]["fallback"], path)
        return
    if k == "alias":
        yield from fault_sites(c, v[2], c.tdef(t).alias if t["type"] == "reference" else t, path)
        return
    if k == "opt":
        if v[1] is not None:
            for f in fault_sites(c, v[1], t["optional"]["itemType"], path + ("some",)):
                # `null` directly below an optional is the (valid) absent value
                if f[0] == path + ("some",) and f[1] == "replace" and f[2] == "null":
                    continue
                yield f
        return
    if k in ("list", "set"):
        for txt in ["5", "\"x\"", "{\"a\":1}"]:
            yield (path, "replace", txt, "wrong-json-kind/collection")
        for i, it in enumerate(v[1]):
            yield from fault_sites(c, it, t[k]["itemType"], path + (i,))
        return
    if k == "map":
        for txt in ["5", "\"x\"", "[1]"]:
            yield (path, "replace", txt, "wrong-json-kind/map")
        kt = dealias(c, t["map"]["keyType"])
        for i, (kv, vv) in enumerate(v[1]):
            ku = unalias(kv)[0]
            badkeys = {"int": "\"abc\"", "long": "\"9007199254740992\"", "dbl": "\"abc\"", "bool": "\"yes\"", "uuid": "\"nope\"", "rid": "\"ri.bad\"", "time": "\"today\"",
                       "token": "\"bad token\"", "bin": "\"*\"", "enum": "\"lower\""}
            if ku in badkeys:
                yield (path + (i, "key"), "replace", badkeys[ku], "malformed-map-key/" + ku)
            yield from fault_sites(c, vv, t["map"]["valueType"], path + (i,))
        return
    if k == "obj":
        d = c.lab.by_name[v[1]]
        for txt in ["5", "\"x\"", "true"]:
            yield (path, "replace", txt, "wrong-json-kind/object")
        yield (path, "extra-member", "\"zzUnknownMember\":%s" % c.r.choice(["1", "null", "{\"a\":[]}"]), "unknown-member")
        for (fn, fv), (_, ft, _) in zip(v[2], d.fields):
            # required = the field's own type (no alias, no external in between) is neither optional,
            # nor a collection, nor `any`
            direct_required = ft["type"] in ("primitive", "reference") and not (ft["type"] == "primitive" and ft["primitive"] == "ANY")
            if ft["type"] == "reference" and c.tdef(ft).kind == "alias":
                direct_required = False
            if direct_required:
                yield (path + (fn,), "drop", None, "missing-required-field")
                yield (path + (fn,), "replace", "null", "null-required-field")
            yield from fault_sites(c, fv, ft, path + (fn,))
        return
    if k == "union":
        d = c.lab.by_name[v[1]]
        if not c.exhaustive:
            # two *undeclared* names that disagree, in both member orders
            yield (path, "replace", "{\"type\":\"zzMystery\",\"zzEnigma\":{\"a\":1}}", "union-type-member-mismatch/undeclared")
            yield (path, "replace", "{\"zzEnigma\":{\"a\":1},\"type\":\"zzMystery\"}", "union-type-member-mismatch/undeclared")
            # an undeclared variant with a third member (member names in sorted order, as a map-backed document holds them)
            yield (path, "replace", "{\"type\":\"zzMystery\",\"zzMystery\":{\"a\":1},\"zzzExtra\":2}", "union-extra-member/undeclared")
        if v[2] is None:
            return
        for txt in ["5", "\"x\"", "[1]"]:
            yield (path, "replace", txt, "wrong-json-kind/union")
        others = [f[0] for f in d.fields if f[0] != v[2]]
        if others:
            yield (path, "union-mismatch", others[0], "union-type-member-mismatch")
        yield (path, "union-no-member", None, "union-missing-member")
        yield (path, "union-no-type", None, "union-missing-type")
        yield (path, "union-extra", None, "union-extra-member")
        yield (path, "union-type-not-string", None, "union-type-not-a-string")
        yield (path, "union-type-misnamed", "first", "union-type-member-misnamed")
        yield (path, "union-type-misnamed", "last", "union-type-member-misnamed")
        if c.exhaustive:
            yield (path, "replace", "{\"type\":\"zzFutureVariant\",\"zzFutureVariant\":1}", "exhaustive/unlisted-union-variant")
        ft = [f for f in d.fields if f[0] == v[2]][0][1]
        yield from fault_sites(c, v[3], ft, path + ("value",))
        return
    if k == "any":
        return
    for txt in WRONG_KIND.get(k, []):
        cls = "malformed/" + k if txt.startswith('"') and k not in ("str", "int", "long", "bool") else "wrong-json-kind/" + k
        yield (path, "replace", txt, cls)
    if k == "int":
        yield (path, "replace", "2147483648", "integer-out-of-range")
        yield (path, "replace", "-2147483649", "integer-out-of-range")
        yield (path, "replace", "1.5", "fractional-integer")
    if k == "long":
        yield (path, "replace", "9007199254740992", "safelong-out-of-range")
        yield (path, "replace", "-9007199254740992", "safelong-out-of-range")
        yield (path, "replace", "0.5", "fractional-integer")
    if k == "enum" and c.exhaustive:
        yield (path, "replace", "\"ZZ_NOT_LISTED\"", "exhaustive/unlisted-enum-value")

"""Random Conjure IR generator (Bed B). Stays inside the validity envelope of DESIGN.md Appendix A:
a shape whose legality is doubtful is not generated. Deterministic in (seed, profile)."""
import random
from ir import *

KEYWORDS = ["type", "match", "self", "async", "fn", "mod", "loop", "box", "dyn", "union", "ref", "move", "use", "where",
            "impl", "trait", "struct", "enum", "crate", "super", "static", "const", "pub", "in", "as", "yield", "macro",
            "override", "final", "abstract", "priv", "typeof", "virtual", "do", "become", "unsized", "try", "await", "new"]
# "Option" and "Some" are pinned witnesses (they break educe-derived code when the type holds a double)
PRELUDE_TYPES = ["Vec", "String", "Box", "Result", "Ok", "Err", "None", "Send", "Into", "IntoIterator",
                 "Default", "Clone", "Iterator", "Sized", "Sync", "Copy", "Drop", "Fn", "Eq", "Ord", "Hash", "Debug", "Display",
                 "Error", "Self", "Any", "Bytes", "Uuid", "DateTime", "BTreeMap", "BTreeSet", "Unknown"]
WORDS = ["alpha", "beta", "gamma", "delta", "omega", "node", "leaf", "item", "entry", "value", "key", "name", "count", "ratio",
         "flag", "data", "info", "meta", "kind", "state", "owner", "label", "size", "total", "index", "first", "last", "left",
         "right", "inner", "outer", "small", "large", "red", "blue"]
PRIM_SCALARS = ["STRING", "INTEGER", "DOUBLE", "SAFELONG", "BOOLEAN", "UUID", "RID", "BEARERTOKEN", "DATETIME"]
SAFETIES = ["SAFE", "UNSAFE", "DO_NOT_LOG"]


def camel(words):
    return words[0] + "".join(w.capitalize() for w in words[1:])


def upper_camel(words):
    return "".join(w.capitalize() for w in words)


class TDef:
    def __init__(self, kind, name, pkg):
        self.kind, self.name, self.pkg = kind, name, pkg
        self.alias = None      # alias target type expr
        self.safety = None     # alias safety
        self.values = []       # enum values
        self.fields = []       # object fields / union members: (name, type, safety)
        self.deprecated = set()  # enum values / field / member names marked deprecated in the definition

    def ref(self):
        return ref(self.name, self.pkg)

    def to_ir(self):
        if self.kind == "alias":
            return alias(self.name, self.pkg, self.alias, self.safety)
        if self.kind == "enum":
            return enum(self.name, self.pkg, [{"value": v, "deprecated": "use another value"} if v in self.deprecated else v for v in self.values])
        fs = [field(n, t, s, deprecated="no longer used" if n in self.deprecated else None) for (n, t, s) in self.fields]
        if self.kind == "object":
            return obj(self.name, self.pkg, fs)
        return union(self.name, self.pkg, fs)


class Profile:
    """Knobs of one generated definition."""
    def __init__(self, **kw):
        self.n_types = kw.get("n_types", 40)
        self.hostile_names = kw.get("hostile_names", True)
        self.cycles = kw.get("cycles", 0.3)          # probability that a container field points forward / to itself
        self.safety = kw.get("safety", 0.25)         # probability of an explicit safety declaration
        self.services = kw.get("services", 2)
        self.errors = kw.get("errors", 3)
        self.packages = kw.get("packages", ["com.verif.lab", "com.verif.lab.sub", "com.verif.lab.sub.deep", "com.verif.other", "org.example",
                                            "com.verif.left.api", "com.verif.right.api", "com.verif.left.api.v1", "com.verif.right.api.v1"])
        self.any_binary = kw.get("any_binary", True)
        self.externals = kw.get("externals", True)
        self.body_bias = kw.get("body_bias", False)   # C08: most arguments are bodies / typed parameters
        self.limit_bias = kw.get("limit_bias", 0.15)    # probability of a server-limit-request-size tag on an endpoint with a body
        self.plain_aliases = kw.get("plain_aliases", False)   # C12: an alias and an alias-of-alias of every PLAIN primitive


class LabGen:
    def __init__(self, seed, profile=None):
        self.r = random.Random(seed)
        self.p = profile or Profile()
        self.types = []          # TDef in declaration order
        self.by_name = {}
        self.services = []
        self.errors = []
        self.error_defs = []
        self.used_names = set()
        self._build()

    # ---- names
    def fresh_type_name(self):
        r = self.r
        for _ in range(1000):
            x = r.random()
            if self.p.hostile_names and x < 0.15:
                n = r.choice(PRELUDE_TYPES)
            elif self.p.hostile_names and x < 0.21:
                # type names that snake-case to a Rust keyword (the per-type module is named after them)
                n = r.choice(KEYWORDS).capitalize()
            else:
                n = upper_camel(r.sample(WORDS, r.choice([1, 2, 2, 3])))
            low = n.lower()
            # type/module names must be unique after snake-casing, and never clash with a sub-package
            # name (pinned finding C03-6) or with <Svc>Client-style names (pinned finding C03-4)
            if low in self.used_names or n in ("Unknown",) and False:
                continue
            if any(n.endswith(s) for s in ("Client", "Endpoints", "Service")) or n.startswith("Async"):
                continue
            # (a type named like a package component can sit next to that sub-package: pinned finding C03-type-vs-subpackage-module)
            if low in ("sub", "deep", "lab", "other", "example", "verif", "com", "org") or low in {c.lower() for pkg in self.p.packages for c in pkg.split(".")}:
                continue
            self.used_names.add(low)
            return n
        raise RuntimeError("name pool exhausted")

    def member_names(self, n, style=None):
        """n distinct field / member names, one style per object, hostile ones included."""
        r = self.r
        style = style or r.choice(["camel", "camel", "kebab", "snake"])
        out, seen = [], set()
        while len(out) < n:
            if self.p.hostile_names and r.random() < 0.2:
                w = [r.choice(KEYWORDS)]
            else:
                w = r.sample(WORDS, r.choice([1, 2, 2]))
            norm = "_".join(w)
            # names colliding after snake-casing, and the pinned findings `build`/`builder`, are excluded
            if norm in seen or norm in ("build", "builder"):
                continue
            seen.add(norm)
            if style == "camel":
                out.append(camel(w))
            elif style == "kebab":
                out.append("-".join(w))
            else:
                out.append("_".join(w))
        return out

    # ---- type expressions
    def scalar(self, allow_any=True):
        r = self.r
        x = r.random()
        if self.p.any_binary and allow_any and x < 0.06:
            return prim("ANY")
        if self.p.any_binary and x < 0.12:
            return prim("BINARY")
        return prim(r.choice(PRIM_SCALARS))

    def key_type(self, upto):
        """Types legal in map-key position: scalar primitives, enums, aliases of those."""
        r = self.r
        cands = [t for t in self.types[:upto] if self.is_keyable(t)]
        if cands and r.random() < 0.3:
            return r.choice(cands).ref()
        return prim(r.choice(PRIM_SCALARS))

    def is_keyable(self, t):
        if t.kind == "enum":
            return True
        if t.kind == "alias":
            a = t.alias
            if a["type"] == "primitive":
                return a["primitive"] in PRIM_SCALARS
            if a["type"] == "reference":
                return self.is_keyable(self.by_name[a["reference"]["name"]])
        return False

    def is_optional(self, t):
        """Resolves aliases; True if the type is (an alias of) an optional."""
        while True:
            if t["type"] == "optional":
                return True
            if t["type"] == "reference":
                d = self.by_name.get(t["reference"]["name"])   # forward references are objects/unions
                if d is not None and d.kind == "alias":
                    t = d.alias
                    continue
            if t["type"] == "external":
                t = t["external"]["fallback"]
                continue
            return False

    def type_expr(self, idx, depth=0, container=False, no_double=False):
        """A type expression for a field of type #idx. Direct references only point backwards;
        inside containers (and for union members) forward / self references are allowed."""
        r = self.r
        x = r.random()
        if depth < 3 and x < 0.38:
            k = r.random()
            if k < 0.3:
                inner = self.type_expr(idx, depth + 1, True, no_double)
                if self.is_optional(inner):          # no optional<optional<..>>
                    return lst(inner)
                return opt(inner)
            if k < 0.55:
                return lst(self.type_expr(idx, depth + 1, True, no_double))
            if k < 0.7:
                # a set whose item is a *collection / optional* holding a double does not compile
                # (pinned finding C03-set-of-collection-with-double): such items are drawn double-free;
                # set<double> itself is fine
                item = self.type_expr(idx, depth + 1, True, True)
                if not no_double and self.r.random() < 0.15:
                    item = prim("DOUBLE")
                return set_(item)
            return map_(self.key_type(idx) if not no_double else prim("STRING"), self.type_expr(idx, depth + 1, True, no_double))
        if x < 0.68 or not self.types:
            t = self.scalar()
            if no_double and t == prim("DOUBLE"):
                t = prim("STRING")
            return t
        if self.p.externals and x < 0.76:  # 8% of the non-container field types are external references
            fb = self.scalar(False)
            if no_double and fb == prim("DOUBLE"):
                fb = prim("STRING")
            y = r.random()
            if depth < 3 and y < 0.5:
                # the fallback is a full type: optionals / collections / references are legal too
                fb = r.choice([opt(fb), lst(fb), set_(prim("STRING")), map_(prim("STRING"), fb)])
            elif y < 0.5 and idx > 0:
                cands = [t for t in self.types[:idx] if t.kind in ("enum", "alias")]
                if cands:
                    fb = r.choice(cands).ref()
            return external(upper_camel(r.sample(WORDS, 2)), "java.ext", fb)
        if container and r.random() < self.p.cycles and idx < len(self._planned):
            # forward or self reference (recursion through a container)
            j = r.randrange(idx, len(self._planned))
            kind, name, pkg = self._planned[j]
            if kind in ("object", "union"):
                return ref(name, pkg)
        if idx > 0:
            return r.choice(self.types[:idx]).ref()
        return self.scalar()

    # ---- definitions
    def _build(self):
        r, p = self.r, self.p
        kinds = []
        for i in range(p.n_types):
            kinds.append(r.choices(["object", "union", "alias", "enum"], [5, 2, 3, 2])[0])
        plain_prims = ["STRING", "INTEGER", "SAFELONG", "DOUBLE", "BOOLEAN", "UUID", "RID", "BEARERTOKEN", "DATETIME", "BINARY"] if p.plain_aliases else []
        kinds = ["alias"] * (2 * len(plain_prims)) + kinds
        self._planned = [(k, self.fresh_type_name(), r.choice(p.packages)) for k in kinds]
        self._forced_alias = {}
        for k, pp in enumerate(plain_prims):
            self._forced_alias[k] = prim(pp)
            self._forced_alias[len(plain_prims) + k] = ref(self._planned[k][1], self._planned[k][2])
        for i, (kind, name, pkg) in enumerate(self._planned):
            d = TDef(kind, name, pkg)
            if kind == "enum":
                n = r.choice([1, 2, 3, 5])
                vals = set()
                while len(vals) < n:
                    v = "_".join(w.upper() for w in r.sample(WORDS, r.choice([1, 2])))
                    x = r.random()
                    if x < 0.12:
                        v += str(r.randrange(10))
                    elif x < 0.3:
                        # segments that start with a digit: case conversions are not the identity here
                        v += "_" + r.choice(["1", "2", "1_3", "2X", "9Z", "0"])
                    elif x < 0.36:
                        v = r.choice(["SELF", "A", "X9", "TYPE", "NONE", "SOME", "OK"])
                    # values colliding after UpperCamel conversion are a pinned finding (C03-5)
                    norm = v.replace("_", "").lower()
                    if v != "UNKNOWN" and norm not in {y.replace("_", "").lower() for y in vals}:
                        vals.add(v)
                d.values = sorted(vals)
                r.shuffle(d.values)
            elif kind == "alias" and i in self._forced_alias:
                d.alias = self._forced_alias[i]
            elif kind == "alias":
                # aliases are never recursive by themselves: only backwards references
                t = self.type_expr(i, 1, False) if r.random() < 0.6 else self.scalar()
                t = self._strip_forward(t, i)
                earlier = [x for x in self.types if x.kind == "alias"]
                if earlier and r.random() < 0.25:
                    # alias chains: an alias of an (alias of an ...) optional / collection / scalar
                    t = r.choice(earlier).ref()
                d.alias = t
                if r.random() < p.safety and t["type"] == "primitive" and t["primitive"] not in ("BEARERTOKEN",):
                    d.safety = r.choice(SAFETIES)
            elif kind == "object":
                n = r.choice([0, 1, 2, 3, 4, 6])
                names = self.member_names(n + 1)
                for fn in names[:n]:
                    t = self.type_expr(i)
                    s = r.choice(SAFETIES) if (r.random() < p.safety and self._safety_allowed(t)) else None
                    d.fields.append((fn, t, s))
                # recursion that passes through an *alias* of optional / list / map of this object:
                # the alias is defined later and referenced directly by a field
                later = [j for j in range(i + 1, len(self._planned)) if self._planned[j][0] == "alias" and j not in self._forced_alias]
                if later and r.random() < 0.12:
                    j = r.choice(later)
                    me = ref(name, pkg)
                    self._forced_alias[j] = r.choice([opt(me), opt(me), lst(me), map_(prim("STRING"), me)])
                    d.fields.append((names[n], ref(self._planned[j][1], self._planned[j][2]), None))
            else:
                n = r.choice([0, 1, 2, 3, 4])
                names = [x for x in self.member_names(n, "camel") if x != "type"]
                for k, fn in enumerate(names):
                    # union members may reference the union itself; keep the first member finite
                    t = self.type_expr(i, 0, k > 0)
                    if k == 0:
                        t = self._strip_forward(t, i)
                    s = r.choice(SAFETIES) if (r.random() < p.safety and self._safety_allowed(t)) else None
                    d.fields.append((fn, t, s))
            # deprecation marks (listed values / fields / members stay listed: only an attribute in the output)
            if kind == "enum":
                d.deprecated = {v for v in d.values if r.random() < 0.2}
            elif kind in ("object", "union"):
                d.deprecated = {f[0] for f in d.fields if r.random() < 0.1}
            self.types.append(d)
            self.by_name[name] = d
        self._build_errors()
        self._build_services()

    def _safety_allowed(self, t):
        # the compiler only allows safety on primitives (not bearertoken) and containers of them
        while t["type"] in ("optional", "list", "set"):
            t = t[t["type"]]["itemType"]
        return t["type"] == "primitive" and t["primitive"] != "BEARERTOKEN"

    def _strip_forward(self, t, idx):
        """Replaces references to types not yet defined (index >= idx) by a string."""
        k = t["type"]
        if k == "reference":
            n = t["reference"]["name"]
            if n not in self.by_name:
                return prim("STRING")
            return t
        if k in ("optional", "list", "set"):
            inner = self._strip_forward(t[k]["itemType"], idx)
            if k == "optional" and self.is_optional(inner):
                inner = prim("STRING")
            return {"type": k, k: {"itemType": inner}}
        if k == "map":
            return map_(t["map"]["keyType"], self._strip_forward(t["map"]["valueType"], idx))
        return t

    def _build_errors(self):
        r = self.r
        for i in range(self.p.errors):
            name = self.fresh_type_name()
            names = self.member_names(r.choice([0, 1, 2, 4]), "camel")
            fs = [field(n, r.choice(self.types).ref() if (self.types and r.random() < 0.3) else self.type_expr(len(self.types), 1)) for n in names]
            k = r.randrange(len(fs) + 1)
            pkg = r.choice(self.p.packages)
            self.errors.append(error(name, pkg, upper_camel(r.sample(WORDS, 1)),
                                     r.choice(["INVALID_ARGUMENT", "NOT_FOUND", "CONFLICT", "INTERNAL", "CUSTOM_CLIENT", "PERMISSION_DENIED"]),
                                     fs[:k], fs[k:]))
            # errors are objects on the wire (safe args first): usable by the value model
            d = TDef("object", name, pkg)
            d.fields = [(f["fieldName"], f["type"], None) for f in fs]
            d.is_error = True
            d.n_safe = k
            self.error_defs.append(d)
            self.by_name[name] = d

    def add_error(self, name, pkg, namespace, code, safe_fields, unsafe_fields):
        """A hand-written error definition (same bookkeeping as `_build_errors`)."""
        fs = [field(n, t) for n, t in safe_fields] + [field(n, t) for n, t in unsafe_fields]
        self.errors.append(error(name, pkg, namespace, code, fs[:len(safe_fields)], fs[len(safe_fields):]))
        d = TDef("object", name, pkg)
        d.fields = [(f["fieldName"], f["type"], None) for f in fs]
        d.is_error = True
        d.n_safe = len(safe_fields)
        self.error_defs.append(d)
        self.by_name[name] = d
        self.used_names.add(name.lower())

    # ---- services
    def param_type(self, kind):
        """Types legal for path / header / query parameters."""
        r = self.r
        plain = [t for t in self.types if self.is_keyable(t)]
        def base():
            if plain and r.random() < 0.4:
                return r.choice(plain).ref()
            return prim(r.choice(PRIM_SCALARS if kind != "path" else [p for p in PRIM_SCALARS if p != "BEARERTOKEN"]))
        if kind == "path":
            return base()
        x = r.random()
        if x < 0.3:
            return opt(base())
        if kind == "query" and x < 0.45:
            return lst(base())
        if kind == "query" and x < 0.55:
            b = base()
            # set<double> query parameters are a pinned finding (C03-1): not drawn at random
            if self._is_double(b):
                b = prim("STRING")
            return set_(b)
        return base()

    def _is_double(self, t):
        while t["type"] == "reference" and self.by_name[t["reference"]["name"]].kind == "alias":
            t = self.by_name[t["reference"]["name"]].alias
        return t["type"] == "primitive" and t["primitive"] == "DOUBLE"

    def _build_services(self):
        r = self.r
        for si in range(self.p.services):
            sname = self.fresh_type_name() + "Service"
            pkg = r.choice(self.p.packages)
            eps, ep_names = [], set()
            for ei in range(r.choice([1, 3, 5, 8])):
                ename = None
                while ename is None or ename.lower() in ep_names:
                    w = [r.choice(KEYWORDS)] if (self.p.hostile_names and r.random() < 0.15) else r.sample(WORDS, r.choice([1, 2]))
                    ename = camel(w)
                ep_names.add(ename.lower())
                method = "POST" if self.p.body_bias else r.choice(["GET", "POST", "PUT", "DELETE"])
                n_args = r.choice([0, 1, 2, 3, 5])
                anames = self.member_names(n_args, "camel")
                args, path = [], "/" + camel(r.sample(WORDS, 1)) + str(si) + "/" + ename.lower() + str(ei)
                has_body = False
                hdr_ids = set()
                query_ids = set()
                for an in anames:
                    kinds = ["path", "query", "query", "header"]
                    if method in ("POST", "PUT") and not has_body:
                        kinds.append("body")
                        kinds.append("body")
                    kind = r.choice(kinds)
                    markers, tags, safety = [], [], None
                    x = r.random()
                    if kind == "body":
                        has_body = True
                        t = self.body_type()
                    else:
                        t = self.param_type(kind)
                    # binary arguments carrying a safety marker do not compile (the stream type is
                    # not serializable); whether the compiler accepts that is doubtful -> not generated
                    bin_arg = self._is_binary(t) or (t["type"] == "optional" and self._is_binary(t["optional"]["itemType"]))
                    if bin_arg:
                        pass
                    elif x < 0.2 and self._arg_safety_allowed(t):
                        safety = r.choice(SAFETIES)
                    elif x < 0.28:
                        markers = [SAFE_MARKER]
                    elif x < 0.34:
                        tags = ["safe"]
                    elif x < 0.41:
                        tags = [r.choice(NOISE_TAGS)]
                    elif x < 0.45:
                        markers = [r.choice(NOISE_MARKERS)]
                    pid = None
                    if kind == "path":
                        path += "/{" + an + "}"
                        if r.random() < 0.3:
                            path += "/" + r.choice(WORDS)
                    elif kind == "query":
                        pid = r.choice([an, camel(r.sample(WORDS, 2)), "-".join(r.sample(WORDS, 2)), "_".join(r.sample(WORDS, 2))])
                        if pid in query_ids:
                            pid = an          # query parameter ids are unique within an endpoint (argument names are)
                        while pid in query_ids:
                            pid += "Q"
                        query_ids.add(pid)
                    elif kind == "header":
                        pid = None
                        while pid is None or pid.lower() in hdr_ids or pid.lower() in ("authorization", "cookie", "accept", "content-type", "content-length"):
                            pid = "-".join(w.capitalize() for w in r.sample(WORDS, 2))
                        hdr_ids.add(pid.lower())
                    args.append(arg(an, t, kind, pid, safety, markers, tags))
                returns = None
                x = r.random()
                if x < 0.6:
                    returns = self.body_type()
                auth = r.choice([None, None, "header", "SOME_COOKIE"])
                tags = []
                if r.random() < 0.1:
                    tags.append("server-request-context")
                if has_body and r.random() < self.p.limit_bias:
                    tags.append("server-limit-request-size: %s" % r.choice(["100b", "2kb", "1 MiB", "5mb"]))
                if r.random() < 0.5:
                    r.shuffle(args)      # declaration order is independent of the order in the path template
                eps.append(endpoint(ename, method, path, args, returns, auth, tags, "do not use" if r.random() < 0.05 else None))
            self.services.append(service(sname, pkg, eps))

    def _arg_safety_allowed(self, t):
        return self._safety_allowed(t)

    def body_type(self):
        r = self.r
        x = r.random()
        if self.types and x < 0.5:
            t = r.choice(self.types).ref()
        elif x < 0.6 and self.p.any_binary:
            t = prim("BINARY")
        else:
            t = self.scalar()
        if self._is_binary(t) and self._declared_safe_alias(t):
            # a streaming binary body whose alias type is declared SAFE does not compile (known finding
            # C03-safe-binary-body, pinned in the C03 check): not drawn at random
            t = prim("BINARY")
        y = r.random()
        if y < 0.15 and not self.is_optional(t):
            return opt(t)
        if y < 0.25 and not self._is_binary(t):
            return lst(t)
        if y < 0.3 and not self._is_binary(t):
            return map_(prim("STRING"), t)
        return t

    def _declared_safe_alias(self, t):
        while True:
            if t["type"] == "reference" and self.by_name[t["reference"]["name"]].kind == "alias":
                d = self.by_name[t["reference"]["name"]]
                if d.safety == "SAFE":
                    return True
                t = d.alias
            elif t["type"] == "external":
                t = t["external"]["fallback"]
            else:
                return False

    def _is_binary(self, t):
        # as the generator sees it: through aliases and through the fallback of external types
        while True:
            if t["type"] == "reference" and self.by_name[t["reference"]["name"]].kind == "alias":
                t = self.by_name[t["reference"]["name"]].alias
            elif t["type"] == "external":
                t = t["external"]["fallback"]
            else:
                break
        return t["type"] == "primitive" and t["primitive"] == "BINARY"

    def ir(self, shuffle_seed=None):
        types = [t.to_ir() for t in self.types]
        services = [dict(s) for s in self.services]
        errors = list(self.errors)
        if shuffle_seed is not None:
            rr = random.Random(shuffle_seed)
            rr.shuffle(types)
            rr.shuffle(errors)
            services = [dict(s, endpoints=[dict(e, args=rr.sample(e["args"], len(e["args"]))) for e in rr.sample(s["endpoints"], len(s["endpoints"]))])
                        for s in services]
            rr.shuffle(services)
        return definition(types, services, errors)


def layout_sensitive_types(pkg="com.verif.lab"):
    """Double-bearing unions / objects whose Rust enums have layouts in which the discriminant is not the first byte
    (niche-encoded: one large variant plus small ones, boxed recursion, nested unions). Appended to the first `laws`
    lab of every run so that comparison code that peeks at raw bytes is always exercised on such layouts."""
    D, S = prim("DOUBLE"), prim("STRING")
    def td(kind, name, fields):
        d = TDef(kind, name, pkg)
        d.fields = [(n, t, None) for n, t in fields]
        return d
    r_ = lambda n: ref(n, pkg)
    def enum_(name, values):
        d = TDef("enum", name, pkg)
        d.values = values
        return d
    return [
        td("union", "PinLeafy", [("inner", lst(r_("PinRatioKind"))), ("text", S)]),
        td("union", "PinRatioKind", [("count", r_("PinLeafy")), ("ratio", D)]),
        td("union", "PinDeep", [("next", opt(r_("PinDeep"))), ("value", D)]),
        td("object", "PinBigObj", [("a", S), ("b", lst(D)), ("c", map_(S, S)), ("d", opt(D))]),
        td("union", "PinBig", [("rec", r_("PinBigObj")), ("small", D), ("again", opt(r_("PinBig")))]),
        td("union", "PinSolo", [("only", D)]),
        td("union", "PinTwo", [("a", D), ("b", S)]),
        td("union", "PinMixed", [("a", opt(D)), ("b", lst(D)), ("c", set_(S)), ("d", r_("PinTwo")), ("e", map_(S, D))]),
        td("union", "PinBoxedOnly", [("self", opt(r_("PinBoxedOnly"))), ("values", lst(D))]),
        td("union", "PinFlag", [("flag", prim("BOOLEAN")), ("num", D), ("nested", r_("PinSolo"))]),
        # the shape of the original witness: a wide object variant with niches (an enum field, a map keyed by doubles)
        # beside small variants, no Unknown variant in the exhaustive configuration
        enum_("PinColor", ["RED", "GREEN", "BLUE"]),
        td("object", "PinInnerObj", [("label", prim("DATETIME")), ("index", prim("INTEGER"))]),
        td("object", "PinWide", [("flagRed", map_(D, lst(S))), ("where", r_("PinColor")), ("state", r_("PinInnerObj"))]),
        td("union", "PinNew", [("right", prim("SAFELONG")), ("mod", r_("PinWide")), ("info", set_(S))]),
        td("union", "PinNewer", [("num", prim("INTEGER")), ("wide", r_("PinWide")), ("names", lst(S)), ("ratio", D)]),
    ]


def regression_wire_types(pkg="com.verif.lab"):
    """Shapes that seeded changes of C02 / C10 needed in order to show (seeded/*/meta.json `needs_to_manifest`): appended to
    the first labs of every C02 / C10 run so that their detection does not depend on the random draw."""
    D, S, I = prim("DOUBLE"), prim("STRING"), prim("INTEGER")
    def td(kind, name, fields):
        d = TDef(kind, name, pkg)
        d.fields = [(n, t, None) for n, t in fields]
        return d
    def al(name, t):
        d = TDef("alias", name, pkg)
        d.alias = t
        return d
    def en(name, values, deprecated=()):
        d = TDef("enum", name, pkg)
        d.values = list(values)
        d.deprecated = set(deprecated)
        return d
    r_ = lambda n: ref(n, pkg)
    return [
        # alias chains onto optionals / collections, as object fields (C02-r3m2) and as union payloads
        al("RwMaybeText", opt(S)), al("RwMaybeText2", r_("RwMaybeText")), al("RwNums", lst(I)), al("RwNums2", r_("RwNums")), al("RwNums3", r_("RwNums2")),
        al("RwNames", set_(S)), al("RwNames2", r_("RwNames")), al("RwCounts", map_(S, I)), al("RwCounts2", r_("RwCounts")),
        td("object", "RwAliasChains", [("name", S), ("maybe", r_("RwMaybeText2")), ("nums", r_("RwNums3")), ("names", r_("RwNames2")), ("counts", r_("RwCounts2"))]),
        td("union", "RwChainUnion", [("maybe", r_("RwMaybeText2")), ("nums", r_("RwNums2")), ("plain", S)]),
        # keyword and oddly cased member names (C02-r5m2 and friends)
        td("object", "RwKeywords", [("type", S), ("ref", opt(S)), ("match", lst(I)), ("self", opt(I)), ("fooBar2D", S), ("x-y", opt(S)), ("a_b", opt(I))]),
        td("union", "RwKeywordUnion", [("match", S), ("fooBar", I), ("xRay", opt(S))]),
        # enum values whose case conversion is not the identity (C02-r3m1, C10-m1, C10-r2m1), deprecated ones (C10-r4m1), letters up to Z (C10-r4m2)
        en("RwProtocol", ["HTTP_2", "TLS_1_2", "V2_API", "SELF", "X9", "ZERO_Z", "A"], deprecated=["TLS_1_2", "A"]),
        td("object", "RwEnumHolder", [("proto", r_("RwProtocol")), ("protos", set_(r_("RwProtocol"))), ("byProto", map_(r_("RwProtocol"), S))]),
        # externals with container fallbacks (C02-m2), empty binary / any holding null (C01-r7m1 family)
        td("object", "RwExternals", [("ext", external("RwExt", "java.ext", lst(S))), ("extOpt", external("RwExtOpt", "java.ext", opt(I))), ("blob", prim("BINARY")), ("anything", prim("ANY")), ("maybeBlob", opt(prim("BINARY")))]),
        # a wide object (> 12 fields)
        td("object", "RwWide", [("f%02d" % k, opt(I) if k % 3 else S) for k in range(15)]),
    ]


def regression_compile_definition(pkg="com.verif.pin"):
    """Shapes that seeded changes of C03 needed in order to show; compiled as one pinned C03 case in every run."""
    D, S, I = prim("DOUBLE"), prim("STRING"), prim("INTEGER")
    L, R = pkg + ".left.api", pkg + ".right.api"
    types = [
        # packages that diverge and re-converge, same simple names on both sides (C03-m2, C02-r7m2)
        obj("Customer", L, [field("name", S)]), obj("Customer", R, [field("accountNumber", I)]),
        obj("Invoice", L, [field("own", ref("Customer", L)), field("theirs", ref("Customer", R)), field("many", lst(ref("Customer", R)))]),
        union("Party", R, [field("left", ref("Customer", L)), field("right", ref("Customer", R))]),
        # recursion through an optional behind an alias (C03-r2m2)
        alias("NextNode", pkg, opt(ref("Node", pkg))), obj("Node", pkg, [field("value", S), field("next", ref("NextNode", pkg))]),
        # types whose names snake-case to keywords (C03-r3m1)
        enum("Type", pkg, ["A", "B"]), union("Match", pkg, [field("one", S)]), obj("Static", pkg, [field("type", ref("Type", pkg)), field("match", opt(ref("Match", pkg)))]),
        # an optional / collection field called `new` (C03-r5m1), and a required one
        obj("Revision", pkg, [field("old", I), field("new", opt(I))]), obj("Additions", pkg, [field("new", lst(S))]), obj("Fresh", pkg, [field("new", S)]),
        # an external type with a double fallback as set item and map key (C03-r7m2)
        obj("Thresholds", pkg, [field("levels", set_(external("Score", "java.ext", D))), field("byScore", map_(external("Score", "java.ext", D), S))]),
        alias("LevelSet", pkg, set_(external("Score", "java.ext", D))),
    ]
    errors = [error("RevisionConflict", pkg, "Pin", "CONFLICT", [field("old", S)], [field("new", opt(S))])]
    services = [
        # only optional<binary> responses in one service (C03-m1, C03-r2m1), alias of optional<binary> (C04-r7m2)
        service("BlobOnlyService", pkg, [endpoint("maybe", "GET", "/blob/maybe", [], returns=opt(prim("BINARY"))),
                                        endpoint("maybeAgain", "GET", "/blob/again/{id}", [arg("id", S, "path")], returns=opt(prim("BINARY")))]),
        # arguments named like the locals of the generated client / server code (C03-r7m1)
        service("TraceService", pkg, [
            endpoint("trace", "POST", "/trace/{request}", [arg("request", S, "path"), arg("response", opt(S), "query", "response"), arg("path", opt(I), "header", "Path-Id"), arg("body", S, "body")], returns=S),
            endpoint("parts", "GET", "/parts/{runtime}", [arg("runtime", I, "path"), arg("parts", lst(S), "query", "parts"), arg("headers", opt(S), "header", "Headers-Id"), arg("auth", opt(S), "query", "auth")], auth="header"),
        ]),
    ]
    return definition(types, services, errors)

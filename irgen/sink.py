#!/usr/bin/env python3
"""Writes harness/rt/sink-ir.json: the fixed 'kitchen sink' definition that Bed A compiles with the
real generator at build time (every parameter kind, every return class, every safety declaration,
argument names whose Rust spelling differs). Random definitions are Bed B's job."""
import json, os, sys
sys.path.insert(0, os.path.dirname(os.path.abspath(__file__)))
from ir import *

P = "com.verif.sink"
S, I, D, B, SL = prim("STRING"), prim("INTEGER"), prim("DOUBLE"), prim("BOOLEAN"), prim("SAFELONG")

types = [
    enum("Flavor", P, ["SWEET", "SOUR", "DARK_BITTER"]),
    alias("SafeName", P, S, safety="SAFE"),
    alias("PlainName", P, S),
    alias("Count", P, I),
    alias("Ratio", P, D),
    alias("MaybeCount", P, opt(I)),
    alias("Names", P, lst(S)),
    alias("Blob", P, prim("BINARY")),
    obj("Payload", P, [
        field("name", S),
        field("count", I, safety="SAFE"),
        field("ratio", D),
        field("maybe", opt(S)),
        field("items", lst(ref("Item", P))),
        field("byKey", map_(D, S)),
        field("flavor", ref("Flavor", P)),
        field("blob", prim("BINARY")),
        field("big", SL),
        field("when", prim("DATETIME")),
        field("id", prim("UUID")),
        field("nested-thing", opt(ref("Payload", P))),
        field("anything", opt(prim("ANY"))),
    ]),
    obj("Item", P, [field("label", S), field("weight", opt(D)), field("type", opt(S))]),
    obj("SafeItem", P, [field("code", I, safety="SAFE"), field("flavor", ref("Flavor", P))]),
    union("Choice", P, [field("text", S), field("num", D), field("item", ref("Item", P)), field("many", lst(I))]),
]

errors = [
    error("SinkFailure", P, "Sink", "INVALID_ARGUMENT",
          [field("safeCount", I), field("flavor", ref("Flavor", P))],
          [field("secret", S), field("ratio", D), field("items", lst(S)), field("maybe", opt(S))]),
]

eps = [
    endpoint("pathParams", "GET", "/sink/path/{strArg}/lit/{intArg}/{ridArg}", [
        arg("strArg", S, "path"),
        arg("intArg", I, "path", safety="SAFE"),
        arg("ridArg", prim("RID"), "path"),
    ]),
    endpoint("pathMore", "GET", "/sink/more/{dbl}/{flag}/{when}/{uid}/{flavor}/{name}/{long}", [
        arg("dbl", D, "path"),
        arg("flag", B, "path"),
        arg("when", prim("DATETIME"), "path"),
        arg("uid", prim("UUID"), "path"),
        arg("flavor", ref("Flavor", P), "path"),
        arg("name", ref("SafeName", P), "path"),
        arg("long", SL, "path"),
    ], returns=S),
    endpoint("queryParams", "GET", "/sink/query", [
        arg("text", S, "query", "text"),
        arg("maybeNum", opt(I), "query", "maybe-num"),
        arg("strList", lst(S), "query", "strList"),
        arg("strSet", set_(S), "query", "str_set"),
        arg("flag", B, "query", "flag", safety="SAFE"),
        arg("dbl", D, "query", "dbl"),
        arg("uid", opt(prim("UUID")), "query", "uid"),
        arg("nums", lst(I), "query", "nums", safety="SAFE"),
        arg("flavors", set_(ref("Flavor", P)), "query", "flavors"),
        arg("aliasOpt", ref("MaybeCount", P), "query", "aliasOpt"),
        arg("aliasList", ref("Names", P), "query", "aliasList"),
        arg("when", opt(prim("DATETIME")), "query", "when"),
    ], returns=lst(S)),
    endpoint("headers", "GET", "/sink/headers", [
        arg("strHeader", S, "header", "Str-Header"),
        arg("maybeInt", opt(I), "header", "Maybe-Int", safety="SAFE"),
        arg("ridHeader", prim("RID"), "header", "Rid-Header"),
        arg("flavorHeader", opt(ref("Flavor", P)), "header", "Flavor-Header"),
        arg("tokenHeader", opt(prim("BEARERTOKEN")), "header", "Token-Header"),
        arg("aliasHeader", ref("MaybeCount", P), "header", "Alias-Header"),
        arg("dblHeader", opt(D), "header", "Dbl-Header"),
    ], returns=map_(S, S)),
    endpoint("jsonBody", "POST", "/sink/json", [arg("body", ref("Payload", P), "body")], returns=ref("Payload", P)),
    endpoint("optBody", "POST", "/sink/optBody", [arg("body", opt(ref("Item", P)), "body")], returns=opt(ref("Item", P))),
    endpoint("listBody", "PUT", "/sink/listBody", [arg("items", lst(D), "body")], returns=set_(D)),
    endpoint("choiceBody", "POST", "/sink/choice", [arg("choice", ref("Choice", P), "body")], returns=ref("Choice", P)),
    endpoint("smallBody", "POST", "/sink/small", [arg("text", S, "body")], returns=S,
             tags=["server-limit-request-size: 32b"]),
    endpoint("binaryBody", "POST", "/sink/bin", [arg("data", prim("BINARY"), "body")], returns=prim("BINARY")),
    endpoint("aliasBinaryBody", "POST", "/sink/aliasBin", [arg("data", ref("Blob", P), "body")], returns=opt(prim("BINARY"))),
    endpoint("optBinaryReturn", "GET", "/sink/optBin/{present}", [arg("present", B, "path")], returns=opt(prim("BINARY"))),
    endpoint("mapReturn", "GET", "/sink/map/{n}", [arg("n", I, "path")], returns=map_(S, D)),
    endpoint("unitReturn", "DELETE", "/sink/unit/{n}", [arg("n", I, "path")]),
    endpoint("optReturn", "GET", "/sink/opt/{n}", [arg("n", I, "path")], returns=opt(S)),
    endpoint("aliasOptReturn", "GET", "/sink/aliasOpt/{n}", [arg("n", I, "path")], returns=ref("MaybeCount", P)),
    endpoint("headerAuth", "GET", "/sink/headerAuth/{what}", [arg("what", S, "path")], returns=S, auth="header"),
    endpoint("cookieAuth", "POST", "/sink/cookieAuth", [arg("body", I, "body", safety="SAFE")], returns=I, auth="SINK_TOKEN"),
    endpoint("safeMix", "POST", "/sink/mix/{safePath}/{unsafePath}/{dnlPath}/{type}", [
        arg("safePath", S, "path", safety="SAFE"),
        arg("unsafePath", S, "path", safety="UNSAFE"),
        arg("dnlPath", S, "path", safety="DO_NOT_LOG"),
        arg("type", I, "path", safety="SAFE"),
        arg("legacySafeQuery", S, "query", "legacySafeQuery", markers=[SAFE_MARKER]),
        arg("taggedSafeQuery", opt(S), "query", "taggedSafeQuery", tags=["safe"]),
        arg("plainQuery", S, "query", "plainQuery"),
        arg("safeAliasQuery", ref("SafeName", P), "query", "safeAliasQuery"),
        arg("plainAliasQuery", ref("PlainName", P), "query", "plainAliasQuery"),
        arg("enumQuery", ref("Flavor", P), "query", "enumQuery"),
        arg("safeHeader", S, "header", "Safe-Header", safety="SAFE"),
        arg("unsafeHeader", S, "header", "Unsafe-Header"),
        arg("match", opt(I), "header", "Match-Header", safety="SAFE"),
        arg("safeBody", ref("SafeItem", P), "body"),
    ], returns=S, auth="header"),
    endpoint("unsafeBody", "POST", "/sink/unsafeBody/{safeId}", [
        arg("safeId", I, "path", safety="SAFE"),
        arg("secretBody", ref("Item", P), "body"),
    ], auth="MIX_COOKIE"),
    endpoint("contextEndpoint", "GET", "/sink/context", [arg("maybe", opt(S), "query", "maybe")],
             tags=["server-request-context"]),
    endpoint("fails", "GET", "/sink/fails/{n}", [arg("n", I, "path")], returns=I),
]

ir = definition(types, [service("SinkService", P, eps)], errors)
out = os.path.join(os.path.dirname(os.path.abspath(__file__)), "..", "harness", "rt", "sink-ir.json")
with open(out, "w") as f:
    json.dump(ir, f, indent=1)
print("wrote", os.path.normpath(out), len(eps), "endpoints")

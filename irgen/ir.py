"""Builders for Conjure IR (version 1) JSON documents."""

PRIMS = ["STRING", "DATETIME", "INTEGER", "DOUBLE", "SAFELONG", "BINARY", "ANY", "BOOLEAN", "UUID", "RID", "BEARERTOKEN"]


def prim(p):
    assert p in PRIMS, p
    return {"type": "primitive", "primitive": p}


def opt(t):
    return {"type": "optional", "optional": {"itemType": t}}


def lst(t):
    return {"type": "list", "list": {"itemType": t}}


def set_(t):
    return {"type": "set", "set": {"itemType": t}}


def map_(k, v):
    return {"type": "map", "map": {"keyType": k, "valueType": v}}


def tname(name, package):
    return {"name": name, "package": package}


def ref(name, package):
    return {"type": "reference", "reference": tname(name, package)}


def external(name, package, fallback, safety=None):
    e = {"externalReference": tname(name, package), "fallback": fallback}
    if safety:
        e["safety"] = safety
    return {"type": "external", "external": e}


def field(name, t, safety=None, deprecated=None, docs=None):
    f = {"fieldName": name, "type": t}
    if safety:
        f["safety"] = safety
    if deprecated:
        f["deprecated"] = deprecated
    if docs:
        f["docs"] = docs
    return f


def obj(name, package, fields, docs=None):
    o = {"typeName": tname(name, package), "fields": fields}
    if docs:
        o["docs"] = docs
    return {"type": "object", "object": o}


def alias(name, package, t, safety=None):
    a = {"typeName": tname(name, package), "alias": t}
    if safety:
        a["safety"] = safety
    return {"type": "alias", "alias": a}


def enum(name, package, values):
    return {"type": "enum", "enum": {"typeName": tname(name, package),
                                     "values": [{"value": v} if isinstance(v, str) else v for v in values]}}


def union(name, package, members):
    return {"type": "union", "union": {"typeName": tname(name, package), "union": members}}


def error(name, package, namespace, code, safe_args, unsafe_args):
    return {"errorName": tname(name, package), "namespace": namespace, "code": code,
            "safeArgs": safe_args, "unsafeArgs": unsafe_args}


SAFE_MARKER = external("Safe", "com.palantir.logsafe", prim("ANY"))
# look-alikes that are *not* the legacy safe tag / marker
NOISE_TAGS = ["unsafe", "Safe", "SAFE", "safe ", "log-safe", "safety", "not-safe", "incubating", "safe-to-retry"]
NOISE_MARKERS = [external("Unsafe", "com.palantir.logsafe", prim("ANY")), external("Safe", "com.example.logsafe", prim("ANY")),
                 external("SafeArg", "com.palantir.logsafe", prim("ANY")), external("safe", "com.palantir.logsafe", prim("ANY"))]


def arg(name, t, kind, param_id=None, safety=None, markers=None, tags=None):
    if kind == "body":
        pt = {"type": "body", "body": {}}
    elif kind == "path":
        pt = {"type": "path", "path": {}}
    elif kind == "query":
        pt = {"type": "query", "query": {"paramId": param_id or name}}
    elif kind == "header":
        pt = {"type": "header", "header": {"paramId": param_id or name}}
    else:
        raise ValueError(kind)
    a = {"argName": name, "type": t, "paramType": pt, "markers": markers or [], "tags": tags or []}
    if safety:
        a["safety"] = safety
    return a


def endpoint(name, method, path, args=(), returns=None, auth=None, tags=None, deprecated=None, markers=None):
    e = {"endpointName": name, "httpMethod": method, "httpPath": path, "args": list(args),
         "markers": markers or [], "tags": tags or []}
    if returns is not None:
        e["returns"] = returns
    if auth == "header":
        e["auth"] = {"type": "header", "header": {}}
    elif auth:
        e["auth"] = {"type": "cookie", "cookie": {"cookieName": auth}}
    if deprecated:
        e["deprecated"] = deprecated
    return e


def service(name, package, endpoints, docs=None):
    s = {"serviceName": tname(name, package), "endpoints": endpoints}
    if docs:
        s["docs"] = docs
    return s


def definition(types=(), services=(), errors=()):
    return {"version": 1, "errors": list(errors), "types": list(types), "services": list(services), "extensions": {}}

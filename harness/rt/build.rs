//! Runs the real generator (library entry point of /repo/conjure-codegen) on the fixed sink
//! definition so Bed A exercises generated clients and server traits.
use std::env;
use std::path::PathBuf;

fn main() {
    let input = "sink-ir.json";
    println!("cargo:rerun-if-changed={}", input);
    let output = PathBuf::from(env::var_os("OUT_DIR").unwrap()).join("sink");
    if output.exists() {
        std::fs::remove_dir_all(&output).unwrap();
    }
    conjure_codegen::Config::new()
        .strip_prefix("com.verif".to_string())
        .generate_files(input, output)
        .unwrap();
}

//! C07 – parameter values cannot alter the request URI structure and decode back exactly.
//!
//! Observation points: the URI string a client hands to the transport (UriBuilder directly,
//! generated clients, macro clients) and the values the real server-side decoders return for it.
//! Oracle: an independent RFC 3986 splitter + percent decoder (vcore::models), never `http::Uri`.
use crate::ctx::{guarded, Ctx};
use crate::gen::sink::*;
use crate::hand;
use crate::svc::*;
use conjure_http::client::{AsyncService, Service};
use conjure_http::private::UriBuilder;
use conjure_http::server::conjure::{FromPlainDecoder, FromPlainSeqDecoder};
use conjure_http::server::ConjureRuntime;
use conjure_http::PathParams;
use conjure_object::ToPlain;
use labrt::{block_on, AsyncLoopback, Loopback};
use serde_json::json;
use std::sync::Arc;
use vcore::models::{pct_decode, split_uri};
use vcore::rng::fnv;
use vcore::text::*;
use vcore::{Report, Rng};

pub const KNOWN_TOO_LONG: &str = "builder:panic:InvalidUri(TooLong):rendered-length>65534";

#[derive(Clone, Debug)]
enum Seg {
    Lit(String),
    Param(String),
}

/// Expected shape of a URI: path segments in order and (key, value) query pairs in order.
#[derive(Clone, Debug)]
struct Shape {
    segs: Vec<Seg>,
    query: Vec<(String, String)>,
}

fn char_class(s: &str) -> String {
    let mut f = String::new();
    for (c, pat) in [('%', "%"), ('/', "/"), ('+', "+"), ('&', "&"), ('#', "#"), ('?', "?"), ('=', "="), (' ', " "), (';', ";"), ('.', ".."), ('\\', "\\")] {
        if s.contains(pat) {
            f.push(c);
        }
    }
    if s.is_empty() {
        f.push('e');
    }
    if s.bytes().any(|b| b < 0x20 || b == 0x7f) {
        f.push('c');
    }
    if !s.is_ascii() {
        f.push('U');
    }
    f
}

/// Checks the rendered URI against the expected shape. Returns the raw (still encoded) parameter
/// segments and query values for the server-side half.
fn check_shape(uri: &str, shape: &Shape) -> Result<(Vec<String>, Vec<(String, String)>), (String, String)> {
    let sp = split_uri(uri).map_err(|e| ("not-a-valid-uri".to_string(), e))?;
    if sp.segments.len() != shape.segs.len() {
        return Err(("segment-count".into(), format!("{} segments, template has {}", sp.segments.len(), shape.segs.len())));
    }
    let mut raw_params = vec![];
    for (got, want) in sp.segments.iter().zip(&shape.segs) {
        let dec = pct_decode(got).ok_or(("bad-escape-in-path".to_string(), got.to_string()))?;
        match want {
            Seg::Lit(l) => {
                if dec != *l {
                    return Err(("literal-segment-altered".into(), format!("{:?} vs {:?}", dec, l)));
                }
            }
            Seg::Param(v) => {
                if dec != *v {
                    return Err(("path-value-altered".into(), format!("{:?} decodes to {:?}, value {:?}", got, dec, v)));
                }
                raw_params.push(got.to_string());
            }
        }
    }
    let pairs = sp.query.unwrap_or_default();
    if pairs.len() != shape.query.len() {
        return Err(("query-pair-count".into(), format!("{} pairs, {} values supplied", pairs.len(), shape.query.len())));
    }
    let mut raw_q = vec![];
    for ((k, v), (wk, wv)) in pairs.iter().zip(&shape.query) {
        let dk = pct_decode(k).ok_or(("bad-escape-in-query".to_string(), k.to_string()))?;
        let v = v.ok_or(("query-pair-without-equals".to_string(), k.to_string()))?;
        let dv = pct_decode(v).ok_or(("bad-escape-in-query".to_string(), v.to_string()))?;
        if dk != *wk {
            return Err(("query-key-altered".into(), format!("{:?} vs {:?}", dk, wk)));
        }
        if v.contains('+') {
            return Err(("raw-plus-in-query-value".into(), v.to_string()));
        }
        if dv != *wv {
            return Err(("query-value-altered".into(), format!("{:?} decodes to {:?}, value {:?}", v, dv, wv)));
        }
        raw_q.push((wk.clone(), v.to_string()));
    }
    Ok((raw_params, raw_q))
}

const KEYS: &[&str] = &["a", "key", "q1", "some-key", "k_2", "Z"];
const LITS: &[&str] = &["api", "v1", "sink", "a.b", "x-y_z", "0"];

struct Built {
    shape: Shape,
    /// parameter names in order (p0, p1, …)
    names: Vec<String>,
    result: Result<String, String>,
}

fn build(shape_ops: &[(u8, String, String)], variant: u64) -> Built {
    // ops: (0 literal, text, _) | (1 path param, value, _) | (2 query, key, value)
    let mut shape = Shape { segs: vec![], query: vec![] };
    let mut names = vec![];
    for (op, a, b) in shape_ops {
        match op {
            0 => {
                for part in a.split('/').filter(|p| !p.is_empty()) {
                    shape.segs.push(Seg::Lit(part.to_string()));
                }
            }
            1 => {
                names.push(format!("p{}", names.len()));
                shape.segs.push(Seg::Param(a.clone()));
            }
            _ => shape.query.push((a.clone(), b.clone())),
        }
    }
    let ops = shape_ops.to_vec();
    let variant = variant;
    let result = guarded(move || {
        let mut b = UriBuilder::new();
        let mut i = 0;
        while i < ops.len() {
            let (op, a, v) = &ops[i];
            match op {
                0 => b.push_literal(a),
                1 => b.push_path_parameter(&a.as_str()),
                _ => {
                    // consecutive pairs with the same key may go through the collection variants
                    let mut j = i;
                    while j < ops.len() && ops[j].0 == 2 && ops[j].1 == *a {
                        j += 1;
                    }
                    let vals: Vec<String> = ops[i..j].iter().map(|o| o.2.clone()).collect();
                    match variant % 4 {
                        1 => b.push_list_query_parameter(a, &vals),
                        2 if vals.windows(2).all(|w| w[0] < w[1]) => {
                            let set: std::collections::BTreeSet<String> = vals.iter().cloned().collect();
                            b.push_set_query_parameter(a, &set)
                        }
                        3 if vals.len() == 1 => {
                            b.push_optional_query_parameter::<String>(a, &None);
                            b.push_optional_query_parameter(a, &Some(v.clone()))
                        }
                        _ => {
                            for x in &vals {
                                b.push_query_parameter(a, &x.as_str());
                            }
                        }
                    }
                    i = j;
                    continue;
                }
            }
            i += 1;
        }
        b.build().to_string()
    });
    Built { shape, names, result }
}

/// Server half: the real decoders must give the original values back for the raw pieces.
fn server_decode(uri: &str, names: &[String], raw_params: &[String], shape: &Shape) -> Result<(), (String, String)> {
    let runtime = ConjureRuntime::new();
    let parsed: http::Uri = uri.parse().map_err(|e| ("http-uri-reparse-failed".to_string(), format!("{}", e)))?;
    let mut req = http::Request::new(());
    *req.uri_mut() = parsed;
    let mut pp = PathParams::new();
    for (n, raw) in names.iter().zip(raw_params) {
        pp.insert(n.clone(), raw.clone());
    }
    req.extensions_mut().insert(pp);
    let (parts, _) = req.into_parts();
    let wanted: Vec<&String> = shape.segs.iter().filter_map(|s| if let Seg::Param(v) = s { Some(v) } else { None }).collect();
    for (n, want) in names.iter().zip(wanted) {
        let got = guarded(|| conjure_http::private::path_param::<String, FromPlainDecoder>(&runtime, &parts, n, n))
            .map_err(|p| ("server-path-decode-panic".to_string(), p))?
            .map_err(|e| ("server-path-decode-error".to_string(), format!("{:?}", e)))?;
        if got != **want {
            return Err(("server-path-value-differs".into(), format!("{:?} vs {:?}", got, want)));
        }
    }
    let q = guarded(|| {
        let q = conjure_http::private::parse_query_params(&parts);
        let mut keys: Vec<&String> = shape.query.iter().map(|(k, _)| k).collect();
        keys.sort();
        keys.dedup();
        let mut out = vec![];
        for k in keys {
            let got = conjure_http::private::query_param::<Vec<String>, FromPlainSeqDecoder<String>>(&runtime, &q, k, k);
            out.push((k.clone(), got));
        }
        out
    })
    .map_err(|p| ("server-query-decode-panic".to_string(), p))?;
    for (k, got) in q {
        let want: Vec<&String> = shape.query.iter().filter(|(kk, _)| *kk == k).map(|(_, v)| v).collect();
        match got {
            Err(e) => return Err(("server-query-decode-error".into(), format!("{:?}", e))),
            Ok(got) => {
                if got.iter().collect::<Vec<_>>() != want {
                    return Err(("server-query-values-differ".into(), format!("{:?} vs {:?}", got, want)));
                }
            }
        }
    }
    Ok(())
}

fn judge_built(rep: &mut Report, sub: &str, seed: u64, ops: &[(u8, String, String)], sig_extra: &str) {
    let b = build(ops, fnv(sig_extra) ^ seed);
    let values: Vec<&String> = ops.iter().filter(|o| o.0 != 0).map(|o| if o.0 == 1 { &o.1 } else { &o.2 }).collect();
    let classes: Vec<String> = values.iter().map(|v| char_class(v)).collect();
    let raw_len: usize = ops.iter().map(|o| o.1.len() + o.2.len() + 2).sum();
    rep.evaluations += 1;
    rep.distinct.insert(fnv(&format!("{}|{}|{}", sub, sig_extra, classes.join(","))));
    let show = |s: &String| if s.len() > 80 { format!("{}… ({} bytes)", s.chars().take(60).collect::<String>(), s.len()) } else { s.clone() };
    let detail = |what: &str, info: String| json!({"ops": ops.iter().map(|o| json!([o.0, show(&o.1), show(&o.2)])).collect::<Vec<_>>(), "what": what, "info": info});
    match &b.result {
        Err(p) => {
            if p.contains("TooLong") && raw_len > 65_534 {
                rep.cell("builder/panic-too-long(known)");
                rep.violation(sub, seed, KNOWN_TOO_LONG, detail("panic", p.clone()));
            } else {
                rep.violation(sub, seed, "builder:panic", detail("panic", p.clone()));
            }
        }
        Ok(uri) => {
            rep.cell(&format!("{}/built", sub));
            match check_shape(uri, &b.shape) {
                Err((what, info)) => rep.violation(sub, seed, format!("builder:{}", what), detail(&what, format!("{} in {}", info, show(uri)))),
                Ok((raw_params, _)) => {
                    if let Err((what, info)) = server_decode(uri, &b.names, &raw_params, &b.shape) {
                        rep.violation(sub, seed, format!("roundtrip:{}", what), detail(&what, format!("{} in {}", info, show(uri))));
                    }
                }
            }
        }
    }
}

fn random_ops(r: &mut Rng, val: &mut dyn FnMut(&mut Rng) -> String) -> Vec<(u8, String, String)> {
    let mut ops = vec![];
    let nseg = 1 + r.below(5);
    let mut need_lit = true;
    for _ in 0..nseg {
        if need_lit || r.bool() {
            let n = 1 + r.below(2);
            let lit: String = (0..n).map(|_| format!("/{}", r.pick(LITS))).collect();
            ops.push((0, lit, String::new()));
            need_lit = false;
        } else {
            ops.push((1, val(r), String::new()));
        }
    }
    for _ in 0..r.below(4) {
        ops.push((1, val(r), String::new()));
        if r.bool() {
            ops.push((0, format!("/{}", r.pick(LITS)), String::new()));
        }
    }
    for _ in 0..r.below(4) {
        let key = r.pick(KEYS).to_string();
        let run = if r.chance(1, 3) { 2 + r.below(3) } else { 1 };
        for _ in 0..run {
            ops.push((2, key.clone(), val(r)));
        }
    }
    ops
}

fn client_shape(req: &Req) -> Option<Shape> {
    let lit = |s: &str| Seg::Lit(s.to_string());
    Some(match req {
        Req::PathParams { s, i, rid } => Shape {
            segs: vec![lit("sink"), lit("path"), Seg::Param(s.clone()), lit("lit"), Seg::Param(i.to_string()), Seg::Param(rid.as_str().to_string())],
            query: vec![],
        },
        Req::PathMore { dbl, flag, when, uid, flavor, name, long } => Shape {
            segs: vec![lit("sink"), lit("more"), Seg::Param(dbl.to_plain()), Seg::Param(flag.to_string()), Seg::Param(when.to_plain()), Seg::Param(uid.to_string()),
                Seg::Param(flavor.to_string()), Seg::Param(name.0.clone()), Seg::Param(long.to_string())],
            query: vec![],
        },
        Req::QueryParams { text, maybe_num, str_list, str_set, flag, dbl, uid, nums, flavors, alias_opt, alias_list, when } => {
            let mut q = vec![("text".to_string(), text.clone())];
            if let Some(n) = maybe_num {
                q.push(("maybe-num".into(), n.to_string()));
            }
            q.extend(str_list.iter().map(|s| ("strList".to_string(), s.clone())));
            q.extend(str_set.iter().map(|s| ("str_set".to_string(), s.clone())));
            q.push(("flag".into(), flag.to_string()));
            q.push(("dbl".into(), dbl.to_plain()));
            if let Some(u) = uid {
                q.push(("uid".into(), u.to_string()));
            }
            q.extend(nums.iter().map(|n| ("nums".to_string(), n.to_string())));
            q.extend(flavors.iter().map(|f| ("flavors".to_string(), f.to_string())));
            if let Some(n) = alias_opt.0 {
                q.push(("aliasOpt".into(), n.to_string()));
            }
            q.extend(alias_list.0.iter().map(|s| ("aliasList".to_string(), s.clone())));
            if let Some(w) = when {
                q.push(("when".into(), w.to_plain()));
            }
            Shape { segs: vec![lit("sink"), lit("query")], query: q }
        }
        Req::SafeMix(m) => {
            let mut q = vec![("legacySafeQuery".to_string(), m.legacy_safe_query.clone())];
            if let Some(t) = &m.tagged_safe_query {
                q.push(("taggedSafeQuery".into(), t.clone()));
            }
            q.push(("plainQuery".into(), m.plain_query.clone()));
            q.push(("safeAliasQuery".into(), m.safe_alias_query.0.clone()));
            q.push(("plainAliasQuery".into(), m.plain_alias_query.0.clone()));
            q.push(("enumQuery".into(), m.enum_query.to_string()));
            Shape {
                segs: vec![lit("sink"), lit("mix"), Seg::Param(m.safe_path.clone()), Seg::Param(m.unsafe_path.clone()), Seg::Param(m.dnl_path.clone()), Seg::Param(m.type_.to_string())],
                query: q,
            }
        }
        Req::HeaderAuth { what, .. } => Shape { segs: vec![lit("sink"), lit("headerAuth"), Seg::Param(what.clone())], query: vec![] },
        _ => return None,
    })
}

fn hand_shape(req: &hand::HReq) -> Option<Shape> {
    let lit = |s: &str| Seg::Lit(s.to_string());
    Some(match req {
        hand::HReq::Paths { p, q } => Shape { segs: vec![lit("hand"), lit("a b"), Seg::Param(p.clone()), lit("c%d"), Seg::Param(q.to_string())], query: vec![] },
        hand::HReq::Query { a, list, c } => {
            let mut q = vec![("k&1".to_string(), a.clone())];
            q.extend(list.iter().map(|s| ("k=2".to_string(), s.clone())));
            q.push(("ключ".into(), c.clone()));
            Shape { segs: vec![lit("hand"), lit("query")], query: q }
        }
        hand::HReq::Body { id, .. } => Shape { segs: vec![lit("hand"), lit("body"), Seg::Param(id.clone())], query: vec![] },
        _ => return None,
    })
}

fn client_case(seed: u64, rep: &mut Report, flavour: &'static str) {
    let mut r = Rng::new(seed);
    let rec = Arc::new(Recorder::default());
    let (uri, shape, endpoint) = if flavour.ends_with("macro") {
        let req = loop {
            let q = hand::HReq::gen(&mut r);
            if hand_shape(&q).is_some() {
                break q;
            }
        };
        let shape = hand_shape(&req).unwrap();
        let h = hand::HandHandler { rec };
        let uri = if flavour.starts_with("blocking") {
            let lb = Loopback::new(hand::sync_endpoints(h), r.u64());
            let c = hand::HandApiClient::new(&lb);
            let _ = guarded(|| hand::invoke_sync(&c, &req));
            lb.last().uri
        } else {
            let lb = AsyncLoopback::new(hand::async_endpoints(h), r.u64());
            let c = hand::AsyncHandApiClient::new(&lb);
            let _ = guarded(|| block_on(hand::invoke_async(&c, &req)));
            lb.last().uri
        };
        (uri, shape, req.endpoint())
    } else {
        let req = loop {
            let q = Req::gen(&mut r);
            if client_shape(&q).is_some() {
                break q;
            }
        };
        let shape = client_shape(&req).unwrap();
        let h = Handler { rec };
        let uri = if flavour.starts_with("blocking") {
            let lb = Loopback::new(sync_endpoints(h), r.u64());
            let c = SinkServiceClient::new(&lb);
            let _ = guarded(|| invoke_sync(&c, &req));
            lb.last().uri
        } else {
            let lb = AsyncLoopback::new(async_endpoints(h), r.u64());
            let c = SinkServiceAsyncClient::new(&lb);
            let _ = guarded(|| block_on(invoke_async(&c, &req)));
            lb.last().uri
        };
        (uri, shape, req.endpoint())
    };
    if uri.is_empty() {
        // the client refused before sending (e.g. unrepresentable header): nothing to observe
        rep.cell(&format!("{}/not-sent", flavour));
        return;
    }
    let classes: Vec<String> = shape.segs.iter().filter_map(|s| if let Seg::Param(v) = s { Some(char_class(v)) } else { None }).chain(shape.query.iter().map(|(_, v)| char_class(v))).collect();
    rep.evaluations += 1;
    rep.cell(&format!("{}/{}", flavour, endpoint));
    rep.distinct.insert(fnv(&format!("{}|{}|{}", flavour, endpoint, classes.join(","))));
    rep.sample(6, || json!({"sub": flavour, "case_seed": seed, "endpoint": endpoint, "uri": uri}));
    if let Err((what, info)) = check_shape(&uri, &shape) {
        rep.violation(flavour, seed, format!("client:{}:{}", endpoint, what), json!({"flavour": flavour, "endpoint": endpoint, "uri": uri, "what": what, "info": info}));
    }
}

pub fn run(ctx: &Ctx, report: &mut Report) {
    // exhaustive: every ASCII byte alone, in every parameter position of a fixed template
    ctx.fixed(report, "ascii-exhaustive", |rep| {
        for b in 0u8..128 {
            let v = (b as char).to_string();
            for pos in 0..4 {
                let mut ops = vec![(0u8, "/api/v1".to_string(), String::new())];
                ops.push((1, if pos == 0 { v.clone() } else { "x".into() }, String::new()));
                ops.push((0, "/lit".into(), String::new()));
                ops.push((1, if pos == 1 { v.clone() } else { "y".into() }, String::new()));
                ops.push((2, "a".into(), if pos == 2 { v.clone() } else { "1".into() }));
                ops.push((2, "key".into(), if pos == 3 { v.clone() } else { "2".into() }));
                judge_built(rep, "ascii-exhaustive", (b as u64) * 4 + pos, &ops, &format!("byte{}@{}", b, pos));
            }
        }
        rep.cell_n("exhaustive/ascii-bytes-x-positions", 128 * 4);
    });
    // all ordered pairs of reserved characters, in a path and in a query position
    ctx.fixed(report, "reserved-pairs", |rep| {
        let mut n = 0;
        for (i, a) in RESERVED.iter().enumerate() {
            for (k, b) in RESERVED.iter().enumerate() {
                let v: String = [*a, *b].iter().collect();
                let ops = vec![(0u8, "/api".to_string(), String::new()), (1, v.clone(), String::new()), (1, format!("x{}", v), String::new()), (2, "key".into(), v.clone()), (2, "key".into(), format!("{}x", v))];
                judge_built(rep, "reserved-pairs", (i * 64 + k) as u64, &ops, &format!("pair{}:{}", i, k));
                n += 1;
            }
        }
        rep.cell_n("exhaustive/reserved-pairs", n);
    });
    ctx.cases(report, "builder", ctx.n(60_000, 4_000_000), |seed, rep| {
        let mut r = Rng::new(seed);
        let ops = random_ops(&mut r, &mut |r| match r.below(12) {
            0 => "..".into(),
            1 => ".".into(),
            2 => format!("%{:02X}", r.below(256)),
            3 => r.pick(RESERVED).to_string().repeat(1 + r.below(3)),
            _ => hostile_string(r, 14),
        });
        rep.sample(2, || json!({"sub": "builder", "case_seed": seed, "ops": ops}));
        judge_built(rep, "builder", seed, &ops, "rand");
    });
    // lengths: clearly under the http::Uri limit (must work) and clearly over (known finding)
    ctx.cases(report, "builder-long", ctx.n(60, 600), |seed, rep| {
        let mut r = Rng::new(seed);
        let over = r.chance(1, 4);
        let n = if over { 70_000 + r.below(30_000) } else { 1_000 + r.below(5_000) };
        let ch = *r.pick(&['x', '%', 'é', '/', ' ']);
        let long: String = std::iter::repeat(ch).take(n / ch.len_utf8()).collect();
        let ops = if r.bool() {
            vec![(0u8, "/api".to_string(), String::new()), (1, long, String::new())]
        } else {
            vec![(0u8, "/api".to_string(), String::new()), (2, "key".to_string(), long)]
        };
        judge_built(rep, "builder-long", seed, &ops, if over { "over-limit" } else { "long" });
    });
    // pinned witness of the known finding (DESIGN §6 C07)
    ctx.fixed(report, "pinned-too-long", |rep| {
        let ops = vec![(0u8, "/api".to_string(), String::new()), (1u8, "x".repeat(70_000), String::new())];
        let before = rep.violations.len();
        judge_built(rep, "pinned-too-long", 0, &ops, "pinned");
        if rep.violations.len() > before && rep.violations.last().map(|v| v.sig.as_str()) == Some(KNOWN_TOO_LONG) {
            rep.pinned.insert("C07-uri-too-long-panic".into(), KNOWN_TOO_LONG.into());
        }
    });
    let n = ctx.n(8_000, 400_000);
    ctx.cases(report, "blocking/generated", n, |s, rep| client_case(s, rep, "blocking/generated"));
    ctx.cases(report, "async/generated", n, |s, rep| client_case(s, rep, "async/generated"));
    ctx.cases(report, "blocking/macro", n, |s, rep| client_case(s, rep, "blocking/macro"));
    ctx.cases(report, "async/macro", n, |s, rep| client_case(s, rep, "async/macro"));
    if ctx.replay.is_none() {
        report.floor_cells("client-endpoints", "blocking/", 8);
        report.floor_cells("async-client-endpoints", "async/", 8);
        let d = report.distinct.len() as u64;
        report.floor("distinct-value-classes", 600, d);
    }
    report.notes.push("exhaustive parts: every ASCII byte alone in each of 4 parameter positions; all ordered pairs of the reserved set in path and query positions".into());
    report.notes.push("distinct = (sub-monitor/endpoint, per-position value character classes)".into());
}

//! `Node`: a recursive value type whose variants drive every serde entry point the Conjure
//! serializer/deserializer wrappers override, plus an independent model of its wire form.
use conjure_object::{BearerToken, DateTime, DoubleKey, ResourceIdentifier, SafeLong, Utc, Uuid};
use serde::de::{DeserializeSeed, SeqAccess, Visitor};
use serde::{Deserialize, Deserializer, Serialize, Serializer};
use serde_bytes::ByteBuf;
use std::collections::{BTreeMap, BTreeSet};
use std::fmt;
use vcore::json::J;
use vcore::text::*;
use vcore::Rng;

#[derive(Serialize, Deserialize, Clone, Debug)]
pub enum Node {
    Unit,
    Bool(bool),
    I32(i32),
    I64(i64),
    Safe(SafeLong),
    F64(f64),
    Str(String),
    Bin(ByteBuf),
    Uuid(Uuid),
    Rid(ResourceIdentifier),
    Token(BearerToken),
    Time(DateTime<Utc>),
    Color(Color),
    Opt(Option<Box<Node>>),
    List(Vec<Node>),
    Set(BTreeSet<Node>),
    Struct(Box<Rec>),
    Newtype(Box<Wrap>),
    UnitStruct(Marker),
    TupleStruct(Box<Pair>),
    Tuple(Box<(Node, Node)>),
    TupleVar(Box<Node>, Box<Node>),
    StructVar { x: Box<Node>, y: Option<Box<Node>> },
    Seeded(SeededList),
    MapStr(BTreeMap<String, Node>),
    MapI32(BTreeMap<i32, Node>),
    MapI64(BTreeMap<i64, Node>),
    MapSafe(BTreeMap<SafeLong, Node>),
    MapF64(BTreeMap<DoubleKey, Node>),
    MapBool(BTreeMap<bool, Node>),
    MapUuid(BTreeMap<Uuid, Node>),
    MapRid(BTreeMap<ResourceIdentifier, Node>),
    MapToken(BTreeMap<BearerToken, Node>),
    MapTime(BTreeMap<DateTime<Utc>, Node>),
    MapBin(BTreeMap<ByteBuf, Node>),
    MapColor(BTreeMap<Color, Node>),
    MapWrapKey(BTreeMap<KeyWrap, Node>),
}

/// A named struct (the stand-in for a Conjure object).
#[derive(Serialize, Deserialize, Clone, Debug)]
pub struct Rec {
    pub first: Node,
    #[serde(rename = "opt-field")]
    pub opt: Option<Node>,
    #[serde(rename = "listField")]
    pub list: Vec<Node>,
    pub num: f64,
    pub id: Uuid,
}

#[derive(Serialize, Deserialize, Clone, Debug)]
pub struct Wrap(pub Node);

#[derive(Serialize, Deserialize, Clone, Debug)]
pub struct Marker;

#[derive(Serialize, Deserialize, Clone, Debug)]
pub struct Pair(pub Node, pub f64);

/// Newtype-wrapped map key (an alias of a key type).
#[derive(Serialize, Deserialize, Clone, Debug, PartialEq, Eq, PartialOrd, Ord)]
pub struct KeyWrap(pub DoubleKey);

/// Written the way conjure-codegen writes enums: a string on the wire.
#[derive(Clone, Copy, Debug, PartialEq, Eq, PartialOrd, Ord)]
pub enum Color {
    Red,
    DarkBlue,
}

impl Color {
    pub fn as_str(&self) -> &'static str {
        match self {
            Color::Red => "RED",
            Color::DarkBlue => "DARK_BLUE",
        }
    }
}

impl Serialize for Color {
    fn serialize<S: Serializer>(&self, s: S) -> Result<S::Ok, S::Error> {
        s.serialize_str(self.as_str())
    }
}

impl<'de> Deserialize<'de> for Color {
    fn deserialize<D: Deserializer<'de>>(d: D) -> Result<Color, D::Error> {
        struct V;
        impl Visitor<'_> for V {
            type Value = Color;
            fn expecting(&self, f: &mut fmt::Formatter) -> fmt::Result {
                f.write_str("a color")
            }
            fn visit_str<E: serde::de::Error>(self, v: &str) -> Result<Color, E> {
                match v {
                    "RED" => Ok(Color::Red),
                    "DARK_BLUE" => Ok(Color::DarkBlue),
                    _ => Err(E::unknown_variant(v, &["RED", "DARK_BLUE"])),
                }
            }
        }
        d.deserialize_str(V)
    }
}

/// A list deserialized through `DeserializeSeed` (next_element_seed with a stateful seed).
#[derive(Clone, Debug)]
pub struct SeededList(pub Vec<Node>);

impl Serialize for SeededList {
    fn serialize<S: Serializer>(&self, s: S) -> Result<S::Ok, S::Error> {
        s.collect_seq(self.0.iter())
    }
}

struct NodeSeed<'a>(&'a mut usize);

impl<'de> DeserializeSeed<'de> for NodeSeed<'_> {
    type Value = Node;
    fn deserialize<D: Deserializer<'de>>(self, d: D) -> Result<Node, D::Error> {
        *self.0 += 1;
        Node::deserialize(d)
    }
}

impl<'de> Deserialize<'de> for SeededList {
    fn deserialize<D: Deserializer<'de>>(d: D) -> Result<SeededList, D::Error> {
        struct V;
        impl<'de> Visitor<'de> for V {
            type Value = SeededList;
            fn expecting(&self, f: &mut fmt::Formatter) -> fmt::Result {
                f.write_str("a list")
            }
            fn visit_seq<A: SeqAccess<'de>>(self, mut seq: A) -> Result<SeededList, A::Error> {
                let mut out = vec![];
                let mut count = 0usize;
                while let Some(n) = seq.next_element_seed(NodeSeed(&mut count))? {
                    out.push(n);
                }
                assert_eq!(count, out.len());
                Ok(SeededList(out))
            }
        }
        d.deserialize_seq(V)
    }
}

// ---------------------------------------------------------------------------------------------
// Conjure equality / order: NaN equals NaN, every other double by bit pattern (JSON and Smile
// both preserve the sign of zero), everything else structural.

fn f64_canon(v: f64) -> u64 {
    if v.is_nan() {
        0x7ff8_0000_0000_0000
    } else {
        v.to_bits()
    }
}

impl Node {
    /// Canonical text used for equality, ordering and hashing of `Node`s inside the harness.
    pub fn canon(&self) -> String {
        let mut s = String::new();
        self.write_canon(&mut s);
        s
    }

    fn write_canon(&self, out: &mut String) {
        use std::fmt::Write;
        fn map<K: fmt::Debug>(out: &mut String, tag: &str, m: &BTreeMap<K, Node>) {
            use std::fmt::Write;
            let _ = write!(out, "{}{{", tag);
            for (k, v) in m {
                let _ = write!(out, "{:?}=>", k);
                v.write_canon(out);
                out.push(',');
            }
            out.push('}');
        }
        match self {
            Node::F64(v) => {
                let _ = write!(out, "F64({:016x})", f64_canon(*v));
            }
            Node::Opt(None) => out.push_str("None"),
            Node::Opt(Some(n)) => {
                out.push_str("Some(");
                n.write_canon(out);
                out.push(')');
            }
            Node::List(v) | Node::Seeded(SeededList(v)) => {
                out.push_str(if matches!(self, Node::List(_)) { "L[" } else { "Sd[" });
                for n in v {
                    n.write_canon(out);
                    out.push(',');
                }
                out.push(']');
            }
            Node::Set(v) => {
                out.push_str("Set[");
                for n in v {
                    n.write_canon(out);
                    out.push(',');
                }
                out.push(']');
            }
            Node::Struct(r) => {
                out.push_str("Rec{");
                r.first.write_canon(out);
                out.push(';');
                match &r.opt {
                    None => out.push_str("None"),
                    Some(n) => n.write_canon(out),
                }
                out.push(';');
                for n in &r.list {
                    n.write_canon(out);
                    out.push(',');
                }
                let _ = write!(out, ";{:016x};{}}}", f64_canon(r.num), r.id);
            }
            Node::Newtype(w) => {
                out.push_str("Wrap(");
                w.0.write_canon(out);
                out.push(')');
            }
            Node::TupleStruct(p) => {
                out.push_str("Pair(");
                p.0.write_canon(out);
                let _ = write!(out, ",{:016x})", f64_canon(p.1));
            }
            Node::Tuple(t) => {
                out.push_str("T(");
                t.0.write_canon(out);
                out.push(',');
                t.1.write_canon(out);
                out.push(')');
            }
            Node::TupleVar(a, b) => {
                out.push_str("TV(");
                a.write_canon(out);
                out.push(',');
                b.write_canon(out);
                out.push(')');
            }
            Node::StructVar { x, y } => {
                out.push_str("SV{");
                x.write_canon(out);
                out.push(',');
                match y {
                    None => out.push_str("None"),
                    Some(n) => n.write_canon(out),
                }
                out.push('}');
            }
            Node::MapStr(m) => map(out, "MStr", m),
            Node::MapI32(m) => map(out, "MI32", m),
            Node::MapI64(m) => map(out, "MI64", m),
            Node::MapSafe(m) => map(out, "MSafe", m),
            Node::MapF64(m) => {
                out.push_str("MF64{");
                for (k, v) in m {
                    // DoubleKey equality: all NaN equal, +0 == -0
                    let kk = if k.0 == 0.0 { 0.0 } else { k.0 };
                    let _ = write!(out, "{:016x}=>", f64_canon(kk));
                    v.write_canon(out);
                    out.push(',');
                }
                out.push('}');
            }
            Node::MapWrapKey(m) => {
                out.push_str("MWK{");
                for (k, v) in m {
                    let kk = if k.0 .0 == 0.0 { 0.0 } else { k.0 .0 };
                    let _ = write!(out, "{:016x}=>", f64_canon(kk));
                    v.write_canon(out);
                    out.push(',');
                }
                out.push('}');
            }
            Node::MapBool(m) => map(out, "MBool", m),
            Node::MapUuid(m) => map(out, "MUuid", m),
            Node::MapRid(m) => map(out, "MRid", m),
            Node::MapToken(m) => {
                out.push_str("MTok{");
                for (k, v) in m {
                    let _ = write!(out, "{}=>", k.as_str());
                    v.write_canon(out);
                    out.push(',');
                }
                out.push('}');
            }
            Node::MapTime(m) => map(out, "MTime", m),
            Node::MapBin(m) => map(out, "MBin", m),
            Node::MapColor(m) => map(out, "MColor", m),
            Node::Token(t) => {
                let _ = write!(out, "Token({})", t.as_str());
            }
            other => {
                let _ = write!(out, "{:?}", other);
            }
        }
    }

    /// Variant name, used for edge signatures.
    pub fn kind(&self) -> &'static str {
        match self {
            Node::Unit => "Unit",
            Node::Bool(_) => "Bool",
            Node::I32(_) => "I32",
            Node::I64(_) => "I64",
            Node::Safe(_) => "Safe",
            Node::F64(v) => {
                if v.is_nan() {
                    "F64nan"
                } else if v.is_infinite() {
                    "F64inf"
                } else {
                    "F64"
                }
            }
            Node::Str(_) => "Str",
            Node::Bin(_) => "Bin",
            Node::Uuid(_) => "Uuid",
            Node::Rid(_) => "Rid",
            Node::Token(_) => "Token",
            Node::Time(_) => "Time",
            Node::Color(_) => "Color",
            Node::Opt(None) => "OptNone",
            Node::Opt(Some(_)) => "Opt",
            Node::List(_) => "List",
            Node::Set(_) => "Set",
            Node::Struct(_) => "Struct",
            Node::Newtype(_) => "Newtype",
            Node::UnitStruct(_) => "UnitStruct",
            Node::TupleStruct(_) => "TupleStruct",
            Node::Tuple(_) => "Tuple",
            Node::TupleVar(..) => "TupleVar",
            Node::StructVar { .. } => "StructVar",
            Node::Seeded(_) => "Seeded",
            Node::MapStr(_) => "MapStr",
            Node::MapI32(_) => "MapI32",
            Node::MapI64(_) => "MapI64",
            Node::MapSafe(_) => "MapSafe",
            Node::MapF64(_) => "MapF64",
            Node::MapBool(_) => "MapBool",
            Node::MapUuid(_) => "MapUuid",
            Node::MapRid(_) => "MapRid",
            Node::MapToken(_) => "MapToken",
            Node::MapTime(_) => "MapTime",
            Node::MapBin(_) => "MapBin",
            Node::MapColor(_) => "MapColor",
            Node::MapWrapKey(_) => "MapWrapKey",
        }
    }

    pub fn children(&self) -> Vec<&Node> {
        match self {
            Node::Opt(Some(n)) => vec![n],
            Node::List(v) | Node::Seeded(SeededList(v)) => v.iter().collect(),
            Node::Set(v) => v.iter().collect(),
            Node::Struct(r) => {
                let mut c = vec![&r.first];
                c.extend(r.opt.iter());
                c.extend(r.list.iter());
                c
            }
            Node::Newtype(w) => vec![&w.0],
            Node::TupleStruct(p) => vec![&p.0],
            Node::Tuple(t) => vec![&t.0, &t.1],
            Node::TupleVar(a, b) => vec![a, b],
            Node::StructVar { x, y } => {
                let mut c: Vec<&Node> = vec![x];
                if let Some(y) = y {
                    c.push(y);
                }
                c
            }
            Node::MapStr(m) => m.values().collect(),
            Node::MapI32(m) => m.values().collect(),
            Node::MapI64(m) => m.values().collect(),
            Node::MapSafe(m) => m.values().collect(),
            Node::MapF64(m) => m.values().collect(),
            Node::MapBool(m) => m.values().collect(),
            Node::MapUuid(m) => m.values().collect(),
            Node::MapRid(m) => m.values().collect(),
            Node::MapToken(m) => m.values().collect(),
            Node::MapTime(m) => m.values().collect(),
            Node::MapBin(m) => m.values().collect(),
            Node::MapColor(m) => m.values().collect(),
            Node::MapWrapKey(m) => m.values().collect(),
            _ => vec![],
        }
    }

    /// Parent-kind -> child-kind edges of the tree (distinctness signature of a case).
    pub fn edges(&self, out: &mut BTreeSet<String>) {
        for c in self.children() {
            out.insert(format!("{}>{}", self.kind(), c.kind()));
            c.edges(out);
        }
    }

    pub fn depth(&self) -> usize {
        1 + self.children().iter().map(|c| c.depth()).max().unwrap_or(0)
    }
}

impl PartialEq for Node {
    fn eq(&self, o: &Node) -> bool {
        self.canon() == o.canon()
    }
}
impl Eq for Node {}
impl PartialOrd for Node {
    fn partial_cmp(&self, o: &Node) -> Option<std::cmp::Ordering> {
        Some(self.cmp(o))
    }
}
impl Ord for Node {
    fn cmp(&self, o: &Node) -> std::cmp::Ordering {
        self.canon().cmp(&o.canon())
    }
}

// ---------------------------------------------------------------------------------------------
// Generators

pub fn gen_uuid(r: &mut Rng) -> Uuid {
    match r.below(8) {
        0 => Uuid::nil(),
        1 => Uuid::from_u128(u128::MAX),
        _ => Uuid::from_u128(r.u128()),
    }
}

pub fn gen_rid(r: &mut Rng) -> ResourceIdentifier {
    fn part(r: &mut Rng, first: &[u8], rest: &[u8], min: usize, max: usize) -> String {
        let n = min + r.below(max - min + 1);
        let mut s = String::new();
        for i in 0..n {
            let set = if i == 0 { first } else { rest };
            s.push(set[r.below(set.len())] as char);
        }
        s
    }
    let lower = b"abcdefghijklmnopqrstuvwxyz";
    let lower_digit_dash = b"abcz0189-";
    let lower_digit = b"abz019";
    let loc = b"abzABZ019_.-";
    let s = format!(
        "ri.{}.{}.{}.{}",
        part(r, lower, lower_digit_dash, 1, 6),
        part(r, lower_digit, lower_digit_dash, 0, 5),
        part(r, lower, lower_digit_dash, 1, 6),
        part(r, loc, loc, 1, 10)
    );
    ResourceIdentifier::new(&s).expect("generated rid must be valid")
}

pub fn gen_token(r: &mut Rng) -> BearerToken {
    let body = b"abcxyzABCXYZ0189-._~+/";
    let n = 1 + r.below(24);
    let mut s: String = (0..n).map(|_| body[r.below(body.len())] as char).collect();
    for _ in 0..r.below(3) {
        s.push('=');
    }
    BearerToken::new(&s).expect("generated token must be valid")
}

/// Instants in years 0000..=9999 at nanosecond precision.
pub fn gen_time(r: &mut Rng) -> DateTime<Utc> {
    const MIN: i64 = -62_167_219_200; // 0000-01-01T00:00:00Z
    const MAX: i64 = 253_402_300_799; // 9999-12-31T23:59:59Z
    let secs = match r.below(8) {
        0 => MIN,
        1 => MAX,
        2 => 0,
        3 => r.range(-100_000, 100_000),
        4 => r.range(1_500_000_000, 1_900_000_000),
        _ => r.range(MIN, MAX),
    };
    let nanos = match r.below(5) {
        0 => 0,
        1 => 999_999_999,
        2 => (r.below(1000) * 1_000_000) as u32,
        3 => (r.below(1_000_000) * 1000) as u32,
        _ => r.below(1_000_000_000) as u32,
    };
    DateTime::from_timestamp(secs, nanos).expect("valid instant")
}

pub fn gen_safelong(r: &mut Rng) -> SafeLong {
    const M: i64 = (1 << 53) - 1;
    let v = match r.below(6) {
        0 => *r.pick(&[0, 1, -1, M, -M, M - 1, -M + 1]),
        1 => r.range(-1000, 1000),
        _ => r.range(-M, M),
    };
    SafeLong::new(v).expect("in range")
}

pub fn gen_color(r: &mut Rng) -> Color {
    if r.bool() {
        Color::Red
    } else {
        Color::DarkBlue
    }
}

fn gen_leaf(r: &mut Rng) -> Node {
    match r.below(14) {
        0 => Node::Unit,
        1 => Node::Bool(r.bool()),
        2 => Node::I32(hostile_i32(r)),
        3 => Node::I64(hostile_i64(r)),
        4 => Node::Safe(gen_safelong(r)),
        5 | 6 => Node::F64(hostile_f64(r)),
        7 => Node::Str(hostile_string(r, 12)),
        8 => Node::Bin(ByteBuf::from(hostile_bytes(r, 20))),
        9 => Node::Uuid(gen_uuid(r)),
        10 => match r.below(3) {
            0 => Node::Rid(gen_rid(r)),
            1 => Node::Token(gen_token(r)),
            _ => Node::Color(gen_color(r)),
        },
        11 => Node::Time(gen_time(r)),
        12 => Node::Opt(None),
        _ => Node::UnitStruct(Marker),
    }
}

fn gen_map<K: Ord>(
    r: &mut Rng,
    depth: usize,
    mut key: impl FnMut(&mut Rng) -> K,
) -> BTreeMap<K, Node> {
    let n = r.below(4);
    (0..n).map(|_| (key(r), gen_node(r, depth))).collect()
}

/// Grows a tree of at most `depth` further levels.
pub fn gen_node(r: &mut Rng, depth: usize) -> Node {
    if depth == 0 || r.chance(1, 4) {
        return gen_leaf(r);
    }
    let d = depth - 1;
    match r.below(25) {
        0 => Node::Opt(Some(Box::new(gen_node(r, d)))),
        1 => Node::List((0..r.below(4)).map(|_| gen_node(r, d)).collect()),
        2 => Node::Set((0..r.below(4)).map(|_| gen_node(r, d)).collect()),
        3 | 4 => Node::Struct(Box::new(Rec {
            first: gen_node(r, d),
            opt: if r.bool() { Some(gen_node(r, d)) } else { None },
            list: (0..r.below(3)).map(|_| gen_node(r, d)).collect(),
            num: hostile_f64(r),
            id: gen_uuid(r),
        })),
        5 => Node::Newtype(Box::new(Wrap(gen_node(r, d)))),
        6 => Node::TupleStruct(Box::new(Pair(gen_node(r, d), hostile_f64(r)))),
        7 => Node::Tuple(Box::new((gen_node(r, d), gen_node(r, d)))),
        8 => Node::TupleVar(Box::new(gen_node(r, d)), Box::new(gen_node(r, d))),
        9 => Node::StructVar {
            x: Box::new(gen_node(r, d)),
            y: if r.bool() { Some(Box::new(gen_node(r, d))) } else { None },
        },
        10 => Node::Seeded(SeededList((0..r.below(4)).map(|_| gen_node(r, d)).collect())),
        11 => Node::MapStr(gen_map(r, d, |r| hostile_string(r, 8))),
        12 => Node::MapI32(gen_map(r, d, hostile_i32)),
        13 => Node::MapI64(gen_map(r, d, hostile_i64)),
        14 => Node::MapSafe(gen_map(r, d, gen_safelong)),
        15 => Node::MapF64(gen_map(r, d, |r| DoubleKey(hostile_f64(r)))),
        16 => Node::MapBool(gen_map(r, d, |r| r.bool())),
        17 => Node::MapUuid(gen_map(r, d, gen_uuid)),
        18 => Node::MapRid(gen_map(r, d, gen_rid)),
        19 => Node::MapToken(gen_map(r, d, gen_token)),
        20 => Node::MapTime(gen_map(r, d, gen_time)),
        21 => Node::MapBin(gen_map(r, d, |r| ByteBuf::from(hostile_bytes(r, 9)))),
        22 => Node::MapColor(gen_map(r, d, gen_color)),
        23 => Node::MapWrapKey(gen_map(r, d, |r| KeyWrap(DoubleKey(hostile_f64(r))))),
        _ => gen_leaf(r),
    }
}

// ---------------------------------------------------------------------------------------------
// Independent wire model. `M` is a format-neutral DOM; `json_matches` / `smile_matches` compare
// it with what plain serde_json / serde_smile parsed out of the bytes under test.

#[derive(Clone, Debug)]
pub enum MKey {
    Exact(String),
    /// finite double key: any string that parses back to this double
    Double(f64),
}

#[derive(Clone, Debug)]
pub enum M {
    Null,
    Bool(bool),
    Int(i64),
    Double(f64),
    Str(String),
    Bin(Vec<u8>),
    /// uuid in value position: hyphenated string in JSON; in Smile the property does not fix the
    /// carrier, so the 16 raw bytes or the hyphenated string are both accepted
    UuidVal(Uuid),
    Arr(Vec<M>),
    Obj(Vec<(MKey, M)>),
}

fn tag(name: &str, v: M) -> M {
    M::Obj(vec![(MKey::Exact(name.to_string()), v)])
}

fn f64_key(v: f64) -> MKey {
    if v.is_nan() {
        MKey::Exact("NaN".into())
    } else if v == f64::INFINITY {
        MKey::Exact("Infinity".into())
    } else if v == f64::NEG_INFINITY {
        MKey::Exact("-Infinity".into())
    } else {
        MKey::Double(v)
    }
}

/// RFC 3339 rendering with the digits the instant needs; compared by instant, see `time_eq`.
fn mtime(t: &DateTime<Utc>) -> String {
    t.to_rfc3339_opts(chrono::SecondsFormat::AutoSi, true)
}

fn mmap<K>(name: &str, m: &BTreeMap<K, Node>, key: impl Fn(&K) -> MKey) -> M {
    tag(name, M::Obj(m.iter().map(|(k, v)| (key(k), model(v))).collect()))
}

fn opt(n: &Option<Node>) -> M {
    n.as_ref().map(model).unwrap_or(M::Null)
}

/// Model of the serde data-model mapping (externally tagged enums, structs as objects, newtype
/// structs transparent, unit as null) combined with the Conjure scalar encodings.
pub fn model(n: &Node) -> M {
    let ex = |s: String| MKey::Exact(s);
    match n {
        Node::Unit => M::Str("Unit".into()),
        Node::Bool(v) => tag("Bool", M::Bool(*v)),
        Node::I32(v) => tag("I32", M::Int(*v as i64)),
        Node::I64(v) => tag("I64", M::Int(*v)),
        Node::Safe(v) => tag("Safe", M::Int(**v)),
        Node::F64(v) => tag("F64", M::Double(*v)),
        Node::Str(v) => tag("Str", M::Str(v.clone())),
        Node::Bin(v) => tag("Bin", M::Bin(v.to_vec())),
        Node::Uuid(v) => tag("Uuid", M::UuidVal(*v)),
        Node::Rid(v) => tag("Rid", M::Str(v.as_str().to_string())),
        Node::Token(v) => tag("Token", M::Str(v.as_str().to_string())),
        Node::Time(v) => tag("Time", M::Str(mtime(v))),
        Node::Color(v) => tag("Color", M::Str(v.as_str().to_string())),
        Node::Opt(None) => tag("Opt", M::Null),
        Node::Opt(Some(v)) => tag("Opt", model(v)),
        Node::List(v) => tag("List", M::Arr(v.iter().map(model).collect())),
        Node::Set(v) => tag("Set", M::Arr(v.iter().map(model).collect())),
        Node::Seeded(v) => tag("Seeded", M::Arr(v.0.iter().map(model).collect())),
        Node::Struct(r) => tag(
            "Struct",
            M::Obj(vec![
                (ex("first".into()), model(&r.first)),
                (ex("opt-field".into()), opt(&r.opt)),
                (ex("listField".into()), M::Arr(r.list.iter().map(model).collect())),
                (ex("num".into()), M::Double(r.num)),
                (ex("id".into()), M::UuidVal(r.id)),
            ]),
        ),
        Node::Newtype(w) => tag("Newtype", model(&w.0)),
        Node::UnitStruct(_) => tag("UnitStruct", M::Null),
        Node::TupleStruct(p) => tag("TupleStruct", M::Arr(vec![model(&p.0), M::Double(p.1)])),
        Node::Tuple(t) => tag("Tuple", M::Arr(vec![model(&t.0), model(&t.1)])),
        Node::TupleVar(a, b) => tag("TupleVar", M::Arr(vec![model(a), model(b)])),
        Node::StructVar { x, y } => tag(
            "StructVar",
            M::Obj(vec![
                (ex("x".into()), model(x)),
                (ex("y".into()), y.as_ref().map(|n| model(n)).unwrap_or(M::Null)),
            ]),
        ),
        Node::MapStr(m) => mmap("MapStr", m, |k| ex(k.clone())),
        Node::MapI32(m) => mmap("MapI32", m, |k| ex(k.to_string())),
        Node::MapI64(m) => mmap("MapI64", m, |k| ex(k.to_string())),
        Node::MapSafe(m) => mmap("MapSafe", m, |k| ex(k.to_string())),
        Node::MapF64(m) => mmap("MapF64", m, |k| f64_key(k.0)),
        Node::MapWrapKey(m) => mmap("MapWrapKey", m, |k| f64_key(k.0 .0)),
        Node::MapBool(m) => mmap("MapBool", m, |k| ex(if *k { "true" } else { "false" }.into())),
        Node::MapUuid(m) => mmap("MapUuid", m, |k| ex(k.hyphenated().to_string())),
        Node::MapRid(m) => mmap("MapRid", m, |k| ex(k.as_str().to_string())),
        Node::MapToken(m) => mmap("MapToken", m, |k| ex(k.as_str().to_string())),
        Node::MapTime(m) => mmap("MapTime", m, |k| ex(mtime(k))),
        Node::MapBin(m) => mmap("MapBin", m, |k| ex(vcore::models::b64_encode(k))),
        Node::MapColor(m) => mmap("MapColor", m, |k| ex(k.as_str().to_string())),
    }
}

/// Two RFC 3339 texts denote the same instant (the property fixes the format family, not the
/// number of fractional digits).
fn time_eq(a: &str, b: &str) -> bool {
    match (
        DateTime::parse_from_rfc3339(a),
        DateTime::parse_from_rfc3339(b),
    ) {
        (Ok(x), Ok(y)) => x == y,
        _ => false,
    }
}

fn str_eq(model: &str, got: &str) -> bool {
    model == got || (model.ends_with('Z') && model.contains('T') && time_eq(model, got))
}

fn key_eq(k: &MKey, got: &str) -> bool {
    match k {
        MKey::Exact(s) => str_eq(s, got),
        MKey::Double(d) => {
            // must be a plain decimal spelling that parses back to the same double
            got.parse::<f64>().map(|g| g.to_bits() == d.to_bits() || (g == *d && *d != 0.0)).unwrap_or(false)
                && got != "inf"
                && got != "-inf"
        }
    }
}

/// Finds, for every model member, exactly one parsed member whose key matches.
fn match_members<'a, T>(
    a: &[(MKey, M)],
    got: &'a [(&'a str, &'a T)],
    rec: &dyn Fn(&M, &T) -> Result<(), String>,
) -> Result<(), String> {
    if a.len() != got.len() {
        return Err(format!("object has {} members, model {}", got.len(), a.len()));
    }
    let mut used = vec![false; got.len()];
    for (k, v) in a {
        let hit = got
            .iter()
            .enumerate()
            .find(|(i, (gk, _))| !used[*i] && key_eq(k, gk));
        match hit {
            Some((i, (_, gv))) => {
                used[i] = true;
                rec(v, gv)?;
            }
            None => {
                let keys: Vec<&str> = got.iter().map(|(k, _)| *k).collect();
                return Err(format!("no member spelled like {:?} among {:?}", k, keys));
            }
        }
    }
    Ok(())
}

pub fn json_matches(m: &M, j: &J) -> Result<(), String> {
    match (m, j) {
        (M::Null, J::Null) => Ok(()),
        (M::Bool(a), J::Bool(b)) if a == b => Ok(()),
        (M::Int(a), J::Num(n)) if n.parse::<i64>().ok() == Some(*a) => Ok(()),
        (M::Double(d), J::Str(s)) if !d.is_finite() => {
            let want = if d.is_nan() {
                "NaN"
            } else if *d > 0.0 {
                "Infinity"
            } else {
                "-Infinity"
            };
            if s == want {
                Ok(())
            } else {
                Err(format!("non-finite double spelled {:?}, expected {:?}", s, want))
            }
        }
        (M::Double(d), J::Num(n)) if d.is_finite() => match n.parse::<f64>() {
            Ok(g) if g.to_bits() == d.to_bits() => Ok(()),
            _ => Err(format!("double {:?} written as {}", d, n)),
        },
        (M::Str(a), J::Str(b)) if str_eq(a, b) => Ok(()),
        (M::UuidVal(a), J::Str(b)) if a.hyphenated().to_string() == *b => Ok(()),
        (M::Bin(a), J::Str(b)) => {
            if *b == vcore::models::b64_encode(a) {
                Ok(())
            } else {
                Err(format!("binary written as {:?}", b))
            }
        }
        (M::Arr(a), J::Arr(b)) if a.len() == b.len() => {
            for (x, y) in a.iter().zip(b) {
                json_matches(x, y)?;
            }
            Ok(())
        }
        (M::Obj(a), J::Obj(b)) => {
            let got: Vec<(&str, &J)> = b.iter().map(|(k, v)| (k.as_str(), v)).collect();
            match_members(a, &got, &json_matches)
        }
        _ => Err(format!("model {} vs json {}", short(m), trunc(&vcore::json::render(j)))),
    }
}

pub fn smile_matches(m: &M, s: &serde_smile::value::Value) -> Result<(), String> {
    use serde_smile::value::Value as S;
    match (m, s) {
        (M::Null, S::Null) => Ok(()),
        (M::Bool(a), S::Boolean(b)) if a == b => Ok(()),
        (M::Int(a), S::Integer(b)) if *a == *b as i64 => Ok(()),
        (M::Int(a), S::Long(b)) if a == b => Ok(()),
        (M::Double(a), S::Double(b)) => {
            if a.to_bits() == b.to_bits() || (a.is_nan() && b.is_nan()) {
                Ok(())
            } else {
                Err(format!("double {:?} carried as {:?}", a, b))
            }
        }
        (M::Str(a), S::String(b)) if str_eq(a, b) => Ok(()),
        (M::Bin(a), S::Binary(b)) if a == b => Ok(()),
        (M::UuidVal(a), S::Binary(b)) if a.as_bytes()[..] == b[..] => Ok(()),
        (M::UuidVal(a), S::String(b)) if a.hyphenated().to_string() == *b => Ok(()),
        (M::Arr(a), S::Array(b)) if a.len() == b.len() => {
            for (x, y) in a.iter().zip(b) {
                smile_matches(x, y)?;
            }
            Ok(())
        }
        (M::Obj(a), S::Object(b)) => {
            let got: Vec<(&str, &S)> = b.iter().map(|(k, v)| (k.as_str(), v)).collect();
            match_members(a, &got, &smile_matches)
        }
        _ => Err(format!("model {} vs smile {}", short(m), trunc(&format!("{:?}", s)))),
    }
}

fn short(m: &M) -> String {
    trunc(&format!("{:?}", m))
}

pub fn trunc(s: &str) -> String {
    if s.chars().count() > 300 {
        let t: String = s.chars().take(300).collect();
        format!("{}…", t)
    } else {
        s.to_string()
    }
}

//! C09 – see taint.rs (shared engine with C19), plus the error-parameter API itself.
use conjure_error::Error;
use serde_json::json;
use vcore::Rng;

/// Handlers attach parameters to the errors they return. Whatever the order and whatever the names (also one name
/// used for a safe and for an unsafe value), a value given as *unsafe* never shows up among the safe parameters, and a
/// value given as safe stays retrievable there unless overwritten by a later safe value of that name.
fn error_params_case(seed: u64, rep: &mut vcore::Report) {
    const NAMES: [&str; 5] = ["query", "param", "actual", "id", "detail"];
    let mut r = Rng::new(seed);
    let mut e = match r.below(3) {
        0 => Error::internal_safe("cause"),
        1 => Error::service_safe("cause", conjure_error::InvalidArgument::new()),
        _ => Error::internal("cause"),
    };
    let mut unsafe_values: Vec<String> = vec![];
    let mut last_safe: std::collections::BTreeMap<&str, String> = Default::default();
    let mut ops = vec![];
    for k in 0..1 + r.below(6) {
        let name = *r.pick(&NAMES);
        let value = format!("cnry{}x{}", seed % 100_000, k);
        if r.bool() {
            e = e.with_safe_param(name, value.clone());
            last_safe.insert(name, value.clone());
            ops.push(format!("safe({}, {})", name, value));
        } else {
            e = e.with_unsafe_param(name, value.clone());
            unsafe_values.push(value.clone());
            ops.push(format!("unsafe({}, {})", name, value));
        }
    }
    rep.evaluations += 1;
    rep.cell("error-params/sequences");
    let safe: Vec<(String, String)> = e.safe_params().iter().map(|(k, v)| (k.to_string(), conjure_serde::json::to_string(v).unwrap_or_default())).collect();
    let unsafe_: Vec<(String, String)> = e.unsafe_params().iter().map(|(k, v)| (k.to_string(), conjure_serde::json::to_string(v).unwrap_or_default())).collect();
    let detail = || json!({"operations": ops, "safe_params": safe, "unsafe_params": unsafe_});
    for u in &unsafe_values {
        if safe.iter().any(|(_, v)| v.contains(u.as_str())) {
            rep.violation("error-params", seed, "error-params:unsafe-value-among-safe-params", detail());
            return;
        }
    }
    for (name, v) in &last_safe {
        if !safe.iter().any(|(k, x)| k == name && x.contains(v.as_str())) {
            rep.violation("error-params", seed, "error-params:safe-value-not-among-safe-params", detail());
            return;
        }
    }
}

pub fn run(ctx: &crate::ctx::Ctx, report: &mut vcore::Report) {
    crate::taint::run(ctx, report, crate::taint::Mode::C09);
    ctx.cases(report, "error-params", ctx.n(20_000, 500_000), error_params_case);
}

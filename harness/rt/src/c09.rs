//! C09 – see taint.rs (shared engine with C19).
pub fn run(ctx: &crate::ctx::Ctx, report: &mut vcore::Report) {
    crate::taint::run(ctx, report, crate::taint::Mode::C09);
}

//! C16 – Bearer tokens and resource identifiers are validated exactly on every entry path.
//!
//! Oracle: the hand-written recognisers of `vcore::models` (no regex, no table). Every entry path
//! must accept exactly the recognised language and keep the text; accepted values render back
//! identically; a rid's accessors equal the recogniser's split; `from_components` succeeds iff
//! each component is individually valid. The bounded-length part is enumerated exhaustively.
use crate::ctx::{guarded, Ctx};
use conjure_object::{Any, BearerToken, FromPlain, Plain, ResourceIdentifier, ToPlain};
use conjure_serde::{json, smile};
use serde::de::DeserializeOwned;
use serde::Serialize;
use serde_json::json;
use std::borrow::Borrow;
use std::collections::BTreeMap;
use std::str::FromStr;
use std::sync::atomic::{AtomicUsize, Ordering};
use vcore::json::J;
use vcore::models::{is_bearer_token, rid_component_valid, rid_split};
use vcore::rng::fnv;
use vcore::text::{hostile_char, hostile_string};
use vcore::{Report, Rng};

// ---------------------------------------------------------------------------------------------
// subjects

trait Subject: Sized + DeserializeOwned + Serialize + Ord + FromStr + FromPlain + Plain {
    const NAME: &'static str;
    fn construct(s: &str) -> Result<Self, String>;
    fn text(&self) -> &str;
    /// The independent recogniser.
    fn valid(s: &str) -> bool;
    /// Type specific renderings / accessors of an accepted value that came from text `s`.
    fn extra_render(&self, s: &str, bad: &mut dyn FnMut(&'static str, String));
}

impl Subject for BearerToken {
    const NAME: &'static str = "token";
    fn construct(s: &str) -> Result<Self, String> {
        BearerToken::new(s).map_err(|e| e.to_string())
    }
    fn text(&self) -> &str {
        self.as_str()
    }
    fn valid(s: &str) -> bool {
        is_bearer_token(s)
    }
    fn extra_render(&self, s: &str, bad: &mut dyn FnMut(&'static str, String)) {
        if AsRef::<str>::as_ref(self) != s {
            bad("as_ref", AsRef::<str>::as_ref(self).to_string());
        }
        if Borrow::<str>::borrow(self) != s {
            bad("borrow", Borrow::<str>::borrow(self).to_string());
        }
        let owned = self.clone().into_string();
        if owned != s {
            bad("into_string", owned);
        }
    }
}

impl Subject for ResourceIdentifier {
    const NAME: &'static str = "rid";
    fn construct(s: &str) -> Result<Self, String> {
        ResourceIdentifier::new(s).map_err(|e| e.to_string())
    }
    fn text(&self) -> &str {
        self.as_str()
    }
    fn valid(s: &str) -> bool {
        rid_split(s).is_some()
    }
    fn extra_render(&self, s: &str, bad: &mut dyn FnMut(&'static str, String)) {
        match guarded(|| self.to_string()) {
            Ok(d) if d == s => {}
            Ok(d) => bad("display", d),
            Err(p) => bad("display-panic", p),
        }
        if AsRef::<str>::as_ref(self) != s {
            bad("as_ref", AsRef::<str>::as_ref(self).to_string());
        }
        if Borrow::<str>::borrow(self) != s {
            bad("borrow", Borrow::<str>::borrow(self).to_string());
        }
        let owned = self.clone().into_string();
        if owned != s {
            bad("into_string", owned);
        }
        accessors(self, s, rid_split(s), bad);
    }
}

/// The four accessors: re-joined they give `s`; each equals the expected component.
fn accessors(v: &ResourceIdentifier, s: &str, want: Option<[&str; 4]>, bad: &mut dyn FnMut(&'static str, String)) {
    let got = guarded(|| {
        [v.service().to_string(), v.instance().to_string(), v.type_().to_string(), v.locator().to_string()]
    });
    match got {
        Err(p) => bad("accessor-panic", p),
        Ok(got) => {
            let joined = format!("ri.{}.{}.{}.{}", got[0], got[1], got[2], got[3]);
            if joined != s {
                bad("accessors-do-not-rejoin", joined);
            }
            if let Some(want) = want {
                const NAMES: [&str; 4] = ["accessor-service", "accessor-instance", "accessor-type", "accessor-locator"];
                for i in 0..4 {
                    if got[i] != want[i] {
                        bad(NAMES[i], got[i].clone());
                    }
                }
            }
        }
    }
}

// ---------------------------------------------------------------------------------------------
// entry paths

enum Got<T> {
    Ok(T),
    Err,
    Panic(String),
}

fn enter<T, E>(f: impl FnOnce() -> Result<T, E>) -> Got<T> {
    match guarded(f) {
        Ok(Ok(v)) => Got::Ok(v),
        Ok(Err(_)) => Got::Err,
        Err(p) => Got::Panic(p),
    }
}

fn enter_key<T: Ord, E>(f: impl FnOnce() -> Result<BTreeMap<T, bool>, E>) -> Got<T> {
    match guarded(f) {
        Ok(Ok(m)) => {
            if m.len() != 1 {
                return Got::Err;
            }
            Got::Ok(m.into_iter().next().unwrap().0)
        }
        Ok(Err(_)) => Got::Err,
        Err(p) => Got::Panic(p),
    }
}

const PATHS: [&str; 15] = [
    "from_str",
    "new",
    "from_plain",
    "json_value/client",
    "json_value/server",
    "json_key/client",
    "json_key/server",
    "smile_value/client",
    "smile_value/server",
    "smile_key/client",
    "smile_key/server",
    "any_value",
    "any_doc",
    "any_key",
    "json_value/server-reader",
];

struct Env<'a> {
    rep: &'a mut Report,
    sub: &'a str,
    seed: u64,
    /// [type][path][accepted, rejected]
    counts: [[[u64; 2]; 15]; 2],
    comp: [u64; 2],
}

impl<'a> Env<'a> {
    fn new(rep: &'a mut Report, sub: &'a str) -> Env<'a> {
        Env { rep, sub, seed: 0, counts: [[[0; 2]; 15]; 2], comp: [0; 2] }
    }

    fn flush(&mut self) {
        for (t, name) in ["token", "rid"].iter().enumerate() {
            for (p, path) in PATHS.iter().enumerate() {
                for (o, out) in ["accepted", "rejected"].iter().enumerate() {
                    let n = self.counts[t][p][o];
                    if n > 0 {
                        self.rep.cell_n(&format!("path/{}/{}/{}", name, path, out), n);
                    }
                }
            }
        }
        for (o, out) in ["accepted", "rejected"].iter().enumerate() {
            if self.comp[o] > 0 {
                self.rep.cell_n(&format!("path/rid/from_components/{}", out), self.comp[o]);
            }
        }
        self.counts = [[[0; 2]; 15]; 2];
        self.comp = [0; 2];
    }

    fn fail(&mut self, ty: &str, path: &str, what: &str, input: &str, observed: String, expected: &str) {
        self.rep.violation(
            self.sub,
            self.seed,
            format!("{}/{}:{}", ty, path, what),
            json!({"type": ty, "path": path, "input": input, "input_escaped": format!("{:?}", input),
                   "observed": clip(&observed), "expected": expected}),
        );
    }

    /// All entry paths of `T` on the string `s`.
    fn check<T: Subject>(&mut self, s: &str) -> bool {
        let ti = if T::NAME == "token" { 0 } else { 1 };
        let expected = T::valid(s);
        let mut quoted = String::with_capacity(s.len() + 2);
        vcore::json::quote(s, &mut quoted);
        let key_doc = format!("{{{}:true}}", quoted);
        let smile_value = serde_smile::to_vec(&s).expect("smile string");
        let one: BTreeMap<&str, bool> = [(s, true)].into_iter().collect();
        let smile_key = serde_smile::to_vec(&one).expect("smile map");
        for (pi, path) in PATHS.iter().enumerate() {
            let got: Got<T> = match pi {
                0 => enter(|| s.parse::<T>()),
                1 => enter(|| T::construct(s)),
                2 => enter(|| T::from_plain(s)),
                3 => enter(|| json::client_from_str::<T>(&quoted)),
                4 => enter(|| json::server_from_str::<T>(&quoted)),
                5 => enter_key(|| json::client_from_str(&key_doc)),
                6 => enter_key(|| json::server_from_str(&key_doc)),
                7 => enter(|| smile::client_from_slice::<T>(&smile_value)),
                8 => enter(|| smile::server_from_slice::<T>(&smile_value)),
                9 => enter_key(|| smile::client_from_slice(&smile_key)),
                10 => enter_key(|| smile::server_from_slice(&smile_key)),
                11 => enter(|| Any::new(s)?.deserialize_into::<T>()),
                12 => enter(|| json::client_from_str::<Any>(&quoted).map_err(|_| ())?.deserialize_into::<T>().map_err(|_| ())),
                13 => enter_key(|| Any::new(&one)?.deserialize_into()),
                _ => enter(|| json::server_from_reader::<_, T>(quoted.as_bytes())),
            };
            self.rep.evaluations += 1;
            match got {
                Got::Panic(p) => self.fail(T::NAME, path, "panic", s, p, "Ok or Err"),
                Got::Err => {
                    self.counts[ti][pi][1] += 1;
                    if expected {
                        self.fail(T::NAME, path, "rejects-valid", s, "Err".into(), "accepted (the string matches the grammar)");
                    }
                }
                Got::Ok(v) => {
                    self.counts[ti][pi][0] += 1;
                    if !expected {
                        self.fail(T::NAME, path, "accepts-invalid", s, format!("Ok({:?})", v.text()), "rejected (the string does not match the grammar)");
                    }
                    if v.text() != s {
                        self.fail(T::NAME, path, "text-changed", s, v.text().to_string(), "as_str() == input");
                    }
                    // renderings of an accepted value
                    self.render(&v, s, path);
                }
            }
        }
        expected
    }

    fn render<T: Subject>(&mut self, v: &T, s: &str, path: &str) {
        let mut bad: Vec<(&'static str, String)> = vec![];
        self.rep.evaluations += 1;
        match guarded(|| v.to_plain()) {
            Ok(t) if t == s => {}
            Ok(t) => bad.push(("to_plain", t)),
            Err(p) => bad.push(("to_plain-panic", p)),
        }
        match guarded(|| json::to_string(v)) {
            Ok(Ok(doc)) => match vcore::json::parse(doc.as_bytes()) {
                Ok(J::Str(t)) if t == s => {}
                _ => bad.push(("serialize-json", doc)),
            },
            Ok(Err(e)) => bad.push(("serialize-json-error", e.to_string())),
            Err(p) => bad.push(("serialize-json-panic", p)),
        }
        match guarded(|| smile::to_vec(v)) {
            Ok(Ok(bytes)) => match serde_smile::from_slice::<String>(&bytes) {
                Ok(t) if t == s => {}
                other => bad.push(("serialize-smile", format!("{:?}", other.ok()))),
            },
            Ok(Err(e)) => bad.push(("serialize-smile-error", e.to_string())),
            Err(p) => bad.push(("serialize-smile-panic", p)),
        }
        v.extra_render(s, &mut |what, got| bad.push((what, got)));
        for (what, got) in bad {
            self.fail(T::NAME, &format!("{}>render", path), what, s, got, "identical to the input string");
        }
    }

    /// `from_components` on one tuple.
    fn components(&mut self, c: [&str; 4]) {
        self.rep.evaluations += 1;
        let expected = (0..4).all(|i| rid_component_valid(i, c[i]));
        let shown = format!("{:?}", c);
        match enter(|| ResourceIdentifier::from_components(c[0], c[1], c[2], c[3])) {
            Got::Panic(p) => self.fail("rid", "from_components", "panic", &shown, p, "Ok or Err"),
            Got::Err => {
                self.comp[1] += 1;
                if expected {
                    self.fail("rid", "from_components", "rejects-valid", &shown, "Err".into(), "Ok: every component is individually valid");
                }
            }
            Got::Ok(v) => {
                self.comp[0] += 1;
                if !expected {
                    self.fail("rid", "from_components", "accepts-invalid", &shown, format!("Ok({:?})", v.as_str()), "Err: a component is not valid");
                }
                let want = format!("ri.{}.{}.{}.{}", c[0], c[1], c[2], c[3]);
                if v.as_str() != want {
                    self.fail("rid", "from_components", "text-changed", &shown, v.as_str().to_string(), "ri.<service>.<instance>.<type>.<locator>");
                }
                let mut bad: Vec<(&'static str, String)> = vec![];
                accessors(&v, &want, Some(c), &mut |w, g| bad.push((w, g)));
                for (what, got) in bad {
                    self.fail("rid", "from_components>render", what, &shown, got, "the component passed in");
                }
            }
        }
    }
}

fn clip(s: &str) -> String {
    if s.chars().count() > 300 {
        format!("{}…", s.chars().take(300).collect::<String>())
    } else {
        s.to_string()
    }
}

// ---------------------------------------------------------------------------------------------
// structural signatures

fn char_class(c: char) -> char {
    match c {
        'a'..='z' => 'l',
        'A'..='Z' => 'U',
        '0'..='9' => 'd',
        '=' => '=',
        '.' => '.',
        '-' => '-',
        '_' => '_',
        '~' | '+' | '/' => 'p',
        c if (c as u32) < 0x20 || c as u32 == 0x7f => 'C',
        ' ' => 'S',
        c if c.is_ascii() => 'x',
        _ => 'N',
    }
}

/// Coarser classes for the token patterns: the six punctuation characters are one class.
fn token_class(c: char) -> char {
    match char_class(c) {
        '.' | '-' | '_' | 'p' => 'p',
        'S' | 'x' => 'x',
        other => other,
    }
}

fn token_sig(s: &str) -> String {
    let n = s.chars().count();
    if n <= 4 {
        format!("token:len={}:{}", n, s.chars().map(token_class).collect::<String>())
    } else {
        let body = s.trim_end_matches('=');
        let pad = s.len() - body.len();
        let mut classes: Vec<char> = body.chars().map(token_class).collect();
        let first = classes[..].first().copied().unwrap_or('0');
        let last = classes[..].last().copied().unwrap_or('0');
        classes.sort_unstable();
        classes.dedup();
        let bad: String = classes.into_iter().filter(|c| !"lUdp".contains(*c)).collect();
        format!("token:long:len~{}:pad={}:first={}:last={}:foreign={}", 64 - (n as u64).leading_zeros(), pad.min(3), first, last, bad)
    }
}

fn component_class(idx: usize, c: &str) -> char {
    if c.is_empty() {
        return 'E';
    }
    if rid_component_valid(idx, c) {
        return if c.contains('.') { 'W' } else { 'V' };
    }
    if c.chars().any(|ch| !ch.is_ascii()) {
        'N'
    } else if c.chars().any(|ch| ch.is_control()) {
        'C'
    } else if c.contains('.') {
        'D'
    } else if c.chars().all(|ch| ch.is_ascii_lowercase() || ch.is_ascii_digit() || ch == '-') {
        'F' // only the first character is wrong
    } else {
        'X'
    }
}

fn rid_sig(s: &str) -> String {
    match s.strip_prefix("ri.") {
        Some(rest) => {
            let parts: Vec<&str> = rest.splitn(4, '.').collect();
            let classes: String = parts.iter().enumerate().map(|(i, p)| component_class(i, p)).collect();
            format!("rid:{}:len~{}", classes, 64 - (s.len() as u64).leading_zeros())
        }
        None => {
            let head: String = s.chars().take(3).map(char_class).collect();
            format!(
                "rid:no-prefix:{}:dots={}:valid-tail={}",
                head,
                s.matches('.').count().min(6),
                s.find('.').map(|i| rid_split(&format!("ri{}", &s[i..])).is_some()).unwrap_or(false)
            )
        }
    }
}

// ---------------------------------------------------------------------------------------------
// enumerations

/// Every character class boundary of the token grammar: the ends of the three ranges, the six
/// punctuation characters and `=`, and their ASCII neighbours, plus newline, space, DEL, non-ASCII.
const TOKEN_ALPHABET: [char; 25] = [
    'a', 'z', 'A', 'Z', '0', '9', '-', '.', '_', '~', '+', '/', '=', '@', '[', '`', '{', ',', ':', '\n', ' ', 'é', '^', '\u{7f}', '*',
];

/// Alphabet of the rid component enumeration.
const RID_ALPHABET: [char; 8] = ['a', 'A', '0', '-', '_', '.', 'é', '\n'];

fn pow(a: usize, k: usize) -> u64 {
    (a as u64).pow(k as u32)
}

/// The `idx`-th string (shortest first) over `alphabet`.
fn nth_string(alphabet: &[char], mut idx: u64) -> String {
    let a = alphabet.len();
    let mut len = 0;
    while idx >= pow(a, len) {
        idx -= pow(a, len);
        len += 1;
    }
    let mut chars = vec![' '; len];
    for k in (0..len).rev() {
        chars[k] = alphabet[(idx % a as u64) as usize];
        idx /= a as u64;
    }
    chars.into_iter().collect()
}

/// Runs `f(item, env)` for every item in `0..items` over all threads (dynamic scheduling).
fn parallel<F>(ctx: &Ctx, rep: &mut Report, sub: &str, items: usize, f: F)
where
    F: Fn(usize, &mut Env) + Sync,
{
    let next = AtomicUsize::new(0);
    let property = rep.property.clone();
    let parts: Vec<Report> = std::thread::scope(|s| {
        let handles: Vec<_> = (0..ctx.threads.max(1))
            .map(|_| {
                let f = &f;
                let next = &next;
                let property = property.clone();
                s.spawn(move || {
                    let mut r = Report::new(&property);
                    {
                        let mut env = Env::new(&mut r, sub);
                        loop {
                            let i = next.fetch_add(1, Ordering::Relaxed);
                            if i >= items {
                                break;
                            }
                            f(i, &mut env);
                        }
                        env.flush();
                    }
                    r
                })
            })
            .collect();
        handles.into_iter().map(|h| h.join().expect("monitor thread")).collect()
    });
    for p in parts {
        rep.merge(p);
    }
}

/// All strings over the rid alphabet up to length 3, shortest first (so the words up to length 2
/// are a prefix and a tuple's case seed does not depend on the tier).
fn rid_words() -> Vec<String> {
    let n: u64 = (0..=3).map(|k| pow(RID_ALPHABET.len(), k)).sum();
    (0..n).map(|i| nth_string(&RID_ALPHABET, i)).collect()
}

fn words_upto(words: &[String], maxc: usize) -> usize {
    words.iter().take_while(|w| w.chars().count() <= maxc).count()
}

/// Number of component tuples with each length <= maxc and total length <= maxt.
fn tuple_count(maxc: usize, maxt: usize) -> u64 {
    let a = RID_ALPHABET.len();
    let mut n = 0;
    for l0 in 0..=maxc {
        for l1 in 0..=maxc {
            for l2 in 0..=maxc {
                for l3 in 0..=maxc {
                    if l0 + l1 + l2 + l3 <= maxt {
                        n += pow(a, l0 + l1 + l2 + l3);
                    }
                }
            }
        }
    }
    n
}

const W: u64 = 585; // rid_words().len()

/// Enumerates the tuples below the work item (i0, i1); `parse`: run the string entry paths on
/// the joined string when the total length is <= `parse_maxt`, `from_components` always.
fn tuple_item(env: &mut Env, words: &[String], lens: &[usize], nw: usize, item: usize, maxt: usize, parse_maxt: usize, only: Option<u64>) {
    let (i0, i1) = (item / nw, item % nw);
    if lens[i0] + lens[i1] > maxt {
        return;
    }
    let mut joined = String::new();
    let (mut comp_n, mut str_n, mut valid_n) = ([0u64; 16], [0u64; 16], 0u64);
    for i2 in 0..nw {
        let l2 = lens[i0] + lens[i1] + lens[i2];
        if l2 > maxt {
            break; // words are sorted by length
        }
        for i3 in 0..nw {
            let total = l2 + lens[i3];
            if total > maxt {
                break;
            }
            let seed = ((i0 as u64 * W + i1 as u64) * W + i2 as u64) * W + i3 as u64;
            if only.map(|o| o != seed).unwrap_or(false) {
                continue;
            }
            env.seed = seed;
            let c = [words[i0].as_str(), words[i1].as_str(), words[i2].as_str(), words[i3].as_str()];
            env.components(c);
            comp_n[total] += 1;
            if total <= parse_maxt {
                joined.clear();
                joined.push_str("ri.");
                joined.push_str(c[0]);
                joined.push('.');
                joined.push_str(c[1]);
                joined.push('.');
                joined.push_str(c[2]);
                joined.push('.');
                joined.push_str(c[3]);
                env.rep.distinct.insert(fnv(&rid_sig(&joined)));
                let ok = env.check::<ResourceIdentifier>(&joined);
                str_n[total] += 1;
                if ok {
                    valid_n += 1;
                }
            }
        }
    }
    for total in 0..16 {
        if comp_n[total] > 0 {
            env.rep.cell_n(&format!("exhaustive/rid-from_components/total-len={:02}", total), comp_n[total]);
        }
        if str_n[total] > 0 {
            env.rep.cell_n(&format!("exhaustive/rid-strings/total-len={:02}", total), str_n[total]);
        }
    }
    if valid_n > 0 {
        env.rep.cell_n("exhaustive/rid-strings/valid", valid_n);
    }
}

const PREFIXES: [&str; 16] = [
    "ri.", "", "ri", "ri:", "Ri.", "rI.", "RI.", "ri..", "r.i.", " ri.", "\nri.", "ri.ri.", "rid.", "i.", "r.", "ｒｉ.",
];
const SUFFIXES: [&str; 8] = ["", "\n", ".", " ", "\u{0}", "é", "\r\n", ".a"];
const SHAPE_PARTS: [&str; 7] = ["", "a", "A", "0", "-", ".", "a-0"];

/// Strings around the frame of the grammar: wrong prefixes, suffixes, too few / too many parts.
fn shape_strings() -> Vec<String> {
    let mut out = vec![];
    let n = SHAPE_PARTS.len();
    for k in 0..=5usize {
        let tuples = n.pow(k as u32);
        for t in 0..tuples {
            let mut body = String::new();
            let mut x = t;
            for j in 0..k {
                if j > 0 {
                    body.push('.');
                }
                body.push_str(SHAPE_PARTS[x % n]);
                x /= n;
            }
            // all frames for the shapes with at most four parts, the plain frame for five
            if k <= 4 {
                for p in PREFIXES {
                    for s in SUFFIXES {
                        if k < 4 && !(p == "ri." || s.is_empty()) {
                            continue;
                        }
                        out.push(format!("{}{}{}", p, body, s));
                    }
                }
            } else {
                out.push(format!("ri.{}", body));
            }
        }
    }
    out
}

// ---------------------------------------------------------------------------------------------
// random part

const TOKEN_BODY: &[u8] = b"abcdefghijklmnopqrstuvwxyzABCDEFGHIJKLMNOPQRSTUVWXYZ0123456789-._~+/";
const LOWER: &[u8] = b"abcdefghijklmnopqrstuvwxyz";
const LOWER_DIGIT: &[u8] = b"abcdefghijklmnopqrstuvwxyz0123456789";
const LOWER_DIGIT_DASH: &[u8] = b"abcdefghijklmnopqrstuvwxyz0123456789-";
const LOCATOR: &[u8] = b"abcdefghijklmnopqrstuvwxyzABCDEFGHIJKLMNOPQRSTUVWXYZ0123456789_.-";

fn word(r: &mut Rng, first: &[u8], rest: &[u8], min: usize, max: usize) -> String {
    let n = min + r.below(max - min + 1);
    (0..n)
        .map(|i| {
            let set = if i == 0 { first } else { rest };
            if r.chance(1, 4) { set[set.len() - 1 - r.below(3.min(set.len()))] as char } else { set[r.below(set.len())] as char }
        })
        .collect()
}

fn valid_token(r: &mut Rng) -> String {
    let max = match r.below(10) {
        0 => 400,
        1 | 2 => 4,
        _ => 48,
    };
    let mut s = word(r, TOKEN_BODY, TOKEN_BODY, 1, max);
    for _ in 0..r.below(4) {
        s.push('=');
    }
    s
}

fn valid_components(r: &mut Rng) -> [String; 4] {
    let max = match r.below(10) {
        0 => 60,
        1 | 2 => 2,
        _ => 9,
    };
    [
        word(r, LOWER, LOWER_DIGIT_DASH, 1, max),
        word(r, LOWER_DIGIT, LOWER_DIGIT_DASH, 0, max),
        word(r, LOWER, LOWER_DIGIT_DASH, 1, max),
        word(r, LOCATOR, LOCATOR, 1, 3 * max),
    ]
}

fn hostile_edit_char(r: &mut Rng, home: &[char]) -> char {
    match r.below(6) {
        0 | 1 => *r.pick(home),
        2 => *r.pick(&['=', '.', '\n', ' ', '\u{0}', '\r', '\t', ':', '/', '_', '-', 'A', 'a', '0', '%', '"', '\\', '\u{7f}', '\u{80}']),
        3 => *r.pick(&['é', 'ａ', 'Ａ', '０', '．', '－', 'ß', 'İ', 'ı', 'K', '\u{200b}', '\u{feff}', '\u{2028}', '😀']),
        // code points whose low byte is an allowed ASCII character (truncating casts): Ł->A, š->a, Å->+, 中->-, ȯ->/, 丮->., ㄰->0, 吽->=
        4 => *r.pick(&['\u{0141}', '\u{0161}', '\u{212b}', '\u{4e2d}', '\u{022f}', '\u{4e2e}', '\u{3130}', '\u{543d}', '\u{1005f}', '\u{017e}']),
        _ => hostile_char(r),
    }
}

/// One edit of `s`: insert, delete, replace, swap, duplicate a character, change case.
fn mutate(r: &mut Rng, s: &str, home: &[char]) -> (String, &'static str) {
    let mut cs: Vec<char> = s.chars().collect();
    let n = cs.len();
    // positions biased to the ends and to separators
    let pos = |r: &mut Rng, upto: usize| -> usize {
        if upto == 0 {
            return 0;
        }
        match r.below(4) {
            0 => 0,
            1 => upto - 1,
            _ => r.below(upto),
        }
    };
    let kind = match r.below(7) {
        0 | 1 => {
            let at = match r.below(3) {
                0 => n,
                _ => pos(r, n + 1),
            };
            cs.insert(at.min(n), hostile_edit_char(r, home));
            "insert"
        }
        2 if n > 0 => {
            cs.remove(pos(r, n));
            "delete"
        }
        3 | 4 if n > 0 => {
            let at = pos(r, n);
            cs[at] = hostile_edit_char(r, home);
            "replace"
        }
        5 if n > 1 => {
            let at = pos(r, n - 1);
            cs.swap(at, at + 1);
            "swap"
        }
        _ if n > 0 => {
            let at = pos(r, n);
            if cs[at].is_ascii_alphabetic() && r.bool() {
                cs[at] = if cs[at].is_ascii_lowercase() { cs[at].to_ascii_uppercase() } else { cs[at].to_ascii_lowercase() };
                "case"
            } else {
                let c = cs[at];
                cs.insert(at, c);
                "duplicate"
            }
        }
        _ => {
            cs.push(hostile_edit_char(r, home));
            "insert"
        }
    };
    (cs.into_iter().collect(), kind)
}

// ---------------------------------------------------------------------------------------------

pub fn run(ctx: &Ctx, report: &mut Report) {
    let replay_seed = ctx.replay.as_ref().map(|(_, s)| *s);
    let small = ctx.scale < 0.5;
    // bounds of the exhaustive parts
    let token_len: usize = if ctx.thorough { 5 } else if small { 3 } else { 4 };
    // (max component length, max total length) for from_components, max total for the string paths
    let (maxc, comp_maxt, parse_maxt): (usize, usize, usize) = if ctx.thorough {
        (3, 7, 6)
    } else if small {
        (2, 5, 4)
    } else {
        (2, 6, 5)
    };

    // ---- tokens: every string up to `token_len` over the boundary alphabet; case_seed = index
    let token_total: u64 = (0..=token_len).map(|k| pow(TOKEN_ALPHABET.len(), k)).sum();
    ctx.fixed(report, "tokens-exhaustive", |rep| {
        const CHUNK: u64 = 2048;
        let items = token_total.div_ceil(CHUNK) as usize;
        parallel(ctx, rep, "tokens-exhaustive", items, |item, env| {
            let lo = item as u64 * CHUNK;
            for idx in lo..(lo + CHUNK).min(token_total) {
                if replay_seed.map(|o| o != idx).unwrap_or(false) {
                    continue;
                }
                let s = nth_string(&TOKEN_ALPHABET, idx);
                env.seed = idx;
                env.rep.distinct.insert(fnv(&token_sig(&s)));
                let valid = env.check::<BearerToken>(&s);
                let len = s.chars().count();
                env.rep.cell(&format!("exhaustive/token-strings/len={}", len));
                if valid {
                    env.rep.cell(&format!("exhaustive/token-strings/valid/len={}", len));
                }
            }
        });
    });

    // ---- rids: every component tuple within the bounds; case_seed = mixed-radix tuple index
    let words = rid_words();
    let lens: Vec<usize> = words.iter().map(|w| w.chars().count()).collect();
    let nw = words_upto(&words, maxc);
    ctx.fixed(report, "rid-exhaustive", |rep| {
        parallel(ctx, rep, "rid-exhaustive", nw * nw, |item, env| {
            tuple_item(env, &words, &lens, nw, item, comp_maxt, parse_maxt, replay_seed);
        });
    });

    // ---- frames: prefixes, suffixes, part counts; case_seed = index in the list
    ctx.fixed(report, "rid-shapes", |rep| {
        let list = shape_strings();
        const CHUNK: usize = 512;
        parallel(ctx, rep, "rid-shapes", list.len().div_ceil(CHUNK), |item, env| {
            for idx in item * CHUNK..((item + 1) * CHUNK).min(list.len()) {
                if replay_seed.map(|o| o != idx as u64).unwrap_or(false) {
                    continue;
                }
                env.seed = idx as u64;
                let s = &list[idx];
                env.rep.distinct.insert(fnv(&rid_sig(s)));
                env.check::<ResourceIdentifier>(s);
                env.rep.cell("exhaustive/rid-shapes/strings");
                // a rid-looking string is never a token unless it matches the token grammar too
                env.check::<BearerToken>(s);
            }
        });
    });

    // ---- long components: lengths around the 8-bit, 16-bit and 17-bit boundaries in each of the four positions
    // (case_seed = position * 100 + index of the length)
    ctx.fixed(report, "rid-long", |rep| {
        const LENS: [usize; 12] = [254, 255, 256, 257, 4096, 65_533, 65_534, 65_535, 65_536, 65_537, 70_000, 131_080];
        let mut env = Env::new(rep, "rid-long");
        for pos in 0..4 {
            for (li, len) in LENS.iter().enumerate() {
                let seed = (pos * 100 + li) as u64;
                if replay_seed.map(|o| o != seed).unwrap_or(false) {
                    continue;
                }
                env.seed = seed;
                let mut r = Rng::new(seed);
                let mut c = ["svc".to_string(), "inst-1".to_string(), "kind".to_string(), "Loc_1.a".to_string()];
                let (first, rest): (&[u8], &[u8]) = match pos {
                    0 | 2 => (LOWER, LOWER_DIGIT_DASH),
                    1 => (LOWER_DIGIT, LOWER_DIGIT_DASH),
                    _ => (LOCATOR, LOCATOR),
                };
                // the long component, the following ones a little longer than default so that truncated offsets show
                c[pos] = word(&mut r, first, rest, *len, *len);
                let joined = format!("ri.{}.{}.{}.{}", c[0], c[1], c[2], c[3]);
                env.rep.distinct.insert(fnv(&format!("long:{}:{}", pos, len)));
                env.check::<ResourceIdentifier>(&joined);
                env.components([&c[0], &c[1], &c[2], &c[3]]);
                env.rep.cell(&format!("long/rid/position-{}", pos));
            }
        }
        env.flush();
    });

    // ---- random: valid values, one-edit mutants, long hostile strings
    ctx.cases(report, "token-random", ctx.n(20_000, 2_000_000), |seed, rep| {
        let mut r = Rng::new(seed);
        let mut env = Env::new(rep, "token-random");
        env.seed = seed;
        let (s, kind) = match r.below(8) {
            0 => (valid_token(&mut r), "valid"),
            1 => (hostile_string(&mut r, 200), "hostile"),
            2 => {
                // long string over the boundary alphabet
                let n = 5 + r.below(60);
                ((0..n).map(|_| *r.pick(&TOKEN_ALPHABET)).collect(), "boundary-alphabet")
            }
            3 => {
                // valid body with '=' somewhere
                let mut t = valid_token(&mut r).trim_end_matches('=').to_string();
                let at = r.below(t.len() + 1);
                t.insert(at, '=');
                (t, "equals-inside")
            }
            _ => {
                let v = valid_token(&mut r);
                mutate(&mut r, &v, &TOKEN_ALPHABET)
            }
        };
        env.rep.sample(2, || json!({"sub": "token-random", "case_seed": seed, "kind": kind, "input": clip(&s)}));
        env.rep.distinct.insert(fnv(&format!("{}:{}", kind, token_sig(&s))));
        let valid = env.check::<BearerToken>(&s);
        env.rep.cell(&format!("random/token/{}/{}", kind, if valid { "valid" } else { "invalid" }));
        env.flush();
    });

    ctx.cases(report, "rid-random", ctx.n(20_000, 2_000_000), |seed, rep| {
        let mut r = Rng::new(seed);
        let mut env = Env::new(rep, "rid-random");
        env.seed = seed;
        let c = valid_components(&mut r);
        let joined = format!("ri.{}.{}.{}.{}", c[0], c[1], c[2], c[3]);
        let home: Vec<char> = "azAZ09-_.".chars().collect();
        let (s, kind) = match r.below(8) {
            0 => (joined.clone(), "valid"),
            1 => (hostile_string(&mut r, 200), "hostile"),
            2 => {
                let n = 3 + r.below(40);
                (format!("ri.{}", (0..n).map(|_| *r.pick(&RID_ALPHABET)).collect::<String>()), "boundary-alphabet")
            }
            3 => {
                // wrong number of parts
                let k = r.below(4);
                (format!("ri.{}", c[..k].join(".")), "too-few-parts")
            }
            _ => mutate(&mut r, &joined, &home),
        };
        env.rep.sample(2, || json!({"sub": "rid-random", "case_seed": seed, "kind": kind, "input": clip(&s)}));
        env.rep.distinct.insert(fnv(&format!("{}:{}", kind, rid_sig(&s))));
        let valid = env.check::<ResourceIdentifier>(&s);
        env.rep.cell(&format!("random/rid/{}/{}", kind, if valid { "valid" } else { "invalid" }));
        // from_components: the valid tuple, and the tuple with one component edited / replaced
        let mut t = c.clone();
        let kind = match r.below(6) {
            0 => "valid",
            1 => {
                let i = r.below(4);
                t[i] = hostile_string(&mut r, 30);
                "hostile-component"
            }
            2 => {
                // a dot moved between neighbours keeps the joined string parseable
                let i = r.below(3);
                let moved = format!("{}.{}", t[i], t[i + 1]);
                t[i] = moved;
                t[i + 1] = word(&mut r, LOWER, LOWER_DIGIT, 1, 3);
                "dot-inside-component"
            }
            3 => {
                let i = r.below(4);
                t[i] = String::new();
                "empty-component"
            }
            _ => {
                let i = r.below(4);
                t[i] = mutate(&mut r, &c[i], &home).0;
                "edited-component"
            }
        };
        env.components([t[0].as_str(), t[1].as_str(), t[2].as_str(), t[3].as_str()]);
        let all = (0..4).all(|i| rid_component_valid(i, &t[i]));
        env.rep.cell(&format!("random/from_components/{}/{}", kind, if all { "valid" } else { "invalid" }));
        env.rep.distinct.insert(fnv(&format!(
            "from_components:{}:{}",
            kind,
            (0..4).map(|i| component_class(i, &t[i])).collect::<String>()
        )));
        env.flush();
    });

    if ctx.replay.is_none() {
        // the exhaustive parts must be complete
        let sum = |report: &Report, prefix: &str| -> u64 {
            report.matrix.iter().filter(|(k, _)| k.starts_with(prefix)).map(|(_, v)| *v).sum()
        };
        let n = sum(report, "exhaustive/token-strings/len=");
        report.floor("exhaustive-token-strings", token_total, n);
        let n = sum(report, "exhaustive/rid-from_components/");
        report.floor("exhaustive-rid-component-tuples", tuple_count(maxc, comp_maxt), n);
        let n = sum(report, "exhaustive/rid-strings/total-len=");
        report.floor("exhaustive-rid-strings", tuple_count(maxc, parse_maxt), n);
        let n = sum(report, "exhaustive/rid-shapes/");
        report.floor("rid-frame-strings", shape_strings().len() as u64, n);
        // every path of both types, each seen accepting and rejecting
        let both = |report: &Report, ty: &str| -> u64 {
            PATHS
                .iter()
                .filter(|p| {
                    report.matrix.contains_key(&format!("path/{}/{}/accepted", ty, p))
                        && report.matrix.contains_key(&format!("path/{}/{}/rejected", ty, p))
                })
                .count() as u64
        };
        let (t, r) = (both(report, "token"), both(report, "rid"));
        report.floor("token-paths-accepting-and-rejecting", PATHS.len() as u64, t);
        report.floor("rid-paths-accepting-and-rejecting", PATHS.len() as u64, r);
        report.floor_cells("from_components-accepting-and-rejecting", "path/rid/from_components/", 2);
        let valid = report.matrix.get("exhaustive/rid-strings/valid").copied().unwrap_or(0);
        report.floor("exhaustive-valid-rids", 50, valid);
        let d = report.distinct.len() as u64;
        report.floor("distinct-shapes", if small { 800 } else { 4_000 }, d);
    }
    report.notes.push(format!(
        "exhaustive: true for (1) all {} strings of length 0..={} over the {}-character token boundary alphabet {:?}; \
         (2) all {} rid component tuples over {:?} with every component <= {} and total length <= {} through from_components, \
         and the {} joined strings `ri.a.b.c.d` with total length <= {} through every string entry path; \
         (3) {} frame variants (prefix x suffix x part count). {} entry paths per type.",
        token_total,
        token_len,
        TOKEN_ALPHABET.len(),
        TOKEN_ALPHABET,
        tuple_count(maxc, comp_maxt),
        RID_ALPHABET,
        maxc,
        comp_maxt,
        tuple_count(maxc, parse_maxt),
        parse_maxt,
        shape_strings().len(),
        PATHS.len()
    ));
    report.notes.push(
        "distinct = per-character class pattern (tokens up to length 4), per-component class pattern (rids), \
         coarse class summaries for long / random strings and mutants (kind x summary)"
            .into(),
    );
}

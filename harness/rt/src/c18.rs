//! C18 – clients return a value only from a complete, correctly typed response.
//!
//! A scripted transport answers every request with a response assembled by the harness: status,
//! Content-Type, a body built constructively from a known value (or broken in a known way), any
//! chunking, and a stream error at any chunk index. Generated clients of every return class and
//! macro clients are driven, blocking and async; the two flavours must agree.
use crate::ctx::{guarded, Ctx};
use crate::gen::sink::*;
use crate::hand;
use crate::node::trunc;
use crate::svc::*;
use bytes::Bytes;
use conjure_error::Error;
use conjure_http::client::{AsyncClient, AsyncRequestBody, AsyncService, Client, RequestBody, Service};
use conjure_serde::json;
use http::{HeaderValue, Request, Response, StatusCode};
use labrt::{all_chunkings, block_on, random_chunking, ChunkStream, Chunks};
use serde::de::DeserializeOwned;
use serde::Serialize;
use serde_json::json;
use std::collections::{BTreeMap, BTreeSet};
use std::sync::Mutex;
use vcore::rng::fnv;
use vcore::text::*;
use vcore::{Report, Rng};

#[derive(Clone)]
struct Script {
    status: u16,
    content_type: Option<Vec<u8>>,
    chunks: Chunks,
}

struct Scripted(Mutex<Option<Script>>);

impl Scripted {
    fn response<B>(&self, wrap: impl FnOnce(Chunks) -> B) -> Response<B> {
        let s = self.0.lock().unwrap().take().expect("script consumed twice");
        let mut resp = Response::new(wrap(s.chunks));
        *resp.status_mut() = StatusCode::from_u16(s.status).unwrap();
        if let Some(ct) = s.content_type {
            resp.headers_mut().insert(http::header::CONTENT_TYPE, HeaderValue::from_bytes(&ct).unwrap());
        }
        resp
    }
}

impl Client for &Scripted {
    type BodyWriter = Vec<u8>;
    type ResponseBody = Chunks;
    fn send(&self, _: Request<RequestBody<'_, Vec<u8>>>) -> Result<Response<Chunks>, Error> {
        Ok(self.response(|c| c))
    }
}

impl AsyncClient for &Scripted {
    type BodyWriter = Vec<u8>;
    type ResponseBody = ChunkStream;
    async fn send(&self, _: Request<AsyncRequestBody<'_, Vec<u8>>>) -> Result<Response<ChunkStream>, Error> {
        Ok(self.response(ChunkStream::new))
    }
}

#[derive(Clone, Copy, PartialEq, Debug)]
enum Class {
    Unit,
    Value,
    Optional,
    Collection,
    Binary,
    OptionalBinary,
}

#[derive(Clone, Copy, PartialEq, Debug)]
enum Shape {
    Str,
    Arr,
    Obj,
    Num,
    Any,
}

enum Call {
    Sink(Req),
    Hand(hand::HReq),
}

struct Ep {
    name: &'static str,
    class: Class,
    shape: Shape,
    call: fn(&mut Rng) -> Call,
    /// a valid document of the return type
    gen: fn(&mut Rng) -> String,
    canon: fn(&str) -> String,
    /// rendering of the empty value a 204 stands for (None: 204 is not a valid answer)
    empty: Option<&'static str>,
}

fn canon<T: DeserializeOwned + Serialize>(d: &str) -> String {
    let v: T = json::client_from_str(d).unwrap_or_else(|e| panic!("generator produced an invalid document {}: {}", d, e));
    j(&v)
}

fn str_doc(r: &mut Rng) -> String {
    j(&hostile_string(r, 10))
}

fn strs_doc(r: &mut Rng) -> String {
    format!("[{}]", (0..1 + r.below(4)).map(|_| str_doc(r)).collect::<Vec<_>>().join(","))
}

fn eps() -> Vec<Ep> {
    let tok = || conjure_object::BearerToken::new("tok").unwrap();
    vec![
        Ep { name: "unitReturn", class: Class::Unit, shape: Shape::Any, call: |_| Call::Sink(Req::UnitReturn(1)),
             gen: |r| r.pick(&["null", "1", "\"x\"", "[1,{\"a\":null}]", "{\"k\":[true]}", "-0.5e3"]).to_string(), canon: |_| "null".into(), empty: Some("null") },
        Ep { name: "smallBody", class: Class::Value, shape: Shape::Str, call: |_| Call::Sink(Req::SmallBody("x".into())), gen: str_doc, canon: canon::<String>, empty: None },
        Ep { name: "jsonBody", class: Class::Value, shape: Shape::Obj, call: |r| Call::Sink(Req::JsonBody(Box::new(gen_payload(r)))), gen: |r| gen_payload_json(r, 1), canon: canon::<Payload>, empty: None },
        Ep { name: "cookieAuth", class: Class::Value, shape: Shape::Num, call: |_| Call::Sink(Req::CookieAuth { token: conjure_object::BearerToken::new("tok").unwrap(), body: 1 }),
             gen: |r| hostile_i32(r).to_string(), canon: canon::<i32>, empty: None },
        Ep { name: "choiceBody", class: Class::Value, shape: Shape::Obj, call: |r| Call::Sink(Req::ChoiceBody(gen_choice(r))), gen: |r| j(&gen_choice(r)), canon: canon::<Choice>, empty: None },
        Ep { name: "optReturn", class: Class::Optional, shape: Shape::Str, call: |_| Call::Sink(Req::OptReturn(1)), gen: str_doc, canon: canon::<Option<String>>, empty: Some("null") },
        Ep { name: "aliasOptReturn", class: Class::Optional, shape: Shape::Num, call: |_| Call::Sink(Req::AliasOptReturn(1)), gen: |r| hostile_i32(r).to_string(), canon: canon::<MaybeCount>, empty: Some("null") },
        Ep { name: "optBody", class: Class::Optional, shape: Shape::Obj, call: |_| Call::Sink(Req::OptBody(None)), gen: gen_item_json, canon: canon::<Option<Item>>, empty: Some("null") },
        Ep { name: "queryParams", class: Class::Collection, shape: Shape::Arr, call: |_| Call::Sink(Req::QueryParams {
                text: "t".into(), maybe_num: None, str_list: vec![], str_set: BTreeSet::new(), flag: true, dbl: 1.0, uid: None, nums: vec![], flavors: BTreeSet::new(),
                alias_opt: MaybeCount(None), alias_list: Names(vec![]), when: None }),
             gen: strs_doc, canon: canon::<Vec<String>>, empty: Some("[]") },
        Ep { name: "listBody", class: Class::Collection, shape: Shape::Arr, call: |_| Call::Sink(Req::ListBody(vec![1.0])),
             gen: |r| format!("[{}]", (0..1 + r.below(4)).map(|_| j(&hostile_f64(r))).collect::<Vec<_>>().join(",")), canon: canon::<BTreeSet<conjure_object::DoubleKey>>, empty: Some("[]") },
        Ep { name: "mapReturn", class: Class::Collection, shape: Shape::Obj, call: |_| Call::Sink(Req::MapReturn(1)),
             gen: |r| format!("{{{}}}", (0..1 + r.below(3)).map(|i| format!("\"k{}\":{}", i, j(&hostile_f64(r)))).collect::<Vec<_>>().join(",")), canon: canon::<BTreeMap<String, f64>>, empty: Some("{}") },
        Ep { name: "binaryBody", class: Class::Binary, shape: Shape::Any, call: |_| Call::Sink(Req::BinaryBody(vec![1, 2, 3])), gen: |_| String::new(), canon: |_| String::new(), empty: None },
        Ep { name: "optBinaryReturn", class: Class::OptionalBinary, shape: Shape::Any, call: |_| Call::Sink(Req::OptBinaryReturn(true)), gen: |_| String::new(), canon: |_| String::new(), empty: Some("<absent>") },
        Ep { name: "aliasBinaryBody", class: Class::OptionalBinary, shape: Shape::Any, call: |_| Call::Sink(Req::AliasBinaryBody(vec![9])), gen: |_| String::new(), canon: |_| String::new(), empty: Some("<absent>") },
        Ep { name: "hand.paths", class: Class::Value, shape: Shape::Str, call: |_| Call::Hand(hand::HReq::Paths { p: "p".into(), q: 1 }), gen: str_doc, canon: canon::<String>, empty: None },
        Ep { name: "hand.query", class: Class::Value, shape: Shape::Arr, call: |_| Call::Hand(hand::HReq::Query { a: "a".into(), list: vec![], c: "c".into() }), gen: strs_doc, canon: canon::<Vec<String>>, empty: None },
        Ep { name: "hand.body", class: Class::Value, shape: Shape::Obj, call: move |r| Call::Hand(hand::HReq::Body { auth: conjure_object::BearerToken::new("tok").unwrap(), id: "i".into(), custom: "c".into(), body: gen_item(r) }),
             gen: gen_item_json, canon: canon::<Item>, empty: None },
    ]
    .into_iter()
    .map(|e| {
        let _ = &tok;
        e
    })
    .collect()
}

#[derive(Clone, Debug)]
struct Resp {
    status: u16,
    ct: Option<Vec<u8>>,
    ct_class: &'static str,
    body: Vec<u8>,
    body_class: &'static str,
    /// Some(true): exactly one document of the return type (unknown members allowed)
    body_ok: Option<bool>,
    want: String,
}

fn make_response(r: &mut Rng, ep: &Ep) -> Resp {
    let binary = matches!(ep.class, Class::Binary | Class::OptionalBinary);
    let requested: &[u8] = if binary { b"application/octet-stream" } else { b"application/json" };
    let (ct, ct_class): (Option<Vec<u8>>, &'static str) = match r.below(18) {
        0 => (None, "absent"),
        1 => (Some(if binary { b"application/json".to_vec() } else { b"application/octet-stream".to_vec() }), "other-conjure-type"),
        2 => (Some(b"application/x-jackson-smile".to_vec()), "smile"),
        3 => (Some(b"text/plain".to_vec()), "text"),
        4 => (Some([requested, b"; charset=utf-8"].concat()), "with-parameters(observed-only)"),
        5 => (Some(requested.to_ascii_uppercase()), "upper-case(observed-only)"),
        6 => (Some(b"text/html; charset=\xe9".to_vec()), "non-ascii"),
        7 => (Some([requested, b"\xff"].concat()), "non-ascii"),
        8 => (Some([requested, b"+zip"].concat()), "suffix"),
        _ => (Some(requested.to_vec()), "requested"),
    };
    let status = match r.below(10) {
        0 | 1 => 204,
        2 => *r.pick(&[201u16, 202, 203, 206]),
        _ => 200,
    };
    if binary {
        let body = if status == 204 && r.chance(3, 4) { vec![] } else { hostile_bytes(r, 200) };
        let want = if ep.class == Class::Binary { hex(&body) } else { hex(&body) };
        return Resp { status, ct, ct_class, body, body_class: "bytes", body_ok: Some(true), want };
    }
    let d = (ep.gen)(r);
    let want = (ep.canon)(&d);
    const GARBAGE: &[&[u8]] = &[b"x", b"}", b"]", b"\"", b",", b"\x00", b"\xff", b"null", b"{}"];
    let garbage = GARBAGE[r.below(GARBAGE.len())];
    let numeric = ep.shape == Shape::Num;
    let base = d.as_bytes();
    let (body, body_class, body_ok): (Vec<u8>, &'static str, Option<bool>) = match r.below(14) {
        0 => ([base, b" \n"].concat(), "trailing-whitespace", Some(true)),
        1 => ([b"\t ", base].concat(), "leading-whitespace", Some(true)),
        2 => ([base, garbage].concat(), "trailing-garbage", Some(false)),
        3 => ([base, b" ", base].concat(), "two-documents", Some(false)),
        4 if !numeric && ep.shape != Shape::Any && base.len() > 1 => (base[..1 + r.below(base.len() - 1)].to_vec(), "truncated", Some(false)),
        5 => (vec![], "empty", Some(false)),
        6 => {
            let mut b = base.to_vec();
            let i = r.below(b.len());
            b[i] = *r.pick(&[b'}', b'x', b'"', b',', 0u8, 0xff, b':', b'[']);
            let still = vcore::json::parse(&b).is_ok();
            // a unit endpoint skips the body without validating string contents; whether invalid
            // UTF-8 inside a string literal makes the body "not well-formed" is left open
            let skipped_unvalidated = ep.class == Class::Unit && std::str::from_utf8(&b).is_err();
            (b, "corrupted-byte", if still || skipped_unvalidated { None } else { Some(false) })
        }
        7 if ep.shape == Shape::Obj && d.trim_end().ends_with('}') && !matches!(ep.name, "mapReturn" | "choiceBody") => {
            // unknown members are tolerated by clients (objects only, not maps / unions)
            let mut t = d.trim_end().to_string();
            t.pop();
            let sep = if t.trim_end().ends_with('{') { "" } else { "," };
            (format!("{}{}\"zzUnknown\":{}}}", t, sep, r.pick(&["1", "null", "{\"a\":[]}"])).into_bytes(), "unknown-member", Some(true))
        }
        8 if ep.class != Class::Unit => {
            let wrong = match ep.shape {
                Shape::Str => "17",
                Shape::Arr => "{\"a\":1}",
                Shape::Obj => "[1,2]",
                _ => "\"12\"",
            };
            (wrong.as_bytes().to_vec(), "wrong-json-kind", Some(false))
        }
        _ => (base.to_vec(), "exact", Some(true)),
    };
    if status == 204 && r.chance(3, 4) {
        return Resp { status, ct, ct_class, body: vec![], body_class: "empty", body_ok: Some(false), want };
    }
    Resp { status, ct, ct_class, body, body_class, body_ok, want }
}

fn invoke(ep: &Ep, call: &Call, script: Script, is_async: bool) -> Result<Result<String, Error>, String> {
    let t = Scripted(Mutex::new(Some(script)));
    match (call, is_async) {
        (Call::Sink(req), false) => {
            let c = SinkServiceClient::new(&t);
            guarded(|| invoke_sync_any(&c, req))
        }
        (Call::Sink(req), true) => {
            let c = SinkServiceAsyncClient::new(&t);
            guarded(|| block_on(invoke_async_any(&c, req)))
        }
        (Call::Hand(req), false) => {
            let c = hand::HandApiClient::new(&t);
            guarded(|| hand_sync(&c, req))
        }
        (Call::Hand(req), true) => {
            let c = hand::AsyncHandApiClient::new(&t);
            guarded(|| block_on(hand_async(&c, req)))
        }
    }
    .map(|r| {
        let _ = ep;
        r
    })
}

// The invocation helpers in svc.rs / hand.rs are typed to the loop-back transport; these are the
// same calls over the scripted transport.
macro_rules! invoke_scripted {
    ($fname:ident, $client:ty, [$($async_:tt)?], [$($await_:tt)*], $collect:expr) => {
        $($async_)? fn $fname(c: &$client, req: &Req) -> Result<String, Error> {
            let collect = $collect;
            let opt_hex = |r: Option<Vec<u8>>| r.map(|b| hex(&b)).unwrap_or_else(|| "<absent>".into());
            Ok(match req {
                Req::UnitReturn(n) => j(&c.unit_return(*n)$($await_)*?),
                Req::SmallBody(s) => j(&c.small_body(s)$($await_)*?),
                Req::JsonBody(p) => j(&c.json_body(p)$($await_)*?),
                Req::CookieAuth { token, body } => j(&c.cookie_auth(token, *body)$($await_)*?),
                Req::ChoiceBody(ch) => j(&c.choice_body(ch)$($await_)*?),
                Req::OptReturn(n) => j(&c.opt_return(*n)$($await_)*?),
                Req::AliasOptReturn(n) => j(&c.alias_opt_return(*n)$($await_)*?),
                Req::OptBody(b) => j(&c.opt_body(b.as_ref())$($await_)*?),
                Req::QueryParams { text, maybe_num, str_list, str_set, flag, dbl, uid, nums, flavors, alias_opt, alias_list, when } => {
                    j(&c.query_params(text, *maybe_num, str_list, str_set, *flag, *dbl, *uid, nums, flavors, alias_opt.clone(), alias_list, *when)$($await_)*?)
                }
                Req::ListBody(v) => j(&c.list_body(v)$($await_)*?),
                Req::MapReturn(n) => j(&c.map_return(*n)$($await_)*?),
                Req::BinaryBody(b) => {
                    let body = c.binary_body(Upload(b.clone()))$($await_)*?;
                    hex(&collect(body)$($await_)*?)
                }
                Req::AliasBinaryBody(b) => match c.alias_binary_body(Upload(b.clone()))$($await_)*? {
                    Some(body) => opt_hex(Some(collect(body)$($await_)*?)),
                    None => opt_hex(None),
                },
                Req::OptBinaryReturn(p) => match c.opt_binary_return(*p)$($await_)*? {
                    Some(body) => opt_hex(Some(collect(body)$($await_)*?)),
                    None => opt_hex(None),
                },
                _ => unreachable!("not used by C18"),
            })
        }
    };
}

invoke_scripted!(invoke_sync_any, SinkServiceClient<&Scripted>, [], [], |c: Chunks| c.collect_bytes());
invoke_scripted!(invoke_async_any, SinkServiceAsyncClient<&Scripted>, [async], [.await], |c: ChunkStream| c.collect_bytes());

fn hand_sync(c: &hand::HandApiClient<&Scripted>, req: &hand::HReq) -> Result<String, Error> {
    use hand::HandApi;
    Ok(match req {
        hand::HReq::Paths { p, q } => j(&c.paths(p, *q)?),
        hand::HReq::Query { a, list, c: cc } => j(&c.query(a, list, cc)?),
        hand::HReq::Body { auth, id, custom, body } => j(&c.body(auth, id, custom, body)?),
        hand::HReq::Multi(rest) => j(&c.multi(rest)?),
    })
}

async fn hand_async(c: &hand::AsyncHandApiClient<&Scripted>, req: &hand::HReq) -> Result<String, Error> {
    use hand::AsyncHandApi;
    Ok(match req {
        hand::HReq::Paths { p, q } => j(&c.paths(p, *q).await?),
        hand::HReq::Query { a, list, c: cc } => j(&c.query(a, list, cc).await?),
        hand::HReq::Body { auth, id, custom, body } => j(&c.body(auth, id, custom, body).await?),
        hand::HReq::Multi(rest) => j(&c.multi(rest).await?),
    })
}

/// Reference decision. `Ok(Some(text))`: this value must be returned; `Ok(None)`: an error must be
/// returned; `Err(class)`: the property leaves the case open.
fn expect(ep: &Ep, rs: &Resp, fail_at: Option<usize>) -> Result<Option<String>, &'static str> {
    if ![200, 204].contains(&rs.status) {
        return Err("other-2xx-status");
    }
    if rs.status == 204 {
        if let Some(empty) = ep.empty {
            if !rs.body.is_empty() {
                return Err("204-with-body");
            }
            return Ok(Some(empty.to_string()));
        }
        // for return types that have no empty value a 204 is judged like any other response:
        // a value only if the Content-Type is the requested one and the body is one document
        if !rs.body.is_empty() {
            return Err("204-with-body");
        }
    }
    if rs.ct_class.ends_with("(observed-only)") {
        return Err("content-type-spelling");
    }
    if rs.ct_class != "requested" {
        return Ok(None);
    }
    if fail_at.is_some() {
        return Ok(None);
    }
    match rs.body_ok {
        Some(true) => Ok(Some(rs.want.clone())),
        Some(false) => Ok(None),
        None => Err("undecided-by-construction"),
    }
}

#[allow(clippy::too_many_arguments)]
fn run_one(rep: &mut Report, sub: &str, seed: u64, ep: &Ep, call: &Call, rs: &Resp, chunks: Vec<Bytes>, fail_at: Option<usize>) {
    let n = chunks.len();
    let mk = || {
        let mut c = Chunks::of(chunks.clone());
        if let Some(at) = fail_at {
            c = c.fail_at(at);
        }
        Script { status: rs.status, content_type: rs.ct.clone(), chunks: c }
    };
    let sync = invoke(ep, call, mk(), false);
    let asyn = invoke(ep, call, mk(), true);
    let exp = expect(ep, rs, fail_at);
    let chunk_class = match n {
        0 => "0",
        1 => "1",
        2 => "2",
        _ => "3+",
    };
    let render = |r: &Result<Result<String, Error>, String>| match r {
        Err(p) => format!("panic: {}", p),
        Ok(Ok(v)) => format!("Ok({})", trunc(v)),
        Ok(Err(e)) => format!("Err({})", labrt::error_class(e)),
    };
    let detail = |what: &str| {
        json!({"endpoint": ep.name, "class": format!("{:?}", ep.class), "what": what, "status": rs.status, "content_type": rs.ct.as_ref().map(|v| String::from_utf8_lossy(v).to_string()),
               "body": trunc(&String::from_utf8_lossy(&rs.body)), "body_class": rs.body_class, "chunks": n, "stream_error_at": fail_at,
               "expected": format!("{:?}", exp), "blocking": render(&sync), "async": render(&asyn)})
    };
    for (flavour, out) in [("blocking", &sync), ("async", &asyn)] {
        rep.evaluations += 1;
        rep.cell(&format!("class/{:?}/{}", ep.class, flavour));
        rep.cell(&format!("body/{}", rs.body_class));
        rep.cell(&format!("content-type/{}", rs.ct_class));
        rep.cell(&format!("chunks/{}/{}", flavour, chunk_class));
        if fail_at.is_some() {
            rep.cell(&format!("stream-error/{}/{}", flavour, chunk_class));
        }
        rep.distinct.insert(fnv(&format!("{}|{}|{}|{}|{}|{}|{}", ep.name, rs.status, rs.ct_class, rs.body_class, chunk_class, fail_at.map(|a| a.min(3) as i64).unwrap_or(-1), flavour)));
        let out = match out {
            Err(_) => {
                rep.violation(sub, seed, format!("{}:panic:{:?}", flavour, ep.class), detail("panic"));
                return;
            }
            Ok(o) => o,
        };
        match (&exp, out) {
            (Err(class), _) => rep.observed_only(class),
            (Ok(Some(want)), Ok(got)) if got == want => {}
            (Ok(Some(_)), Ok(_)) => {
                rep.violation(sub, seed, format!("{}:wrong-value:{:?}:{}", flavour, ep.class, rs.body_class), detail("returned a different value"));
                return;
            }
            (Ok(Some(_)), Err(_)) => {
                rep.violation(sub, seed, format!("{}:rejected-valid-response:{:?}:{}", flavour, ep.class, rs.body_class), detail("error for a complete, correctly typed response"));
                return;
            }
            (Ok(None), Ok(_)) => {
                let why = if rs.status == 204 {
                    "204-for-non-empty-type"
                } else if rs.ct_class != "requested" {
                    "content-type"
                } else if fail_at.is_some() {
                    "stream-error"
                } else {
                    rs.body_class
                };
                rep.violation(sub, seed, format!("{}:value-from-bad-response:{:?}:{}", flavour, ep.class, why), detail("a value was returned from an inadmissible response"));
                return;
            }
            (Ok(None), Err(_)) => {}
        }
    }
    // differential: the duplicated blocking / async code paths must agree
    if let (Ok(a), Ok(b)) = (&sync, &asyn) {
        let same = match (a, b) {
            (Ok(x), Ok(y)) => x == y,
            (Err(_), Err(_)) => true,
            _ => false,
        };
        if !same {
            rep.violation(sub, seed, format!("twins-disagree:{:?}:{}", ep.class, rs.body_class), detail("blocking and async clients disagree"));
        }
    }
}

pub fn run(ctx: &Ctx, report: &mut Report) {
    ctx.cases(report, "random", ctx.n(60_000, 3_000_000), |seed, rep| {
        let eps = eps();
        let mut r = Rng::new(seed);
        let ep = r.pick(&eps);
        let call = (ep.call)(&mut r);
        let rs = make_response(&mut r, ep);
        let chunks = random_chunking(&mut r, &rs.body);
        let fail_at = if r.chance(1, 5) { Some(r.below(chunks.len() + 1)) } else { None };
        rep.sample(5, || json!({"sub": "random", "case_seed": seed, "endpoint": ep.name, "status": rs.status, "content_type": rs.ct.as_ref().map(|v| String::from_utf8_lossy(v).to_string()),
            "body": trunc(&String::from_utf8_lossy(&rs.body)), "body_class": rs.body_class, "chunks": chunks.len(), "stream_error_at": fail_at}));
        run_one(rep, "random", seed, ep, &call, &rs, chunks, fail_at);
    });
    ctx.fixed(report, "enumerated", |rep| {
        // all chunkings (<= 1 empty chunk) x error positions of a few small responses
        let eps = eps();
        let mut r = Rng::new(7);
        let pick = |n: &str| eps.iter().find(|e| e.name == n).unwrap();
        let cases: Vec<(&Ep, &str, &'static str, Option<bool>, &str)> = vec![
            (pick("smallBody"), "\"ab\"", "exact", Some(true), "\"ab\""),
            (pick("smallBody"), "\"ab\"x", "trailing-garbage", Some(false), ""),
            (pick("optReturn"), "\"a\"", "exact", Some(true), "\"a\""),
            (pick("queryParams"), "[\"a\"]", "exact", Some(true), "[\"a\"]"),
            (pick("queryParams"), "[\"a\"", "truncated", Some(false), ""),
            (pick("cookieAuth"), "12", "exact", Some(true), "12"),
            (pick("unitReturn"), "[1]", "exact", Some(true), "null"),
            (pick("hand.paths"), "\"ab\"", "exact", Some(true), "\"ab\""),
        ];
        let mut total = 0u64;
        for (idx, (ep, text, class, ok, want)) in cases.iter().enumerate() {
            let call = (ep.call)(&mut r);
            let rs = Resp { status: 200, ct: Some(b"application/json".to_vec()), ct_class: "requested", body: text.as_bytes().to_vec(), body_class: class, body_ok: *ok, want: want.to_string() };
            for (k, ch) in all_chunkings(text.as_bytes(), 1).into_iter().enumerate() {
                let n = ch.len();
                run_one(rep, "enumerated", (idx * 1_000_000 + k) as u64, ep, &call, &rs, ch.clone(), None);
                for at in 0..=n {
                    run_one(rep, "enumerated", (idx * 1_000_000 + k) as u64, ep, &call, &rs, ch.clone(), Some(at));
                }
                total += 2 * (n as u64 + 2);
            }
        }
        rep.cell_n("exhaustive/chunkings-x-error-positions", total);
    });
    if ctx.replay.is_none() {
        report.floor_cells("return-classes", "class/", 12);
        report.floor_cells("body-classes", "body/", 10);
        report.floor_cells("content-type-classes", "content-type/", 9);
        report.floor_cells("chunk-paths", "chunks/", 8);
        report.floor_cells("stream-error-paths", "stream-error/", 8);
    }
    report.notes.push("exhaustive part: all chunkings (<= 1 interleaved empty chunk) x stream-error positions of 8 small responses, blocking and async".into());
    report.notes.push("distinct = (endpoint, status, content-type class, body class, chunk-path class, error position class, flavour)".into());
}

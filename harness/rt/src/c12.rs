pub fn run(_ctx: &crate::ctx::Ctx, _report: &mut vcore::Report) {}

//! C12 – PLAIN text of every parameter value parses back to the same value.
//!
//! For every PLAIN-capable runtime type: `from_plain(to_plain(v)) == v` (NaN <-> NaN), and the
//! text is recognised by an independent *spelling recogniser* for the spellings the property
//! names (non-finite names, padded standard Base64, RFC 3339, true/false, hyphenated uuid).
//! Generated enums and aliases are covered by the lab half, not here.
use crate::ctx::{guarded, Ctx};
use conjure_object::{
    BearerToken, Bytes, DateTime, FromPlain, Plain, ResourceIdentifier, SafeLong, ToPlain, Utc, Uuid,
};
use serde_json::json;
use vcore::models::{b64_decode, b64_encode, b64_shape};
use vcore::rng::fnv;
use vcore::text::*;
use vcore::{Report, Rng};

/// Values generated per case of a `ctx.cases` sub-monitor (amortises the per-case seeding).
const BATCH: usize = 32;

// ---------------------------------------------------------------------------------------------
// generic round trip

struct Probe<'a> {
    rep: &'a mut Report,
    sub: &'a str,
    seed: u64,
}

impl Probe<'_> {
    fn fail(&mut self, ty: &str, what: &str, shown: &str, text: Option<&str>, info: String) {
        self.rep.violation(
            self.sub,
            self.seed,
            format!("{}:{}", ty, what),
            json!({"type": ty, "value": trunc(shown), "plain_text": text.map(trunc), "what": what, "info": trunc(&info)}),
        );
    }

    /// One value: `to_plain`, the spelling recogniser (if the property names a spelling for the
    /// type), `from_plain`, equality. Returns the text for further (observed-only) bookkeeping.
    fn roundtrip<T>(
        &mut self,
        ty: &str,
        v: &T,
        shown: &str,
        eq: impl Fn(&T, &T) -> bool,
        show: impl Fn(&T) -> String,
        spelling: Option<&dyn Fn(&str) -> Result<(), String>>,
    ) -> Option<String>
    where
        T: Plain + FromPlain,
        T::Err: std::fmt::Display + Into<Box<dyn std::error::Error + Sync + Send>>,
    {
        self.rep.evaluations += 1;
        self.rep.cell(&format!("type/{}", ty));
        let text = match guarded(|| v.to_plain()) {
            Ok(t) => t,
            Err(p) => {
                self.fail(ty, "to_plain-panic", shown, None, p);
                return None;
            }
        };
        if let Some(rec) = spelling {
            self.rep.evaluations += 1;
            if let Err(why) = rec(&text) {
                self.fail(ty, "spelling", shown, Some(&text), why);
            }
        }
        match guarded(|| T::from_plain(&text)) {
            Err(p) => self.fail(ty, "from_plain-panic", shown, Some(&text), p),
            Ok(Err(e)) => self.fail(ty, "rejects-own-text", shown, Some(&text), e.to_string()),
            Ok(Ok(back)) => {
                if !eq(v, &back) {
                    self.fail(ty, "value-changed", shown, Some(&text), format!("parsed back as {}", show(&back)));
                }
            }
        }
        self.decoders(ty, v, shown, &text, &eq);
        Some(text)
    }

    /// The same text through the server's parameter decoders (the parse path of path, query and
    /// header parameters): required, optional (present / absent) and repeated.
    fn decoders<T>(&mut self, ty: &str, v: &T, shown: &str, text: &str, eq: &impl Fn(&T, &T) -> bool)
    where
        T: Plain + FromPlain,
        T::Err: std::fmt::Display + Into<Box<dyn std::error::Error + Sync + Send>>,
    {
        use conjure_http::server::conjure::{FromPlainDecoder, FromPlainOptionDecoder, FromPlainSeqDecoder};
        use conjure_http::server::{ConjureRuntime, DecodeHeader, DecodeParam};
        let rt = ConjureRuntime::new();
        let mut outcomes: Vec<(&'static str, Result<Result<bool, String>, String>)> = vec![];
        outcomes.push(("param/required", guarded(|| <FromPlainDecoder as DecodeParam<T>>::decode(&rt, [text]).map(|b| eq(v, &b)).map_err(|e| e.cause().to_string()))));
        outcomes.push(("param/optional-present", guarded(|| {
            <FromPlainOptionDecoder as DecodeParam<Option<T>>>::decode(&rt, [text]).map(|b| b.as_ref().map(|b| eq(v, b)).unwrap_or(false)).map_err(|e| e.cause().to_string())
        })));
        outcomes.push(("param/optional-absent", guarded(|| {
            <FromPlainOptionDecoder as DecodeParam<Option<T>>>::decode(&rt, Vec::<String>::new()).map(|b| b.is_none()).map_err(|e| e.cause().to_string())
        })));
        outcomes.push(("param/repeated", guarded(|| {
            <FromPlainSeqDecoder<T> as DecodeParam<Vec<T>>>::decode(&rt, [text, text]).map(|b| b.len() == 2 && b.iter().all(|b| eq(v, b))).map_err(|e| e.cause().to_string())
        })));
        // HTTP carries only visible ASCII as header text (C04); other texts never reach a header decoder
        if let Some(h) = http::HeaderValue::from_str(text).ok().filter(|_| text.bytes().all(|b| (0x20..0x7f).contains(&b))) {
            outcomes.push(("header/required", guarded(|| <FromPlainDecoder as DecodeHeader<T>>::decode(&rt, [&h]).map(|b| eq(v, &b)).map_err(|e| e.cause().to_string()))));
            outcomes.push(("header/optional-present", guarded(|| {
                <FromPlainOptionDecoder as DecodeHeader<Option<T>>>::decode(&rt, [&h]).map(|b| b.as_ref().map(|b| eq(v, b)).unwrap_or(false)).map_err(|e| e.cause().to_string())
            })));
        }
        for (which, out) in outcomes {
            self.rep.evaluations += 1;
            self.rep.cell(&format!("decoder/{}", which));
            match out {
                Err(p) => self.fail(ty, &format!("decoder:{}:panic", which), shown, Some(text), p),
                Ok(Err(e)) => self.fail(ty, &format!("decoder:{}:rejects-own-text", which), shown, Some(text), e),
                Ok(Ok(false)) => self.fail(ty, &format!("decoder:{}:value-changed", which), shown, Some(text), String::new()),
                Ok(Ok(true)) => {}
            }
        }
    }
}

fn trunc(s: &str) -> String {
    if s.chars().count() > 400 {
        let t: String = s.chars().take(400).collect();
        format!("{}…", t)
    } else {
        s.to_string()
    }
}

// ---------------------------------------------------------------------------------------------
// f64

fn f64_eq(a: &f64, b: &f64) -> bool {
    (a.is_nan() && b.is_nan()) || a == b
}

fn f64_show(v: &f64) -> String {
    format!("{:?} (bits {:#018x})", v, v.to_bits())
}

fn mant_class(m: u64) -> &'static str {
    const ALL: u64 = 0x000f_ffff_ffff_ffff;
    match m {
        0 => "zero",
        1 => "one",
        ALL => "all-ones",
        0x0008_0000_0000_0000 => "top-bit",
        m if m.count_ones() <= 3 => "sparse",
        m if m.count_ones() >= 49 => "dense",
        m if m.trailing_zeros() >= 26 => "short",
        _ => "random",
    }
}

fn f64_class(v: f64) -> &'static str {
    let e = (v.to_bits() >> 52) & 0x7ff;
    let m = v.to_bits() & 0x000f_ffff_ffff_ffff;
    match (e, m) {
        (0, 0) => "zero",
        (0, _) => "subnormal",
        (0x7ff, 0) => "infinite",
        (0x7ff, _) => "nan",
        _ => "normal",
    }
}

fn check_f64(p: &mut Probe, v: f64) {
    let bits = v.to_bits();
    let e = (bits >> 52) & 0x7ff;
    let sign = if bits >> 63 == 1 { "-" } else { "+" };
    let class = f64_class(v);
    p.rep.distinct.insert(fnv(&format!("f64:exp={}:{}:{}", e, sign, class)));
    p.rep.distinct.insert(fnv(&format!("f64:mant={}:{}", mant_class(bits & 0x000f_ffff_ffff_ffff), class)));
    p.rep.cell(&format!("f64/{}", class));
    p.rep.cell(&format!("f64-exp/{:04}..", e / 128 * 128));
    let spelling = |t: &str| -> Result<(), String> {
        // The property names the spelling of the three non-finite values only.
        let want = if v.is_nan() {
            Some("NaN")
        } else if v == f64::INFINITY {
            Some("Infinity")
        } else if v == f64::NEG_INFINITY {
            Some("-Infinity")
        } else {
            None
        };
        match want {
            Some(w) if t != w => Err(format!("non-finite value must be spelled {:?}", w)),
            None if matches!(t, "NaN" | "Infinity" | "-Infinity") => {
                Err("finite value spelled as a non-finite name".to_string())
            }
            _ => Ok(()),
        }
    };
    let text = p.roundtrip("f64", &v, &f64_show(&v), f64_eq, f64_show, Some(&spelling));
    if let Some(t) = text {
        if class == "zero" && sign == "-" {
            // the sign of zero is not claimed by `==`; count what happens
            let kept = f64::from_plain(&t).map(|b| b.is_sign_negative()).unwrap_or(false);
            p.rep.observed_only(if kept { "f64/neg-zero/sign-kept" } else { "f64/neg-zero/sign-lost" });
        }
        if class == "nan" {
            p.rep.observed_only("f64/nan-payload-and-sign (not claimed)");
        }
    }
}

fn gen_f64(r: &mut Rng) -> f64 {
    if r.bool() {
        return hostile_f64(r);
    }
    // every exponent (incl. 0 = subnormal and 0x7ff = NaN payloads / infinities) x mantissa class
    let e = r.below(0x800) as u64;
    let m = match r.below(8) {
        0 => 0,
        1 => 1,
        2 => 0x000f_ffff_ffff_ffff,
        3 => 0x0008_0000_0000_0000,
        4 => 1u64 << r.below(52),
        5 => (r.u64() & 0x000f_ffff_ffff_ffff) & !((1u64 << r.below(52)) - 1),
        6 => 0x000f_ffff_ffff_ffff & !(1u64 << r.below(52)),
        _ => r.u64() & 0x000f_ffff_ffff_ffff,
    };
    let s = (r.u64() & 1) << 63;
    f64::from_bits(s | (e << 52) | m)
}

// ---------------------------------------------------------------------------------------------
// integers

fn bitlen(mag: u64) -> u32 {
    64 - mag.leading_zeros()
}

fn check_i32(p: &mut Probe, v: i32) {
    let sign = if v < 0 { "-" } else { "+" };
    let edge = match v {
        i32::MIN => "min",
        i32::MAX => "max",
        0 => "zero",
        _ => "",
    };
    p.rep.distinct.insert(fnv(&format!("i32:{}:bits={}:{}", sign, bitlen(v.unsigned_abs() as u64), edge)));
    p.roundtrip("i32", &v, &v.to_string(), |a, b| a == b, |b| b.to_string(), None);
}

const SAFE_MAX: i64 = (1 << 53) - 1;

fn check_safelong(p: &mut Probe, raw: i64) {
    let v = match guarded(|| SafeLong::new(raw)) {
        Ok(Ok(v)) => v,
        _ => {
            // construction is C15's business
            p.rep.observed_only("safelong/constructor-refused");
            return;
        }
    };
    let sign = if raw < 0 { "-" } else { "+" };
    let edge = match raw {
        SAFE_MAX => "max",
        x if x == -SAFE_MAX => "min",
        0 => "zero",
        _ => "",
    };
    p.rep.distinct.insert(fnv(&format!("safelong:{}:bits={}:{}", sign, bitlen(raw.unsigned_abs()), edge)));
    p.roundtrip("safelong", &v, &raw.to_string(), |a, b| **a == **b, |b| (**b).to_string(), None);
}

fn gen_safe_raw(r: &mut Rng) -> i64 {
    match r.below(6) {
        0 => *r.pick(&[0, 1, -1, SAFE_MAX, -SAFE_MAX, SAFE_MAX - 1, -SAFE_MAX + 1]),
        1 => r.range(-1000, 1000),
        2 => {
            let k = r.below(53) as u32;
            let b = 1i64 << k;
            (*r.pick(&[b, b - 1, b + 1, -b, -b + 1, -b - 1])).clamp(-SAFE_MAX, SAFE_MAX)
        }
        3 => {
            let k = 1 + r.below(53) as u32;
            let m = (r.u64() & ((1u64 << k) - 1)) as i64;
            if r.bool() { m } else { -m }
        }
        _ => r.range(-SAFE_MAX, SAFE_MAX),
    }
}

// ---------------------------------------------------------------------------------------------
// bool, string, uuid

fn check_bool(p: &mut Probe, v: bool) {
    p.rep.distinct.insert(fnv(&format!("bool:{}", v)));
    let spelling = |t: &str| -> Result<(), String> {
        let want = if v { "true" } else { "false" };
        if t == want {
            Ok(())
        } else {
            Err(format!("expected lower-case {:?}", want))
        }
    };
    p.roundtrip("bool", &v, &v.to_string(), |a, b| a == b, |b| b.to_string(), Some(&spelling));
}

fn string_class(s: &str) -> String {
    let mut c = vec![];
    if s.is_empty() {
        c.push("empty");
    }
    if s.chars().any(|ch| ch.is_ascii_alphanumeric()) {
        c.push("alnum");
    }
    if s.chars().any(|ch| ch.is_ascii_punctuation() || ch == ' ') {
        c.push("punct");
    }
    if s.chars().any(|ch| ch.is_control()) {
        c.push("control");
    }
    if s.chars().any(|ch| (ch as u32) >= 0x80 && (ch as u32) < 0x10000) {
        c.push("bmp");
    }
    if s.chars().any(|ch| (ch as u32) >= 0x10000) {
        c.push("astral");
    }
    if s.parse::<f64>().is_ok() || matches!(s, "true" | "false" | "null" | "Infinity" | "-Infinity") {
        c.push("lookalike");
    }
    if s.starts_with(' ') || s.ends_with(' ') || s.ends_with('\n') {
        c.push("edge-space");
    }
    c.join("+")
}

fn check_string(p: &mut Probe, v: &str) {
    p.rep.distinct.insert(fnv(&format!("string:{}:len~{}", string_class(v), bitlen(v.len() as u64))));
    let owned = v.to_string();
    p.roundtrip("string", &owned, &format!("{:?}", v), |a, b| a == b, |b| format!("{:?}", b), None);
    // the unsized impl (`Plain for str`) feeds the same parser
    p.rep.evaluations += 1;
    p.rep.cell("type/str");
    match guarded(|| v.to_plain()) {
        Err(e) => p.fail("str", "to_plain-panic", &format!("{:?}", v), None, e),
        Ok(t) => match guarded(|| String::from_plain(&t)) {
            Ok(Ok(b)) if b == v => {}
            Ok(Ok(b)) => p.fail("str", "value-changed", &format!("{:?}", v), Some(&t), format!("parsed back as {:?}", b)),
            Ok(Err(e)) => p.fail("str", "rejects-own-text", &format!("{:?}", v), Some(&t), e.to_string()),
            Err(e) => p.fail("str", "from_plain-panic", &format!("{:?}", v), Some(&t), e),
        },
    }
}

/// 8-4-4-4-12 lower-case hexadecimal.
fn uuid_shape(t: &str) -> Result<(), String> {
    let b = t.as_bytes();
    if b.len() != 36 {
        return Err(format!("length {} instead of 36", b.len()));
    }
    for (i, c) in b.iter().enumerate() {
        let hyphen = matches!(i, 8 | 13 | 18 | 23);
        if hyphen && *c != b'-' {
            return Err(format!("expected '-' at offset {}", i));
        }
        if !hyphen && !(c.is_ascii_digit() || (b'a'..=b'f').contains(c)) {
            return Err(format!("expected a lower-case hex digit at offset {}", i));
        }
    }
    Ok(())
}

fn check_uuid(p: &mut Probe, v: Uuid) {
    let n = v.as_u128();
    let class = match n {
        0 => "nil".to_string(),
        u128::MAX => "max".to_string(),
        _ => format!("version-nibble={:x}:variant-nibble={:x}", (n >> 76) & 0xf, (n >> 60) & 0xf),
    };
    p.rep.distinct.insert(fnv(&format!("uuid:{}", class)));
    // independent rendering of the 128 bits
    let hex = format!("{:032x}", n);
    let want = format!("{}-{}-{}-{}-{}", &hex[0..8], &hex[8..12], &hex[12..16], &hex[16..20], &hex[20..32]);
    let spelling = |t: &str| -> Result<(), String> {
        uuid_shape(t)?;
        if t != want {
            return Err(format!("hex digits are not those of the value ({})", want));
        }
        Ok(())
    };
    p.roundtrip("uuid", &v, &want, |a, b| a == b, |b| format!("{:032x}", b.as_u128()), Some(&spelling));
}

fn gen_uuid_local(r: &mut Rng) -> Uuid {
    match r.below(8) {
        0 => Uuid::nil(),
        1 => Uuid::from_u128(u128::MAX),
        2 => Uuid::from_u128(1u128 << r.below(128)),
        3 => Uuid::from_u128(!(1u128 << r.below(128))),
        4 => Uuid::from_u128(0xabcd_efab_cdef_abcd_efab_cdef_abcd_efab ^ (r.u64() as u128)),
        _ => Uuid::from_u128(r.u128()),
    }
}

// ---------------------------------------------------------------------------------------------
// binary

fn check_bytes(p: &mut Probe, data: &[u8]) {
    let fill = if data.is_empty() {
        "empty"
    } else if data.iter().all(|b| *b == data[0]) {
        "constant"
    } else if data.iter().all(|b| b.is_ascii()) {
        "ascii"
    } else {
        "mixed"
    };
    p.rep.distinct.insert(fnv(&format!("binary:len={}:{}", data.len().min(80), fill)));
    p.rep.cell(&format!("binary-len/{:02}", data.len().min(80)));
    p.rep.cell(&format!("binary-len-mod3/{}", data.len() % 3));
    let want = b64_encode(data);
    let spelling = |t: &str| -> Result<(), String> {
        if !b64_shape(t) {
            return Err("not ^[A-Za-z0-9+/]*={0,2}$ with length divisible by 4".to_string());
        }
        if t != want {
            return Err(format!("independent encoder gives {}", want));
        }
        match b64_decode(t) {
            Some(d) if d == data => Ok(()),
            Some(_) => Err("independent decoder yields other bytes".to_string()),
            None => Err("independent strict decoder rejects the text".to_string()),
        }
    };
    let shown = format!("{} bytes {:02x?}", data.len(), data);
    let v = Bytes::copy_from_slice(data);
    p.roundtrip("binary", &v, &shown, |a, b| a == b, |b| format!("{:02x?}", &b[..]), Some(&spelling));
    // the unsized impl (`Plain for [u8]`) must give the same text
    p.rep.evaluations += 1;
    p.rep.cell("type/[u8]");
    match guarded(|| data.to_plain()) {
        Err(e) => p.fail("[u8]", "to_plain-panic", &shown, None, e),
        Ok(t) => {
            if let Err(why) = spelling(&t) {
                p.fail("[u8]", "spelling", &shown, Some(&t), why);
            }
            match guarded(|| Bytes::from_plain(&t)) {
                Ok(Ok(b)) if b[..] == *data => {}
                Ok(Ok(b)) => p.fail("[u8]", "value-changed", &shown, Some(&t), format!("{:02x?}", &b[..])),
                Ok(Err(e)) => p.fail("[u8]", "rejects-own-text", &shown, Some(&t), e.to_string()),
                Err(e) => p.fail("[u8]", "from_plain-panic", &shown, Some(&t), e),
            }
        }
    }
}

fn gen_bytes(r: &mut Rng) -> Vec<u8> {
    let n = match r.below(8) {
        0 => r.below(4),
        1 => 61 + r.below(4),
        2 => 65 + r.below(200), // beyond the designed 0..=64 too
        // buffer-size boundaries of chunked encoders: around 2^8 .. 2^16, and odd large sizes
        3 if r.chance(1, 4) => *r.pick(&[255usize, 256, 257, 511, 512, 513, 767, 768, 1023, 1024, 1025, 1026, 1027, 2047, 2048, 2049, 3071, 3072, 3073, 4095, 4096, 4097, 8191, 8193, 16385, 65535, 65536, 65537]) + r.below(2),
        _ => r.below(65),
    };
    match r.below(6) {
        0 => vec![*r.pick(&[0u8, 0xff, 0x3e, 0x3f, 0xfb, 0xfc, 0xfa, 0x80, 0x7f]); n],
        1 => (0..n).map(|_| *r.pick(&[0xfbu8, 0xff, 0xfe, 0x3e, 0x3f, 0xf8, 0xef, 0xbe])).collect(),
        2 => (0..n).map(|_| (0x20 + r.below(0x5f)) as u8).collect(),
        _ => r.bytes(n),
    }
}

// ---------------------------------------------------------------------------------------------
// datetime

const T_MIN: i64 = -62_167_219_200; // 0000-01-01T00:00:00Z
const T_MAX: i64 = 253_402_300_799; // 9999-12-31T23:59:59Z

/// Days since 1970-01-01 of a proleptic Gregorian civil date (own implementation).
fn days_from_civil(y: i64, m: i64, d: i64) -> i64 {
    let y = if m <= 2 { y - 1 } else { y };
    let era = y.div_euclid(400);
    let yoe = y - era * 400;
    let mp = if m > 2 { m - 3 } else { m + 9 };
    let doy = (153 * mp + 2) / 5 + d - 1;
    let doe = yoe * 365 + yoe / 4 - yoe / 100 + doy;
    era * 146_097 + doe - 719_468
}

fn civil_from_days(z: i64) -> (i64, i64, i64) {
    let z = z + 719_468;
    let era = z.div_euclid(146_097);
    let doe = z - era * 146_097;
    let yoe = (doe - doe / 1460 + doe / 36_524 - doe / 146_096) / 365;
    let y = yoe + era * 400;
    let doy = doe - (365 * yoe + yoe / 4 - yoe / 100);
    let mp = (5 * doy + 2) / 153;
    let d = doy - (153 * mp + 2) / 5 + 1;
    let m = if mp < 10 { mp + 3 } else { mp - 9 };
    (if m <= 2 { y + 1 } else { y }, m, d)
}

fn days_in_month(y: i64, m: i64) -> i64 {
    match m {
        1 | 3 | 5 | 7 | 8 | 10 | 12 => 31,
        4 | 6 | 9 | 11 => 30,
        _ => {
            if (y % 4 == 0 && y % 100 != 0) || y % 400 == 0 {
                29
            } else {
                28
            }
        }
    }
}

/// RFC 3339 `date-time` recogniser and decoder:
/// `YYYY-MM-DD(T|t)HH:MM:SS[.fraction](Z|z|(+|-)HH:MM)`. Returns the denoted instant as
/// (seconds since the epoch, nanoseconds); `Err` says which production failed. Fraction digits
/// beyond nanoseconds must be zero for the instant to be representable (else `Err`).
fn rfc3339_decode(t: &str) -> Result<(i64, u32), String> {
    let b = t.as_bytes();
    let mut i = 0usize;
    let num = |i: &mut usize, n: usize, what: &str| -> Result<i64, String> {
        if *i + n > b.len() || !b[*i..*i + n].iter().all(|c| c.is_ascii_digit()) {
            return Err(format!("expected {} digits for {} at offset {}", n, what, *i));
        }
        let v = b[*i..*i + n].iter().fold(0i64, |a, c| a * 10 + (*c - b'0') as i64);
        *i += n;
        Ok(v)
    };
    let lit = |i: &mut usize, set: &[u8], what: &str| -> Result<u8, String> {
        match b.get(*i) {
            Some(c) if set.contains(c) => {
                *i += 1;
                Ok(*c)
            }
            _ => Err(format!("expected {} at offset {}", what, *i)),
        }
    };
    let y = num(&mut i, 4, "year")?;
    lit(&mut i, b"-", "'-'")?;
    let mo = num(&mut i, 2, "month")?;
    lit(&mut i, b"-", "'-'")?;
    let d = num(&mut i, 2, "day")?;
    lit(&mut i, b"Tt", "'T'")?;
    let h = num(&mut i, 2, "hour")?;
    lit(&mut i, b":", "':'")?;
    let mi = num(&mut i, 2, "minute")?;
    lit(&mut i, b":", "':'")?;
    let s = num(&mut i, 2, "second")?;
    let mut nanos: u32 = 0;
    if b.get(i) == Some(&b'.') {
        i += 1;
        let start = i;
        while i < b.len() && b[i].is_ascii_digit() {
            let k = i - start;
            let digit = (b[i] - b'0') as u32;
            if k < 9 {
                nanos += digit * 10u32.pow(8 - k as u32);
            } else if digit != 0 {
                return Err("fraction finer than nanoseconds".to_string());
            }
            i += 1;
        }
        if i == start {
            return Err("empty fraction".to_string());
        }
    }
    let off = match lit(&mut i, b"Zz+-", "'Z' or a numeric offset")? {
        b'Z' | b'z' => 0,
        sign => {
            let oh = num(&mut i, 2, "offset hour")?;
            lit(&mut i, b":", "':'")?;
            let om = num(&mut i, 2, "offset minute")?;
            if oh > 23 || om > 59 {
                return Err("offset out of range".to_string());
            }
            let o = oh * 3600 + om * 60;
            if sign == b'-' { -o } else { o }
        }
    };
    if i != b.len() {
        return Err(format!("trailing text at offset {}", i));
    }
    if !(1..=12).contains(&mo) || d < 1 || d > days_in_month(y, mo) {
        return Err("no such calendar date".to_string());
    }
    if h > 23 || mi > 59 || s > 60 {
        return Err("no such time of day".to_string());
    }
    Ok((days_from_civil(y, mo, d) * 86_400 + h * 3600 + mi * 60 + s - off, nanos))
}

fn nanos_class(n: u32) -> &'static str {
    if n == 0 {
        "whole"
    } else if n % 1_000_000 == 0 {
        "millis"
    } else if n % 1000 == 0 {
        "micros"
    } else if n == 999_999_999 {
        "all-nines"
    } else {
        "nanos"
    }
}

fn check_time(p: &mut Probe, secs: i64, nanos: u32) {
    let shown = format!("(secs {}, nanos {})", secs, nanos);
    let v = match guarded(|| DateTime::<Utc>::from_timestamp(secs, nanos)) {
        Ok(Some(v)) => v,
        _ => {
            p.rep.observed_only("datetime/not-constructible");
            return;
        }
    };
    let in_years = (T_MIN..=T_MAX).contains(&secs);
    let leap = nanos >= 1_000_000_000;
    if !in_years || leap {
        // Left open by the property (four-digit years only; chrono's leap-second encoding).
        let what = if leap { "leap-second" } else if secs < T_MIN { "year<0000" } else { "year>9999" };
        let ok = matches!(
            guarded(|| DateTime::<Utc>::from_plain(&v.to_plain())),
            Ok(Ok(b)) if b == v
        );
        p.rep.observed_only(&format!("datetime/{}/{}", what, if ok { "round-trips" } else { "does-not-round-trip" }));
        return;
    }
    let (y, _, _) = civil_from_days(secs.div_euclid(86_400));
    p.rep.distinct.insert(fnv(&format!("datetime:century={}:{}", y / 100, nanos_class(nanos))));
    p.rep.cell(&format!("datetime-century/{:02}", y / 100));
    p.rep.cell(&format!("datetime-fraction/{}", nanos_class(nanos)));
    if secs == T_MIN && nanos == 0 {
        p.rep.cell("datetime-end/0000-01-01T00:00:00Z");
    }
    if secs == T_MAX && nanos == 999_999_999 {
        p.rep.cell("datetime-end/9999-12-31T23:59:59.999999999Z");
    }
    let spelling = |t: &str| -> Result<(), String> {
        let (s, n) = rfc3339_decode(t)?;
        if (s, n) != (secs, nanos) {
            return Err(format!("RFC 3339 text denotes (secs {}, nanos {})", s, n));
        }
        Ok(())
    };
    p.roundtrip(
        "datetime",
        &v,
        &shown,
        |a, b| a == b && a.timestamp() == b.timestamp() && a.timestamp_subsec_nanos() == b.timestamp_subsec_nanos(),
        |b| format!("(secs {}, nanos {})", b.timestamp(), b.timestamp_subsec_nanos()),
        Some(&spelling),
    );
}

fn gen_instant(r: &mut Rng) -> (i64, u32) {
    let secs = match r.below(16) {
        0 => *r.pick(&[T_MIN, T_MAX, 0, -1, 1, T_MIN + 1, T_MAX - 1]),
        1 => r.range(-100_000, 100_000),
        2 => r.range(1_500_000_000, 1_900_000_000),
        3 => {
            // first / last second of a random year
            let y = r.range(0, 9999);
            if r.bool() { days_from_civil(y, 1, 1) * 86_400 } else { days_from_civil(y + 1, 1, 1) * 86_400 - 1 }
        }
        4 => {
            // around the end of February
            let y = r.range(0, 9999);
            days_from_civil(y, 3, 1) * 86_400 + r.range(-2 * 86_400, 86_400)
        }
        _ => r.range(T_MIN, T_MAX),
    };
    let nanos = match r.below(8) {
        0 => 0,
        1 => 999_999_999,
        2 => (r.below(1000) * 1_000_000) as u32,
        3 => (r.below(1_000_000) * 1000) as u32,
        4 => *r.pick(&[1u32, 10, 100, 100_000_000, 1_000, 999_999_000, 999_000_000, 500_000_000]),
        _ => r.below(1_000_000_000) as u32,
    };
    (secs, nanos)
}

// ---------------------------------------------------------------------------------------------
// rids and tokens (grammar-driven)

const LOWER: &[u8] = b"abcdefghijklmnopqrstuvwxyz";
const LOWER_DIGIT: &[u8] = b"abcdefghijklmnopqrstuvwxyz0123456789";
const LOWER_DIGIT_DASH: &[u8] = b"abcdefghijklmnopqrstuvwxyz0123456789-";
const LOCATOR: &[u8] = b"abcdefghijklmnopqrstuvwxyzABCDEFGHIJKLMNOPQRSTUVWXYZ0123456789_.-";
const TOKEN: &[u8] = b"abcdefghijklmnopqrstuvwxyzABCDEFGHIJKLMNOPQRSTUVWXYZ0123456789-._~+/";

fn word(r: &mut Rng, first: &[u8], rest: &[u8], min: usize, max: usize) -> String {
    let n = min + r.below(max - min + 1);
    (0..n)
        .map(|i| {
            let set = if i == 0 { first } else { rest };
            // bias to the rare characters of each class
            if r.chance(1, 4) { set[set.len() - 1 - r.below(3.min(set.len()))] as char } else { set[r.below(set.len())] as char }
        })
        .collect()
}

fn gen_rid_text(r: &mut Rng) -> String {
    let max = if r.chance(1, 10) { 40 } else { 8 };
    format!(
        "ri.{}.{}.{}.{}",
        word(r, LOWER, LOWER_DIGIT_DASH, 1, max),
        word(r, LOWER_DIGIT, LOWER_DIGIT_DASH, 0, max),
        word(r, LOWER, LOWER_DIGIT_DASH, 1, max),
        word(r, LOCATOR, LOCATOR, 1, 3 * max)
    )
}

fn gen_token_text(r: &mut Rng) -> String {
    let max = if r.chance(1, 10) { 300 } else { 40 };
    let mut s = word(r, TOKEN, TOKEN, 1, max);
    for _ in 0..r.below(4) {
        s.push('=');
    }
    s
}

fn check_rid(p: &mut Probe, text: &str) {
    let v = match guarded(|| ResourceIdentifier::new(text)) {
        Ok(Ok(v)) => v,
        _ => {
            // validation is C16's business
            p.rep.observed_only("rid/constructor-refused");
            return;
        }
    };
    let parts: Vec<&str> = text[3..].splitn(4, '.').collect();
    p.rep.distinct.insert(fnv(&format!(
        "rid:instance={}:locator-dots={}:dash={}:len~{}",
        if parts[1].is_empty() { "empty" } else { "present" },
        parts[3].matches('.').count().min(3),
        text.contains('-'),
        bitlen(text.len() as u64)
    )));
    p.roundtrip("rid", &v, text, |a, b| a == b && a.as_str() == b.as_str(), |b| b.as_str().to_string(), None);
}

fn check_token(p: &mut Probe, text: &str) {
    let v = match guarded(|| BearerToken::new(text)) {
        Ok(Ok(v)) => v,
        _ => {
            p.rep.observed_only("token/constructor-refused");
            return;
        }
    };
    let pad = text.len() - text.trim_end_matches('=').len();
    p.rep.distinct.insert(fnv(&format!(
        "token:pad={}:punct={}:len~{}",
        pad,
        text.chars().any(|c| "-._~+/".contains(c)),
        bitlen(text.len() as u64)
    )));
    p.roundtrip("token", &v, text, |a, b| a == b && a.as_str() == b.as_str(), |b| b.as_str().to_string(), None);
}

// ---------------------------------------------------------------------------------------------
// enumerated part: guarantees the class coverage the floors ask for at any seed and scale

fn grid(rep: &mut Report, floors: bool) {
    let mut exps = std::collections::BTreeSet::new();
    let mut p = Probe { rep, sub: "grid", seed: 0 };
    // f64: every exponent x both signs x fixed mantissas
    for e in 0..0x800u64 {
        for s in 0..2u64 {
            for m in [0u64, 1, 0x0008_0000_0000_0000, 0x000f_ffff_ffff_ffff, 0x0005_5555_5555_5555, 0x0009_21fb_5444_2d18] {
                let bits = (s << 63) | (e << 52) | m;
                p.seed = bits;
                exps.insert(e);
                check_f64(&mut p, f64::from_bits(bits));
            }
        }
    }
    for v in [f64::MAX, f64::MIN, f64::MIN_POSITIVE, f64::EPSILON, 5e-324, 0.1, -0.1, 1e21, 1e-7, 1e15, 1e16, 1e17, 123456789012345680.0, 0.3, 2.5e-5, 9007199254740993.0] {
        p.seed = v.to_bits();
        check_f64(&mut p, v);
    }
    for k in -330..=310 {
        let v: f64 = format!("1e{}", k).parse().unwrap();
        p.seed = v.to_bits();
        check_f64(&mut p, v);
        check_f64(&mut p, -v);
    }
    // i32 boundary set
    let mut ints: Vec<i32> = (-300..=300).collect();
    ints.extend([i32::MIN, i32::MIN + 1, i32::MAX, i32::MAX - 1]);
    for k in 0..31 {
        let b = 1i32 << k;
        ints.extend([b, b - 1, b.wrapping_add(1), -b, -b + 1, (-b).wrapping_sub(1)]);
    }
    for k in 0..=9 {
        let t = 10i32.pow(k);
        ints.extend([t, t - 1, -t, -t + 1]);
    }
    for v in ints {
        p.seed = v as u32 as u64;
        check_i32(&mut p, v);
    }
    // safelong boundary set
    let mut longs: Vec<i64> = (-300..=300).collect();
    for d in 0..=300 {
        longs.extend([SAFE_MAX - d, -SAFE_MAX + d]);
    }
    for k in 0..53 {
        let b = 1i64 << k;
        longs.extend([b, b - 1, b + 1, -b, -b + 1, -b - 1]);
    }
    for k in 0..=15 {
        let t = 10i64.pow(k);
        longs.extend([t, t - 1, -t, -t + 1]);
    }
    for v in longs {
        if v.abs() <= SAFE_MAX {
            p.seed = v as u64;
            check_safelong(&mut p, v);
        }
    }
    check_bool(&mut p, true);
    check_bool(&mut p, false);
    // binary: every length 0..=64 (hence every length mod 3), every byte value at every
    // position class, every 6-bit group value in every one of the four Base64 positions
    for len in 0..=64usize {
        for start in 0..256usize {
            if len == 0 && start > 0 {
                break;
            }
            p.seed = ((len as u64) << 16) | start as u64;
            let run: Vec<u8> = (0..len).map(|k| (start + k) as u8).collect();
            check_bytes(&mut p, &run);
            let constant = vec![start as u8; len];
            check_bytes(&mut p, &constant);
            let stride: Vec<u8> = (0..len).map(|k| (start + 67 * k) as u8).collect();
            check_bytes(&mut p, &stride);
        }
    }
    // datetime: both ends of the claimed range, first and last representable instant of every year
    check_time(&mut p, T_MIN, 0);
    check_time(&mut p, T_MAX, 999_999_999);
    for y in 0..=9999i64 {
        p.seed = y as u64;
        let first = days_from_civil(y, 1, 1) * 86_400;
        let last = days_from_civil(y + 1, 1, 1) * 86_400 - 1;
        check_time(&mut p, first, 0);
        check_time(&mut p, last, 999_999_999);
        // the day after 28 February, with a fraction of every length 1..=9 over the years
        let k = (y % 9) as u32;
        check_time(&mut p, days_from_civil(y, 2, 28) * 86_400 + 86_400 + 43_200 + y, 10u32.pow(k) * (1 + (y as u32 % 9)));
    }
    // observed-only: just outside the claimed range, far outside, chrono's leap-second encoding
    for (s, n) in [
        (T_MIN - 1, 999_999_999),
        (T_MAX + 1, 0),
        (T_MIN - 86_400 * 366, 0),
        (T_MAX + 86_400 * 366, 0),
        (-8_000_000_000_000, 5),
        (8_000_000_000_000, 5),
        (1_483_228_799, 1_500_000_000),
        (59, 1_000_000_000),
    ] {
        check_time(&mut p, s, n);
    }
    // uuid: single-bit patterns
    check_uuid(&mut p, Uuid::nil());
    check_uuid(&mut p, Uuid::from_u128(u128::MAX));
    for k in 0..128 {
        check_uuid(&mut p, Uuid::from_u128(1u128 << k));
        check_uuid(&mut p, Uuid::from_u128(0xabcd_efab_cdef_abcd_efab_cdef_abcd_efab_u128.rotate_left(k)));
    }
    // strings, rids, tokens with special shapes
    for s in [
        "", " ", "a", "NaN", "Infinity", "-Infinity", "true", "false", "null", "0", "-0", "1e3", "AA==", "a b", "a+b", "%2F",
        "a/b", "é", "日本語", "😀", "\u{0}", "\n", "a\n", "\t", "\u{7f}", "\u{80}", "\u{ffff}", "\u{10ffff}", "\"", "\\",
        " leading", "trailing ", "ri.a.b.c.d", "1970-01-01T00:00:00Z", "+1", "０",
    ] {
        check_string(&mut p, s);
    }
    for s in [
        "ri.a..b.c", "ri.a.0.b.c", "ri.a.b.c.d", "ri.a-.0-.b-.-", "ri.a.b.c._", "ri.a.b.c..", "ri.a.b.c.d.e.f", "ri.a.b.c.A.Z_9",
        "ri.z9-.9-z.z-9.Zz09_-.", "ri.service.instance.type.locator.with.dots", "ri.a..b....",
    ] {
        check_rid(&mut p, s);
    }
    for s in ["a", "A", "0", "-", ".", "_", "~", "+", "/", "a=", "a==", "a===", "-._~+/=", "AZaz09-._~+/==", "/=", "+="] {
        check_token(&mut p, s);
    }
    if floors {
        rep.floor("f64-every-exponent-both-signs", 2048, exps.len() as u64);
    }
}

// ---------------------------------------------------------------------------------------------

pub fn run(ctx: &Ctx, report: &mut Report) {
    let floors = ctx.replay.is_none();
    ctx.fixed(report, "grid", |rep| grid(rep, floors));

    ctx.cases(report, "f64", ctx.n(12_000, 1_200_000), |seed, rep| {
        let mut r = Rng::new(seed);
        let mut p = Probe { rep, sub: "f64", seed };
        for _ in 0..BATCH {
            let v = gen_f64(&mut r);
            p.rep.sample(2, || json!({"sub": "f64", "case_seed": seed, "value": f64_show(&v), "plain": v.to_plain()}));
            check_f64(&mut p, v);
        }
    });
    ctx.cases(report, "integers", ctx.n(6_000, 600_000), |seed, rep| {
        let mut r = Rng::new(seed);
        let mut p = Probe { rep, sub: "integers", seed };
        for i in 0..BATCH {
            if i % 2 == 0 {
                let v = if r.chance(1, 3) { r.u64() as i32 } else { hostile_i32(&mut r) };
                check_i32(&mut p, v);
            } else {
                let v = gen_safe_raw(&mut r);
                check_safelong(&mut p, v);
            }
        }
    });
    ctx.cases(report, "binary", ctx.n(4_000, 400_000), |seed, rep| {
        let mut r = Rng::new(seed);
        let mut p = Probe { rep, sub: "binary", seed };
        for _ in 0..BATCH {
            let v = gen_bytes(&mut r);
            p.rep.sample(2, || json!({"sub": "binary", "case_seed": seed, "bytes": format!("{:02x?}", v), "plain": v.to_plain()}));
            check_bytes(&mut p, &v);
        }
    });
    ctx.cases(report, "datetime", ctx.n(6_000, 600_000), |seed, rep| {
        let mut r = Rng::new(seed);
        let mut p = Probe { rep, sub: "datetime", seed };
        for _ in 0..BATCH {
            let (s, n) = gen_instant(&mut r);
            p.rep.sample(2, || {
                json!({"sub": "datetime", "case_seed": seed, "secs": s, "nanos": n,
                       "plain": DateTime::<Utc>::from_timestamp(s, n).map(|v| v.to_plain())})
            });
            check_time(&mut p, s, n);
        }
        if r.chance(1, 16) {
            // observed-only classes
            let far = r.range(-8_000_000_000_000, 8_000_000_000_000);
            check_time(&mut p, far, r.below(1_000_000_000) as u32);
            let minute_end = r.range(T_MIN / 60, T_MAX / 60) * 60 + 59;
            check_time(&mut p, minute_end, 1_000_000_000 + r.below(1_000_000_000) as u32);
        }
    });
    ctx.cases(report, "names", ctx.n(3_000, 300_000), |seed, rep| {
        let mut r = Rng::new(seed);
        let mut p = Probe { rep, sub: "names", seed };
        for i in 0..BATCH {
            if i % 2 == 0 {
                let t = gen_rid_text(&mut r);
                p.rep.sample(1, || json!({"sub": "names", "case_seed": seed, "rid": t}));
                check_rid(&mut p, &t);
            } else {
                let t = gen_token_text(&mut r);
                check_token(&mut p, &t);
            }
        }
    });
    ctx.cases(report, "misc", ctx.n(3_000, 300_000), |seed, rep| {
        let mut r = Rng::new(seed);
        let mut p = Probe { rep, sub: "misc", seed };
        for i in 0..BATCH {
            match i % 4 {
                0 | 1 => {
                    let s = hostile_string(&mut r, 40);
                    check_string(&mut p, &s);
                }
                2 => {
                    let u = gen_uuid_local(&mut r);
                    check_uuid(&mut p, u);
                }
                _ => {
                    let b = r.bool();
                    check_bool(&mut p, b);
                }
            }
        }
    });

    if ctx.replay.is_none() {
        report.floor_cells("types", "type/", 12);
        report.floor_cells("f64-exponent-buckets", "f64-exp/", 16);
        report.floor_cells("f64-classes", "f64/", 5);
        report.floor_cells("binary-every-length-0..64", "binary-len/", 65);
        report.floor_cells("binary-length-mod-3", "binary-len-mod3/", 3);
        report.floor_cells("datetime-every-century", "datetime-century/", 100);
        report.floor_cells("datetime-both-ends", "datetime-end/", 2);
        report.floor_cells("datetime-fraction-classes", "datetime-fraction/", 5);
        let d = report.distinct.len() as u64;
        report.floor("distinct-classes", 4_800, d);
        let e = report.evaluations;
        report.floor("evaluations", 250_000, e);
    }
    report.notes.push(
        "distinct = structural classes: f64 exponent x sign x class, f64 mantissa class, integer sign x bit length, \
         binary length x fill, datetime century x fraction class, uuid version/variant nibbles, string / rid / token shape classes"
            .into(),
    );
    report.notes.push(
        "spelling recognisers (own code): NaN/Infinity/-Infinity; Base64 shape + independent encoder equality + strict decoder; \
         RFC 3339 date-time decoder (own calendar arithmetic) must denote the same instant; true/false; 8-4-4-4-12 lower hex \
         equal to the 128 bits. Not judged: sign of -0.0 and NaN payload (`==`/NaN-ness only), years outside 0000-9999, \
         chrono leap-second encoding; generated enums/aliases are covered by the lab half"
            .into(),
    );
}

//! A service declared by hand with `#[conjure_client]` / `#[conjure_endpoints]` (the macro
//! flavour of C04/C07/C19): literal path segments and query keys containing reserved characters
//! (which the macro percent-encodes at compile time with its own copy of the encode set), custom
//! `log_as` names, default `FromStr`/`Display` codecs.
use crate::gen::sink::Item;
use crate::node::gen_token;
use crate::svc::{gen_header_text, gen_item, j, Recorder};
use conjure_error::Error;
use conjure_http::client::{ConjureResponseDeserializer, DisplaySeqEncoder};
use conjure_http::server::{FromStrSeqDecoder, StdRequestDeserializer, StdResponseSerializer};
use conjure_http::{conjure_client, conjure_endpoints, endpoint};
use conjure_object::BearerToken;
use labrt::{AsyncLoopback, ChunkStream, Chunks, Loopback};
use std::sync::Arc;
use vcore::text::*;
use vcore::Rng;

pub const ENDPOINTS: usize = 3;

#[conjure_client]
pub trait HandApi {
    #[endpoint(method = GET, path = "/hand/a b/{p}/c%d/{q}", accept = ConjureResponseDeserializer)]
    fn paths(&self, #[path] p: &str, #[path(name = "q")] second: i32) -> Result<String, Error>;

    #[endpoint(method = GET, path = "/hand/query", accept = ConjureResponseDeserializer)]
    fn query(
        &self,
        #[query(name = "k&1")] a: &str,
        #[query(name = "k=2", encoder = DisplaySeqEncoder)] list: &[String],
        #[query(name = "ключ")] c: &str,
    ) -> Result<Vec<String>, Error>;

    #[endpoint(method = POST, path = "/hand/body/{id}", accept = ConjureResponseDeserializer)]
    fn body(
        &self,
        #[auth] auth: &BearerToken,
        #[path] id: &str,
        #[header(name = "X-Custom")] custom: &str,
        #[body] body: &Item,
    ) -> Result<Item, Error>;

    #[endpoint(method = GET, path = "/hand/multi/{rest}")]
    fn multi(&self, #[path(encoder = DisplaySeqEncoder)] rest: &[String]) -> Result<(), Error>;
}

#[conjure_client]
pub trait AsyncHandApi {
    #[endpoint(method = GET, path = "/hand/a b/{p}/c%d/{q}", accept = ConjureResponseDeserializer)]
    async fn paths(&self, #[path] p: &str, #[path(name = "q")] second: i32) -> Result<String, Error>;

    #[endpoint(method = GET, path = "/hand/query", accept = ConjureResponseDeserializer)]
    async fn query(
        &self,
        #[query(name = "k&1")] a: &str,
        #[query(name = "k=2", encoder = DisplaySeqEncoder)] list: &[String],
        #[query(name = "ключ")] c: &str,
    ) -> Result<Vec<String>, Error>;

    #[endpoint(method = POST, path = "/hand/body/{id}", accept = ConjureResponseDeserializer)]
    async fn body(
        &self,
        #[auth] auth: &BearerToken,
        #[path] id: &str,
        #[header(name = "X-Custom")] custom: &str,
        #[body] body: &Item,
    ) -> Result<Item, Error>;

    #[endpoint(method = GET, path = "/hand/multi/{rest}")]
    async fn multi(&self, #[path(encoder = DisplaySeqEncoder)] rest: &[String]) -> Result<(), Error>;
}

#[conjure_endpoints]
pub trait HandService {
    #[endpoint(method = GET, path = "/hand/a b/{p}/c%d/{q}", produces = StdResponseSerializer)]
    fn paths(&self, #[path(log_as = "firstParam")] p: String, #[path(name = "q", safe)] second: i32) -> Result<String, Error>;

    #[endpoint(method = GET, path = "/hand/query", produces = StdResponseSerializer)]
    fn query(
        &self,
        #[query(name = "k&1", safe)] a: String,
        #[query(name = "k=2", decoder = FromStrSeqDecoder<_>)] list: Vec<String>,
        #[query(name = "ключ", log_as = "unicodeKey")] c: String,
    ) -> Result<Vec<String>, Error>;

    #[endpoint(method = POST, path = "/hand/body/{id}", produces = StdResponseSerializer)]
    fn body(
        &self,
        #[auth] auth: BearerToken,
        #[path(safe)] id: String,
        #[header(name = "X-Custom", log_as = "customHeader")] custom: String,
        #[body(log_as = "theBody")] body: Item,
    ) -> Result<Item, Error>;

    #[endpoint(method = GET, path = "/hand/multi/{rest}")]
    fn multi(&self, #[path] rest: String) -> Result<(), Error>;

    #[endpoint(method = POST, path = "/hand/small16", produces = StdResponseSerializer)]
    fn small16(&self, #[body(deserializer = StdRequestDeserializer<16>, log_as = "tiny")] v: String) -> Result<String, Error>;

    #[endpoint(method = POST, path = "/hand/strs")]
    fn strs(&self, #[body(safe)] v: Vec<String>) -> Result<(), Error>;
}

#[conjure_endpoints]
pub trait AsyncHandService {
    #[endpoint(method = GET, path = "/hand/a b/{p}/c%d/{q}", produces = StdResponseSerializer)]
    async fn paths(&self, #[path(log_as = "firstParam")] p: String, #[path(name = "q", safe)] second: i32) -> Result<String, Error>;

    #[endpoint(method = GET, path = "/hand/query", produces = StdResponseSerializer)]
    async fn query(
        &self,
        #[query(name = "k&1", safe)] a: String,
        #[query(name = "k=2", decoder = FromStrSeqDecoder<_>)] list: Vec<String>,
        #[query(name = "ключ", log_as = "unicodeKey")] c: String,
    ) -> Result<Vec<String>, Error>;

    #[endpoint(method = POST, path = "/hand/body/{id}", produces = StdResponseSerializer)]
    async fn body(
        &self,
        #[auth] auth: BearerToken,
        #[path(safe)] id: String,
        #[header(name = "X-Custom", log_as = "customHeader")] custom: String,
        #[body(log_as = "theBody")] body: Item,
    ) -> Result<Item, Error>;

    #[endpoint(method = GET, path = "/hand/multi/{rest}")]
    async fn multi(&self, #[path] rest: String) -> Result<(), Error>;

    #[endpoint(method = POST, path = "/hand/small16", produces = StdResponseSerializer)]
    async fn small16(&self, #[body(deserializer = StdRequestDeserializer<16>, log_as = "tiny")] v: String) -> Result<String, Error>;

    #[endpoint(method = POST, path = "/hand/strs")]
    async fn strs(&self, #[body(safe)] v: Vec<String>) -> Result<(), Error>;
}

#[derive(Clone)]
pub struct HandHandler {
    pub rec: Arc<Recorder>,
}

macro_rules! args {
    ($($name:expr => $v:expr),* $(,)?) => { vec![$(($name, j(&$v))),*] };
}

macro_rules! hand_impl {
    ($trait_:ident, [$($async_:tt)?]) => {
        impl $trait_ for HandHandler {
            $($async_)? fn paths(&self, p: String, second: i32) -> Result<String, Error> {
                let ret = format!("{}#{}", p, second);
                self.rec.calls.lock().unwrap().push(crate::svc::Call { endpoint: "paths", args: args!["p" => p, "q" => second], ret: j(&ret) });
                Ok(ret)
            }
            $($async_)? fn query(&self, a: String, list: Vec<String>, c: String) -> Result<Vec<String>, Error> {
                let mut ret = list.clone();
                ret.push(format!("{}{}", a, c));
                self.rec.calls.lock().unwrap().push(crate::svc::Call { endpoint: "query", args: args!["k&1" => a, "k=2" => list, "ключ" => c], ret: j(&ret) });
                Ok(ret)
            }
            $($async_)? fn body(&self, auth: BearerToken, id: String, custom: String, body: Item) -> Result<Item, Error> {
                self.rec.calls.lock().unwrap().push(crate::svc::Call { endpoint: "body", args: args!["auth" => auth, "id" => id, "X-Custom" => custom, "body" => body], ret: j(&body) });
                Ok(body)
            }
            $($async_)? fn multi(&self, rest: String) -> Result<(), Error> {
                self.rec.calls.lock().unwrap().push(crate::svc::Call { endpoint: "multi", args: args!["rest" => rest], ret: j(&()) });
                Ok(())
            }
            $($async_)? fn small16(&self, v: String) -> Result<String, Error> {
                self.rec.calls.lock().unwrap().push(crate::svc::Call { endpoint: "small16", args: args!["v" => v], ret: j(&v) });
                Ok(v)
            }
            $($async_)? fn strs(&self, v: Vec<String>) -> Result<(), Error> {
                self.rec.calls.lock().unwrap().push(crate::svc::Call { endpoint: "strs", args: args!["v" => v], ret: j(&()) });
                Ok(())
            }
        }
    };
}

hand_impl!(HandService, []);
hand_impl!(AsyncHandService, [async]);

#[derive(Debug, Clone)]
pub enum HReq {
    Paths { p: String, q: i32 },
    Query { a: String, list: Vec<String>, c: String },
    Body { auth: BearerToken, id: String, custom: String, body: Item },
    Multi(Vec<String>),
}

impl HReq {
    pub fn gen(r: &mut Rng) -> HReq {
        match r.below(10) {
            0..=2 => HReq::Paths { p: hostile_string(r, 12), q: hostile_i32(r) },
            3..=5 => HReq::Query { a: hostile_string(r, 10), list: (0..r.below(4)).map(|_| hostile_string(r, 6)).collect(), c: hostile_string(r, 10) },
            6..=8 => HReq::Body { auth: gen_token(r), id: hostile_string(r, 8), custom: gen_header_text(r), body: gen_item(r) },
            _ => HReq::Multi((0..r.below(3)).map(|_| hostile_string(r, 4)).collect()),
        }
    }
    pub fn endpoint(&self) -> &'static str {
        match self {
            HReq::Paths { .. } => "paths",
            HReq::Query { .. } => "query",
            HReq::Body { .. } => "body",
            HReq::Multi(_) => "multi",
        }
    }
    pub fn args(&self) -> Vec<(&'static str, String)> {
        match self {
            HReq::Paths { p, q } => args!["p" => p, "q" => q],
            HReq::Query { a, list, c } => args!["k&1" => a, "k=2" => list, "ключ" => c],
            HReq::Body { auth, id, custom, body } => args!["auth" => auth, "id" => id, "X-Custom" => custom, "body" => body],
            HReq::Multi(rest) => args!["rest" => rest],
        }
    }
    pub fn header_texts(&self) -> Vec<&str> {
        match self {
            HReq::Body { custom, .. } => vec![custom],
            _ => vec![],
        }
    }
    /// Multi-segment path parameters are outside the property (DESIGN §3 C04 FA).
    pub fn observed_only(&self) -> bool {
        matches!(self, HReq::Multi(_))
    }
}

macro_rules! hand_invoke {
    ($fname:ident, $client:ty, [$($async_:tt)?], [$($await_:tt)*]) => {
        pub $($async_)? fn $fname(c: &$client, req: &HReq) -> Result<String, Error> {
            Ok(match req {
                HReq::Paths { p, q } => j(&c.paths(p, *q)$($await_)*?),
                HReq::Query { a, list, c: cc } => j(&c.query(a, list, cc)$($await_)*?),
                HReq::Body { auth, id, custom, body } => j(&c.body(auth, id, custom, body)$($await_)*?),
                HReq::Multi(rest) => j(&c.multi(rest)$($await_)*?),
            })
        }
    };
}

hand_invoke!(invoke_sync, HandApiClient<&Loopback>, [], []);
hand_invoke!(invoke_async, AsyncHandApiClient<&AsyncLoopback>, [async], [.await]);

pub fn sync_endpoints(h: HandHandler) -> Vec<Box<dyn conjure_http::server::Endpoint<Chunks, Vec<u8>> + Sync + Send>> {
    use conjure_http::server::Service;
    let runtime = Arc::new(conjure_http::server::ConjureRuntime::new());
    HandServiceEndpoints::new(h).endpoints(&runtime)
}

pub fn async_endpoints(h: HandHandler) -> Vec<conjure_http::server::BoxAsyncEndpoint<'static, ChunkStream, Vec<u8>>> {
    use conjure_http::server::AsyncService;
    let runtime = Arc::new(conjure_http::server::ConjureRuntime::new());
    AsyncHandServiceEndpoints::new(h).endpoints(&runtime)
}

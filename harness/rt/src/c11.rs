//! C11 – response encoding honours Accept; request decoding honours Content-Type.
//!
//! Headers are *rendered from a structured model* (the oracle never parses a header), the
//! reference decision is computed from the structure, and the real `ConjureRuntime` is asked.
use crate::ctx::{guarded, Ctx};
use conjure_error::{ErrorCode, ErrorKind};
use conjure_http::server::{
    ConjureRuntime, DeserializerState, Encoding, JsonEncoding, SerializeResponse, SerializerState,
    SmileEncoding, StdResponseSerializer,
};
use http::header::{ACCEPT, CONTENT_TYPE};
use http::{HeaderMap, HeaderValue};
use serde_json::json;
use vcore::rng::fnv;
use vcore::{Report, Rng};

/// A harness encoding with an arbitrary media type; (de)serialization is delegated to JSON.
struct Custom(&'static str);

impl Encoding for Custom {
    fn content_type(&self) -> HeaderValue {
        HeaderValue::from_static(self.0)
    }
    fn serializer<'a>(&self, w: &'a mut Vec<u8>) -> Box<dyn SerializerState<'a> + 'a> {
        JsonEncoding.serializer(w)
    }
    fn deserializer<'a>(&self, buf: &'a [u8]) -> Box<dyn DeserializerState<'a> + 'a> {
        JsonEncoding.deserializer(buf)
    }
}

/// (id used by the model, content type reported by the encoding, type, subtype)
#[derive(Clone, Copy, Debug, PartialEq)]
struct Enc {
    id: &'static str,
    content_type: &'static str,
    ty: &'static str,
    sub: &'static str,
}

const ENCODINGS: &[Enc] = &[
    Enc { id: "json", content_type: "application/json", ty: "application", sub: "json" },
    Enc { id: "smile", content_type: "application/x-jackson-smile", ty: "application", sub: "x-jackson-smile" },
    Enc { id: "cbor", content_type: "application/cbor", ty: "application", sub: "cbor" },
    // a second encoding that also claims application/json (told apart by a parameter)
    Enc { id: "json2", content_type: "application/json; variant=b", ty: "application", sub: "json" },
    Enc { id: "text", content_type: "text/x-harness", ty: "text", sub: "x-harness" },
];

fn build_runtime(regs: &[Enc]) -> ConjureRuntime {
    let mut b = ConjureRuntime::builder();
    for e in regs {
        b = match e.id {
            "json" => b.encoding(JsonEncoding),
            "smile" => b.encoding(SmileEncoding),
            _ => b.encoding(Custom(e.content_type)),
        };
    }
    b.build()
}

#[derive(Clone, Debug)]
struct Range {
    ty: String,  // lower-case canonical, "*" for wildcard
    sub: String, // lower-case canonical, "*" for wildcard
    /// quality in thousandths
    q: u32,
    q_text: Option<String>,
    params_before: Vec<(String, String)>,
    params_after: Vec<(String, String)>,
    upper: bool,
    ows: u8,
}

#[derive(Clone, Debug)]
enum Entry {
    Range(Range),
    Garbage(String),
}

const OTHER_TYPES: &[(&str, &str)] = &[
    ("text", "plain"),
    ("text", "html"),
    ("application", "xml"),
    ("application", "octet-stream"),
    ("image", "png"),
    ("application", "jsonx"),
    ("applicatio", "json"),
    // structured-syntax suffixes: a different subtype, not the registered one
    ("application", "json+protobuf"),
    ("application", "x-jackson-smile+gzip"),
    ("application", "problem+json"),
    ("application", "cbor+xml"),
    ("text", "x-harness+zip"),
];

const GARBAGE: &[&str] = &["garbage", "a/", "/b", "a/b/c", "application", "@/@", "text/pla in", ";q=1", "*"];

fn gen_q(r: &mut Rng) -> (u32, Option<String>) {
    match r.below(12) {
        0 | 1 | 2 => (1000, None),
        3 => (0, Some(r.pick(&["0", "0.0", "0.00", "0.000", "0."]).to_string())),
        4 => (1000, Some(r.pick(&["1", "1.0", "1.00", "1.000", "1."]).to_string())),
        5 => {
            let d = r.below(10) as u32;
            (d * 100, Some(format!("0.{}", d)))
        }
        6 => {
            let d = r.below(100) as u32;
            (d * 10, Some(format!("0.{:02}", d)))
        }
        _ => {
            let d = r.below(1000) as u32;
            (d, Some(format!("0.{:03}", d)))
        }
    }
}

fn gen_range(r: &mut Rng, regs: &[Enc]) -> Range {
    let (ty, sub) = match r.below(10) {
        0 | 1 | 2 | 3 => {
            let e = r.pick(ENCODINGS);
            (e.ty.to_string(), e.sub.to_string())
        }
        4 if !regs.is_empty() => {
            let e = r.pick(regs);
            (e.ty.to_string(), e.sub.to_string())
        }
        5 if r.chance(1, 4) => {
            // a wildcard type with a concrete subtype is no media range that matches anything
            let sub = if !regs.is_empty() && r.bool() { r.pick(regs).sub.to_string() } else { r.pick(&["xml", "html", "json"]).to_string() };
            ("*".to_string(), sub)
        }
        5 => ("*".to_string(), "*".to_string()),
        6 => (r.pick(&["application", "text", "image"]).to_string(), "*".to_string()),
        7 if !regs.is_empty() => (r.pick(regs).ty.to_string(), "*".to_string()),
        _ => {
            let (t, s) = r.pick(OTHER_TYPES);
            (t.to_string(), s.to_string())
        }
    };
    let (q, q_text) = gen_q(r);
    let mut params_before = vec![];
    let mut params_after = vec![];
    if r.chance(1, 8) {
        params_before.push(("charset".to_string(), r.pick(&["utf-8", "UTF-8", "\"utf-8\""]).to_string()));
    }
    if r.chance(1, 12) {
        params_before.push(("level".to_string(), "1".to_string()));
    }
    if q_text.is_some() && r.chance(1, 10) {
        params_after.push(("ext".to_string(), "1".to_string()));
    }
    Range { ty, sub, q, q_text, params_before, params_after, upper: r.chance(1, 6), ows: r.below(4) as u8 }
}

fn render_range(g: &Range) -> String {
    let mut s = format!("{}/{}", g.ty, g.sub);
    if g.upper {
        s = s.to_uppercase();
    }
    let sep = match g.ows {
        0 => ";",
        1 => "; ",
        2 => " ;",
        _ => " ; ",
    };
    for (k, v) in &g.params_before {
        s.push_str(&format!("{}{}={}", sep, k, v));
    }
    if let Some(q) = &g.q_text {
        s.push_str(&format!("{}{}={}", sep, if g.upper { "Q" } else { "q" }, q));
    }
    for (k, v) in &g.params_after {
        s.push_str(&format!("{}{}={}", sep, k, v));
    }
    s
}

fn matches(g: &Range, e: &Enc) -> Option<u8> {
    if g.ty == "*" && g.sub == "*" {
        Some(0)
    } else if g.ty == e.ty && g.sub == "*" {
        Some(1)
    } else if g.ty == e.ty && g.sub == e.sub {
        Some(2)
    } else {
        None
    }
}

#[derive(Debug)]
enum Verdict {
    /// exactly these winners are acceptable
    OneOf(Vec<&'static str>),
    NoneAcceptable,
    /// the property does not decide this case
    Open(&'static str),
}

/// How media-type parameters of a range enter its specificity.
#[derive(Clone, Copy, PartialEq)]
enum Spec {
    /// not at all (the plain reading of the property text)
    Ignore,
    /// by their number (used only to classify disagreements on headers with parameters as observed-only)
    Count,
    /// by refinement: a range whose parameter set strictly contains another's (same type/subtype level) is
    /// more specific than it (RFC 7231 5.3.2: text/plain;format=flowed over text/plain); parameter sets
    /// that are not nested stay equally specific. Every reading that lets parameters add specificity at
    /// all agrees with this one where it decides.
    Refine,
}

fn param_set(g: &Range) -> std::collections::BTreeSet<(String, String)> {
    g.params_before.iter().chain(g.params_after.iter()).map(|(k, v)| (k.to_ascii_lowercase(), v.clone())).collect()
}

/// Reference decision from the property text.
fn decide(ranges: &[Range], regs: &[Enc], spec: Spec) -> (Verdict, &'static str) {
    if regs.is_empty() {
        return (Verdict::NoneAcceptable, "no-encodings");
    }
    if ranges.is_empty() {
        return (Verdict::OneOf(vec![regs[0].id]), "no-accept");
    }
    // per encoding: (quality, candidate indices of its most specific matching ranges)
    let mut permitted: Vec<(usize, u32, Vec<usize>)> = vec![];
    let mut open = None;
    for (ri, e) in regs.iter().enumerate() {
        let ms: Vec<(usize, u8, usize)> = ranges
            .iter()
            .enumerate()
            .filter_map(|(i, g)| {
                matches(g, e).map(|l| (i, l, if spec == Spec::Count { g.params_before.len() + g.params_after.len() } else { 0 }))
            })
            .collect();
        let Some(top) = ms.iter().map(|(_, l, p)| (*l, *p)).max() else { continue };
        let mut tops: Vec<usize> = ms.iter().filter(|(_, l, p)| (*l, *p) == top).map(|(i, _, _)| *i).collect();
        if spec == Spec::Refine {
            // keep the maximal ranges: those whose parameter set is not strictly contained in another's
            let sets: Vec<_> = tops.iter().map(|i| param_set(&ranges[*i])).collect();
            let keep: Vec<usize> = (0..tops.len()).filter(|a| !(0..tops.len()).any(|b| sets[b].len() > sets[*a].len() && sets[*a].is_subset(&sets[b]))).collect();
            tops = keep.into_iter().map(|k| tops[k]).collect();
        }
        let qs: Vec<u32> = tops.iter().map(|i| ranges[*i].q).collect();
        if qs.iter().any(|q| *q != qs[0]) {
            open = Some("most-specific-ranges-disagree-on-q");
            continue;
        }
        if qs[0] > 0 {
            permitted.push((ri, qs[0], tops));
        }
    }
    if let Some(o) = open {
        return (Verdict::Open(o), "open");
    }
    if permitted.is_empty() {
        return (Verdict::NoneAcceptable, "none-permitted");
    }
    let best = permitted.iter().map(|p| p.1).max().unwrap();
    let top: Vec<&(usize, u32, Vec<usize>)> = permitted.iter().filter(|p| p.1 == best).collect();
    if top.len() == 1 {
        let rule = if permitted.len() == 1 { "single-permitted" } else { "highest-quality" };
        return (Verdict::OneOf(vec![regs[top[0].0].id]), rule);
    }
    // tie: earlier range, then earlier registration. An encoding with several equally specific
    // ranges may be represented by any of them.
    let mut winners = vec![];
    for w in &top {
        let w_min = *w.2.iter().min().unwrap();
        let ok = top.iter().all(|m| {
            let m_max = *m.2.iter().max().unwrap();
            (w_min, w.0) <= (m_max, m.0)
        });
        if ok {
            winners.push(regs[w.0].id);
        }
    }
    let by_range = top.iter().map(|t| t.2.iter().min().unwrap()).collect::<std::collections::BTreeSet<_>>().len() > 1;
    (Verdict::OneOf(winners), if by_range { "tie-range-order" } else { "tie-registration-order" })
}

fn id_of(ct: &HeaderValue) -> &'static str {
    let s = ct.to_str().unwrap_or("");
    ENCODINGS.iter().find(|e| e.content_type == s).map(|e| e.id).unwrap_or("?")
}

fn gen_regs(r: &mut Rng) -> Vec<Enc> {
    let mut all = ENCODINGS.to_vec();
    r.shuffle(&mut all);
    let n = 1 + r.below(all.len());
    all.truncate(n);
    all
}

fn is_invalid_argument(e: &conjure_error::Error) -> bool {
    matches!(e.kind(), ErrorKind::Service(s) if *s.error_code() == ErrorCode::InvalidArgument)
}

fn accept_case(seed: u64, rep: &mut Report) {
    let mut rng = Rng::new(seed);
    let r = &mut rng;
    let regs = gen_regs(r);
    let n_entries = r.below(7);
    let mut entries: Vec<Entry> = (0..n_entries)
        .map(|_| {
            if r.chance(1, 12) {
                Entry::Garbage(r.pick(GARBAGE).to_string())
            } else {
                Entry::Range(gen_range(r, &regs))
            }
        })
        .collect();
    // bias: duplicate a range with another q, or add a wildcard with q=0
    if !entries.is_empty() && r.chance(1, 6) {
        if let Some(Entry::Range(g)) = entries.iter().find(|e| matches!(e, Entry::Range(_))).cloned() {
            let mut g2 = g.clone();
            let (q, t) = gen_q(r);
            g2.q = q;
            g2.q_text = t;
            entries.push(Entry::Range(g2));
        }
    }
    // bias: refine a range - same type/subtype and parameters plus one more parameter, another q
    if !entries.is_empty() && r.chance(1, 6) {
        let rs: Vec<Range> = entries.iter().filter_map(|e| if let Entry::Range(g) = e { Some(g.clone()) } else { None }).collect();
        if !rs.is_empty() {
            let mut g2 = r.pick(&rs).clone();
            let used = param_set(&g2);
            if let Some(k) = ["version", "profile", "level", "charset"].iter().find(|k| !used.iter().any(|(u, _)| u == *k)) {
                g2.params_before.push((k.to_string(), r.pick(&["1", "2", "utf-8"]).to_string()));
                let (q, t) = gen_q(r);
                g2.q = q;
                g2.q_text = t;
                let at = r.below(entries.len() + 1);
                entries.insert(at, Entry::Range(g2));
            }
        }
    }
    // split over header lines
    let mut lines: Vec<Vec<String>> = vec![vec![]];
    for e in &entries {
        if r.chance(1, 5) {
            lines.push(vec![]);
        }
        lines.last_mut().unwrap().push(match e {
            Entry::Range(g) => render_range(g),
            Entry::Garbage(s) => s.clone(),
        });
    }
    let mut headers = HeaderMap::new();
    let mut rendered = vec![];
    for l in lines.iter().filter(|l| !l.is_empty()) {
        let sep = *r.pick(&[",", ", ", " , ", ",  "]);
        let text = l.join(sep);
        rendered.push(text.clone());
        headers.append(ACCEPT, HeaderValue::from_str(&text).expect("ascii"));
    }
    if r.chance(1, 25) {
        // a line that is not valid header text at all is skipped by any reading
        headers.append(ACCEPT, HeaderValue::from_bytes(b"application/json\xff").unwrap());
        rendered.push("<non-ascii line>".into());
    }
    let ranges: Vec<Range> = entries
        .iter()
        .filter_map(|e| match e {
            Entry::Range(g) => Some(g.clone()),
            _ => None,
        })
        .collect();
    let has_params = ranges.iter().any(|g| !g.params_before.is_empty() || !g.params_after.is_empty());
    let all_garbage = ranges.is_empty() && !entries.is_empty();
    let (mut verdict, mut rule) = decide(&ranges, &regs, Spec::Ignore);
    let mut refined = false;
    if has_params && matches!(verdict, Verdict::Open(_)) {
        // equally specific by type/subtype, different q: decided where the parameter sets are nested
        let (v2, r2) = decide(&ranges, &regs, Spec::Refine);
        if !matches!(v2, Verdict::Open(_)) {
            verdict = v2;
            rule = r2;
            refined = true;
        }
    }

    let runtime = build_runtime(&regs);
    let got = guarded(|| runtime.response_body_encoding(&headers).map(|e| e.content_type()));
    let reg_ids: Vec<&str> = regs.iter().map(|e| e.id).collect();
    let sig = format!(
        "{}|n={}|regs={}|garbage={}|params={}",
        rule,
        ranges.len().min(4),
        reg_ids.join(","),
        entries.len() != ranges.len(),
        has_params
    );
    rep.evaluations += 1;
    rep.distinct.insert(fnv(&sig));
    let detail = || json!({"accept": rendered, "registered": reg_ids, "model": format!("{:?}", verdict), "rule": rule});
    rep.sample(5, || json!({"sub": "accept", "case_seed": seed, "case": detail()}));
    if all_garbage || (headers.get_all(ACCEPT).iter().count() > 0 && ranges.is_empty()) {
        // only unparsable entries: the property is silent on whether that means "no Accept"
        rep.observed_only("accept-with-only-unparsable-entries");
        if got.is_err() {
            rep.violation("accept", seed, "accept:panic", json!({"case": detail(), "panic": got.err()}));
        }
        return;
    }
    let got = match got {
        Err(p) => {
            rep.violation("accept", seed, "accept:panic", json!({"case": detail(), "panic": p}));
            return;
        }
        Ok(g) => g,
    };
    let observed: Result<&'static str, bool> = match &got {
        Ok(ct) => Ok(id_of(ct)),
        Err(e) => Err(is_invalid_argument(e)),
    };
    let agrees = |v: &Verdict| match (v, &observed) {
        (Verdict::OneOf(w), Ok(id)) => w.contains(id),
        (Verdict::NoneAcceptable, Err(_)) => true,
        (Verdict::Open(_), _) => true,
        _ => false,
    };
    if let Verdict::Open(class) = verdict {
        rep.observed_only(class);
        return;
    }
    rep.cell(&format!("rule/{}", rule));
    if refined {
        rep.cell("rule/decided-by-parameter-refinement");
    }
    if agrees(&verdict) {
        if let Err(false) = observed {
            rep.violation("accept", seed, "accept:error-not-invalid-argument", detail());
        }
        // cross-check through the response serializer: Content-Type of the response
        if let Ok(id) = observed {
            let resp = guarded(|| {
                <StdResponseSerializer as SerializeResponse<_, Vec<u8>>>::serialize(&runtime, &headers, 5i32)
            });
            match resp {
                Ok(Ok(resp)) => {
                    let ct = resp.headers().get(CONTENT_TYPE).map(id_of);
                    if ct != Some(id) {
                        rep.violation("accept", seed, "accept:serializer-content-type-differs", detail());
                    }
                }
                _ => rep.violation("accept", seed, "accept:serializer-failed", detail()),
            }
        }
        return;
    }
    if has_params && !refined && agrees(&decide(&ranges, &regs, Spec::Count).0) {
        rep.observed_only("parameters-counted-as-specificity");
        return;
    }
    let what = match (&verdict, &observed) {
        (Verdict::NoneAcceptable, Ok(_)) => "chose-encoding-not-permitted",
        (Verdict::OneOf(_), Err(_)) => "rejected-though-permitted",
        _ => "wrong-encoding",
    };
    rep.violation(
        "accept",
        seed,
        format!("accept:{}:{}", what, rule),
        json!({"case": detail(), "observed": format!("{:?}", observed)}),
    );
}

pub fn content_type_case(seed: u64, rep: &mut Report) {
    let mut rng = Rng::new(seed);
    let r = &mut rng;
    let regs = gen_regs(r);
    let runtime = build_runtime(&regs);
    let mut headers = HeaderMap::new();
    // (rendered header bytes, Some((type, subtype)) if it is a well-formed concrete media type)
    let (bytes, parsed, class): (Vec<u8>, Option<(String, String)>, &str) = match r.below(12) {
        0 => (vec![], None, "absent"),
        1 => (r.pick(GARBAGE).as_bytes().to_vec(), None, "garbage"),
        2 => (b"application/json\xff".to_vec(), None, "non-ascii"),
        3 => (b"*/*".to_vec(), Some(("*".into(), "*".into())), "wildcard"),
        4 => (b"application/*".to_vec(), Some(("application".into(), "*".into())), "wildcard"),
        _ => {
            let (ty, sub) = if r.chance(2, 3) {
                let e = r.pick(ENCODINGS);
                (e.ty.to_string(), e.sub.to_string())
            } else {
                let (t, s) = r.pick(OTHER_TYPES);
                (t.to_string(), s.to_string())
            };
            let mut g = gen_range(r, &regs);
            g.ty = ty.clone();
            g.sub = sub.clone();
            g.q_text = None;
            g.params_after.clear();
            if r.chance(1, 3) {
                g.params_before.push(("charset".into(), "UTF-8".into()));
            }
            (render_range(&g).into_bytes(), Some((ty, sub)), if g.params_before.is_empty() { "plain" } else { "with-params" })
        }
    };
    if class != "absent" {
        headers.insert(CONTENT_TYPE, HeaderValue::from_bytes(&bytes).expect("header bytes"));
    }
    let expected: Option<&'static str> = parsed
        .as_ref()
        .and_then(|(t, s)| regs.iter().find(|e| e.ty == t && e.sub == s))
        .map(|e| e.id);
    let got = guarded(|| runtime.request_body_encoding(&headers).map(|e| e.content_type()));
    let reg_ids: Vec<&str> = regs.iter().map(|e| e.id).collect();
    rep.evaluations += 1;
    rep.cell(&format!("content-type/{}/{}", class, if expected.is_some() { "match" } else { "no-match" }));
    rep.distinct.insert(fnv(&format!("ct|{}|{:?}|{}", class, expected, reg_ids.join(","))));
    let detail = json!({"content_type": String::from_utf8_lossy(&bytes), "registered": reg_ids, "expected": expected});
    rep.sample(7, || json!({"sub": "content-type", "case_seed": seed, "case": detail.clone()}));
    // the same decision seen through the request deserializers (blocking and async twins): the body `5` is decoded
    // only if a registered encoding matches (all harness encodings but Smile read JSON)
    {
        use conjure_http::server::{AsyncDeserializeRequest, DeserializeRequest, StdRequestDeserializer};
        let sync = guarded(|| <StdRequestDeserializer as DeserializeRequest<i32, _>>::deserialize(&runtime, &headers, labrt::Chunks::whole(b"5")));
        let asyn = guarded(|| {
            labrt::block_on(<StdRequestDeserializer as AsyncDeserializeRequest<i32, _>>::deserialize(&runtime, &headers, labrt::ChunkStream::new(labrt::Chunks::whole(b"5"))))
        });
        for (flavour, out) in [("blocking", sync), ("async", asyn)] {
            rep.evaluations += 1;
            rep.cell(&format!("content-type-deserializer/{}/{}", flavour, if expected.is_some() { "match" } else { "no-match" }));
            match (expected, out) {
                (_, Err(p)) => rep.violation("content-type", seed, format!("content-type:deserializer-panic:{}", flavour), json!({"case": detail, "panic": p})),
                (None, Ok(Ok(v))) => rep.violation("content-type", seed, format!("content-type:body-decoded-without-a-matching-encoding:{}", flavour), json!({"case": detail, "value": v})),
                (None, Ok(Err(e))) => {
                    if !is_invalid_argument(&e) {
                        rep.violation("content-type", seed, format!("content-type:deserializer-error-not-invalid-argument:{}", flavour), json!({"case": detail}));
                    }
                }
                (Some("smile"), _) => {}
                (Some(_), Ok(Err(e))) => rep.violation("content-type", seed, format!("content-type:body-rejected-though-registered:{}", flavour), json!({"case": detail, "error": format!("{:?}", e)})),
                (Some(_), Ok(Ok(v))) => {
                    if v != 5 {
                        rep.violation("content-type", seed, format!("content-type:body-value-changed:{}", flavour), json!({"case": detail, "value": v}));
                    }
                }
            }
        }
    }
    match got {
        Err(p) => rep.violation("content-type", seed, "content-type:panic", json!({"case": detail, "panic": p})),
        Ok(Ok(ct)) => {
            let id = id_of(&ct);
            if expected != Some(id) {
                rep.violation(
                    "content-type",
                    seed,
                    if expected.is_none() { "content-type:decoded-with-non-matching-encoding" } else { "content-type:wrong-encoding" },
                    json!({"case": detail, "observed": id}),
                );
            }
        }
        Ok(Err(e)) => {
            if expected.is_some() {
                rep.violation("content-type", seed, "content-type:rejected-though-registered", json!({"case": detail, "error": format!("{:?}", e)}));
            } else if !is_invalid_argument(&e) {
                rep.violation("content-type", seed, "content-type:error-not-invalid-argument", json!({"case": detail}));
            }
        }
    }
}

pub fn run(ctx: &Ctx, report: &mut Report) {
    ctx.cases(report, "accept", ctx.n(300_000, 20_000_000), accept_case);
    ctx.cases(report, "content-type", ctx.n(100_000, 3_000_000), content_type_case);
    if ctx.replay.is_none() {
        report.floor_cells("rules-decided", "rule/", 6);
        report.floor_cells("content-type-classes", "content-type/", 8);
    }
    report.notes.push(
        "distinct = distinct (deciding rule, #ranges, ordered registration, garbage?, params?) and (content-type class, expected, registration)".into(),
    );
}

//! C01 – JSON and Smile wrappers round-trip every Conjure value in Conjure encoding.
use crate::ctx::{guarded, Ctx};
use crate::node::*;
use conjure_object::{DoubleKey, Uuid};
use conjure_serde::{json, smile};
use serde::de::DeserializeOwned;
use serde::Serialize;
use serde_bytes::ByteBuf;
use serde_json::json;
use std::collections::{BTreeMap, BTreeSet};
use vcore::text::*;
use vcore::{Report, Rng};

/// A root type that can be expressed as a `Node` (so one model and one equality serve all).
pub trait Case: Serialize + DeserializeOwned + std::fmt::Debug {
    fn as_node(&self) -> Node;
    /// Wire model of the root value.
    fn wire(&self) -> M {
        match model(&self.as_node()) {
            M::Obj(mut v) if v.len() == 1 => v.pop().unwrap().1,
            other => other,
        }
    }
}

impl Case for Node {
    fn as_node(&self) -> Node {
        self.clone()
    }
    fn wire(&self) -> M {
        model(self)
    }
}

macro_rules! case {
    ($t:ty, |$v:ident| $e:expr) => {
        impl Case for $t {
            fn as_node(&self) -> Node {
                let $v = self;
                $e
            }
        }
    };
}

case!(bool, |v| Node::Bool(*v));
case!(i32, |v| Node::I32(*v));
case!(i64, |v| Node::I64(*v));
case!(conjure_object::SafeLong, |v| Node::Safe(*v));
case!(f64, |v| Node::F64(*v));
case!(String, |v| Node::Str(v.clone()));
case!(ByteBuf, |v| Node::Bin(v.clone()));
case!(Uuid, |v| Node::Uuid(*v));
case!(conjure_object::ResourceIdentifier, |v| Node::Rid(v.clone()));
case!(conjure_object::BearerToken, |v| Node::Token(v.clone()));
case!(conjure_object::DateTime<conjure_object::Utc>, |v| Node::Time(*v));
case!(Color, |v| Node::Color(*v));
case!(Option<Node>, |v| Node::Opt(v.clone().map(Box::new)));
case!(Vec<Node>, |v| Node::List(v.clone()));
case!(BTreeSet<Node>, |v| Node::Set(v.clone()));
case!(Rec, |v| Node::Struct(Box::new(v.clone())));
case!(Wrap, |v| Node::Newtype(Box::new(v.clone())));
case!(Marker, |_v| Node::UnitStruct(Marker));
case!(Pair, |v| Node::TupleStruct(Box::new(v.clone())));
case!((Node, Node), |v| Node::Tuple(Box::new(v.clone())));
case!(SeededList, |v| Node::Seeded(v.clone()));
case!(BTreeMap<String, Node>, |v| Node::MapStr(v.clone()));
case!(BTreeMap<i32, Node>, |v| Node::MapI32(v.clone()));
case!(BTreeMap<i64, Node>, |v| Node::MapI64(v.clone()));
case!(BTreeMap<conjure_object::SafeLong, Node>, |v| Node::MapSafe(v.clone()));
case!(BTreeMap<DoubleKey, Node>, |v| Node::MapF64(v.clone()));
case!(BTreeMap<bool, Node>, |v| Node::MapBool(v.clone()));
case!(BTreeMap<Uuid, Node>, |v| Node::MapUuid(v.clone()));
case!(BTreeMap<conjure_object::ResourceIdentifier, Node>, |v| Node::MapRid(v.clone()));
case!(BTreeMap<conjure_object::BearerToken, Node>, |v| Node::MapToken(v.clone()));
case!(BTreeMap<conjure_object::DateTime<conjure_object::Utc>, Node>, |v| Node::MapTime(v.clone()));
case!(BTreeMap<ByteBuf, Node>, |v| Node::MapBin(v.clone()));
case!(BTreeMap<Color, Node>, |v| Node::MapColor(v.clone()));
case!(BTreeMap<KeyWrap, Node>, |v| Node::MapWrapKey(v.clone()));

struct Probe<'a> {
    report: &'a mut Report,
    sub: &'a str,
    seed: u64,
    root: String,
    edges: BTreeSet<String>,
    shown: String,
}

impl Probe<'_> {
    fn fail(&mut self, cell: &str, what: &str, info: String) {
        self.report.violation(
            self.sub,
            self.seed,
            format!("{}:{}", cell, what),
            json!({"root": self.root, "value": self.shown, "cell": cell, "what": what, "info": trunc(&info)}),
        );
    }

    fn seen(&mut self, cell: &str) {
        self.report.evaluations += 1;
        self.report.cell(cell);
        let fmt = cell.split('/').next().unwrap_or("");
        for e in &self.edges {
            self.report.distinct.insert(vcore::rng::fnv(&format!("{}|{}", fmt, e)));
        }
    }

    /// One decode cell: must return a value Conjure-equal to the original.
    fn decode<T: Case>(&mut self, cell: &str, want: &Node, f: impl FnOnce() -> Result<T, String>) {
        self.seen(cell);
        match guarded(f) {
            Err(p) => self.fail(cell, "panic", p),
            Ok(Err(e)) => self.fail(cell, "decode-error", e),
            Ok(Ok(v)) => {
                let got = v.as_node();
                if got != *want {
                    self.fail(cell, "value-mismatch", format!("got {}", got.canon()));
                }
            }
        }
    }
}

/// A writer that accepts at most `limit` bytes per `write` call (and says so), as sockets and pipes do.
struct ShortWriter {
    out: Vec<u8>,
    limit: usize,
}

impl std::io::Write for ShortWriter {
    fn write(&mut self, buf: &[u8]) -> std::io::Result<usize> {
        let n = buf.len().min(self.limit);
        self.out.extend_from_slice(&buf[..n]);
        Ok(n)
    }

    fn flush(&mut self) -> std::io::Result<()> {
        Ok(())
    }
}

fn check<T: Case>(report: &mut Report, sub: &str, seed: u64, root: &str, v: &T) {
    let node = v.as_node();
    let wire = v.wire();
    let mut edges = BTreeSet::new();
    edges.insert(format!("root:{}>{}", root, node.kind()));
    node.edges(&mut edges);
    let mut p = Probe {
        report,
        sub,
        seed,
        root: root.to_string(),
        edges,
        shown: trunc(&node.canon()),
    };

    let short_limit = (seed % 97) as usize;
    // ---- JSON encoders
    let mut encodings: Vec<(&str, Vec<u8>)> = vec![];
    match guarded(|| json::to_vec(v)) {
        Ok(Ok(b)) => encodings.push(("to_vec", b)),
        Ok(Err(e)) => p.fail("json/to_vec", "encode-error", e.to_string()),
        Err(e) => p.fail("json/to_vec", "panic", e),
    }
    match guarded(|| json::to_string(v)) {
        Ok(Ok(s)) => {
            // the `unsafe` precondition of to_string: bytes must be UTF-8
            if std::str::from_utf8(s.as_bytes()).is_err() {
                p.fail("json/to_string", "invalid-utf8", String::new());
            }
            encodings.push(("to_string", s.into_bytes()));
        }
        Ok(Err(e)) => p.fail("json/to_string", "encode-error", e.to_string()),
        Err(e) => p.fail("json/to_string", "panic", e),
    }
    match guarded(|| {
        let mut buf = vec![];
        json::to_writer(&mut buf, v).map(|_| buf)
    }) {
        Ok(Ok(b)) => encodings.push(("to_writer", b)),
        Ok(Err(e)) => p.fail("json/to_writer", "encode-error", e.to_string()),
        Err(e) => p.fail("json/to_writer", "panic", e),
    }
    // a writer that takes short writes (sockets, pipes): the whole document must still arrive
    match guarded(|| {
        let mut w = ShortWriter { out: vec![], limit: 1 + (short_limit % 7) };
        json::to_writer(&mut w, v).map(|_| w.out)
    }) {
        Ok(Ok(b)) => encodings.push(("to_writer-short", b)),
        Ok(Err(e)) => p.fail("json/to_writer-short", "encode-error", e.to_string()),
        Err(e) => p.fail("json/to_writer-short", "panic", e),
    }
    match guarded(|| {
        let mut buf = vec![];
        let mut ser = json::Serializer::pretty(&mut buf);
        v.serialize(&mut ser).map(|_| buf)
    }) {
        Ok(Ok(b)) => encodings.push(("pretty", b)),
        Ok(Err(e)) => p.fail("json/pretty", "encode-error", e.to_string()),
        Err(e) => p.fail("json/pretty", "panic", e),
    }
    for (enc, bytes) in &encodings {
        let cell = format!("json/{}/model", enc);
        p.seen(&cell);
        match vcore::json::parse(bytes) {
            Err(e) => p.fail(&cell, "not-standard-json", format!("{} in {}", e, String::from_utf8_lossy(bytes))),
            Ok(j) => {
                if let Err(e) = json_matches(&wire, &j) {
                    p.fail(&cell, "wire-form", format!("{} in {}", e, String::from_utf8_lossy(bytes)));
                }
            }
        }
        let text = match std::str::from_utf8(bytes) {
            Ok(t) => t.to_string(),
            Err(_) => continue,
        };
        p.decode(&format!("json/{}/client/str", enc), &node, || {
            json::client_from_str::<T>(&text).map_err(|e| e.to_string())
        });
        p.decode(&format!("json/{}/server/str", enc), &node, || {
            json::server_from_str::<T>(&text).map_err(|e| e.to_string())
        });
        p.decode(&format!("json/{}/client/slice", enc), &node, || {
            json::client_from_slice::<T>(bytes).map_err(|e| e.to_string())
        });
        p.decode(&format!("json/{}/server/slice", enc), &node, || {
            json::server_from_slice::<T>(bytes).map_err(|e| e.to_string())
        });
        p.decode(&format!("json/{}/client/reader", enc), &node, || {
            json::client_from_reader::<_, T>(&bytes[..]).map_err(|e| e.to_string())
        });
        p.decode(&format!("json/{}/server/reader", enc), &node, || {
            json::server_from_reader::<_, T>(&bytes[..]).map_err(|e| e.to_string())
        });
    }
    if encodings.len() > 1 {
        // compact encoders must agree byte for byte
        let first = encodings[0].1.clone();
        for (enc, b) in encodings.iter().skip(1) {
            if *enc != "pretty" && *b != first {
                p.fail(&format!("json/{}", enc), "encoders-disagree", String::from_utf8_lossy(b).to_string());
            }
        }
    }

    // ---- Smile encoders
    let mut encodings: Vec<(&str, Vec<u8>)> = vec![];
    match guarded(|| smile::to_vec(v)) {
        Ok(Ok(b)) => encodings.push(("to_vec", b)),
        Ok(Err(e)) => p.fail("smile/to_vec", "encode-error", e.to_string()),
        Err(e) => p.fail("smile/to_vec", "panic", e),
    }
    match guarded(|| {
        let mut buf = vec![];
        smile::to_writer(&mut buf, v).map(|_| buf)
    }) {
        Ok(Ok(b)) => encodings.push(("to_writer", b)),
        Ok(Err(e)) => p.fail("smile/to_writer", "encode-error", e.to_string()),
        Err(e) => p.fail("smile/to_writer", "panic", e),
    }
    match guarded(|| {
        let mut w = ShortWriter { out: vec![], limit: 1 + (short_limit % 5) };
        smile::to_writer(&mut w, v).map(|_| w.out)
    }) {
        Ok(Ok(b)) => encodings.push(("to_writer-short", b)),
        Ok(Err(e)) => p.fail("smile/to_writer-short", "encode-error", e.to_string()),
        Err(e) => p.fail("smile/to_writer-short", "panic", e),
    }
    for (enc, bytes) in &encodings {
        let cell = format!("smile/{}/model", enc);
        p.seen(&cell);
        match serde_smile::from_slice::<serde_smile::value::Value>(bytes) {
            Err(e) => p.fail(&cell, "not-smile", e.to_string()),
            Ok(s) => {
                if let Err(e) = smile_matches(&wire, &s) {
                    p.fail(&cell, "wire-form", e);
                }
            }
        }
        p.decode(&format!("smile/{}/client/slice", enc), &node, || {
            smile::client_from_slice::<T>(bytes).map_err(|e| e.to_string())
        });
        p.decode(&format!("smile/{}/server/slice", enc), &node, || {
            smile::server_from_slice::<T>(bytes).map_err(|e| e.to_string())
        });
        p.decode(&format!("smile/{}/client/mut_slice", enc), &node, || {
            let mut b = bytes.clone();
            smile::client_from_mut_slice::<T>(&mut b).map_err(|e| e.to_string())
        });
        p.decode(&format!("smile/{}/server/mut_slice", enc), &node, || {
            let mut b = bytes.clone();
            smile::server_from_mut_slice::<T>(&mut b).map_err(|e| e.to_string())
        });
        p.decode(&format!("smile/{}/client/reader", enc), &node, || {
            smile::client_from_reader::<_, T>(&bytes[..]).map_err(|e| e.to_string())
        });
        p.decode(&format!("smile/{}/server/reader", enc), &node, || {
            smile::server_from_reader::<_, T>(&bytes[..]).map_err(|e| e.to_string())
        });
    }
    if encodings.windows(2).any(|w| w[0].1 != w[1].1) {
        p.fail("smile/to_writer", "encoders-disagree", String::new());
    }
}

fn gmap<K: Ord>(r: &mut Rng, d: usize, mut k: impl FnMut(&mut Rng) -> K) -> BTreeMap<K, Node> {
    (0..r.below(4)).map(|_| (k(r), gen_node(r, d))).collect()
}

/// One case of the `roots` sub-monitor: a value of a randomly chosen *root* type, so that every
/// kind also enters the wrappers at the top level (not only below an enum variant).
fn root_case(report: &mut Report, sub: &str, seed: u64, depth: usize) {
    let mut rng = Rng::new(seed);
    let r = &mut rng;
    let d = r.below(depth + 1);
    macro_rules! go {
        ($name:expr, $v:expr) => {{
            let v = $v;
            check(report, sub, seed, $name, &v)
        }};
    }
    match r.below(33) {
        0 => go!("bool", r.bool()),
        1 => go!("i32", hostile_i32(r)),
        2 => go!("i64", hostile_i64(r)),
        3 => go!("safelong", gen_safelong(r)),
        4 => go!("f64", hostile_f64(r)),
        5 => go!("string", hostile_string(r, 20)),
        6 => go!("binary", ByteBuf::from(hostile_bytes(r, 40))),
        7 => go!("uuid", gen_uuid(r)),
        8 => go!("rid", gen_rid(r)),
        9 => go!("token", gen_token(r)),
        10 => go!("datetime", gen_time(r)),
        11 => go!("enum", gen_color(r)),
        12 => go!("optional", if r.bool() { Some(gen_node(r, d)) } else { None }),
        13 => go!("list", (0..r.below(5)).map(|_| gen_node(r, d)).collect::<Vec<_>>()),
        14 => go!("set", (0..r.below(5)).map(|_| gen_node(r, d)).collect::<BTreeSet<_>>()),
        15 => go!(
            "struct",
            Rec {
                first: gen_node(r, d),
                opt: if r.bool() { Some(gen_node(r, d)) } else { None },
                list: (0..r.below(3)).map(|_| gen_node(r, d)).collect(),
                num: hostile_f64(r),
                id: gen_uuid(r),
            }
        ),
        16 => go!("newtype", Wrap(gen_node(r, d))),
        17 => go!("unitstruct", Marker),
        18 => go!("tuplestruct", Pair(gen_node(r, d), hostile_f64(r))),
        19 => go!("tuple", (gen_node(r, d), gen_node(r, d))),
        20 => go!("seeded", SeededList((0..r.below(4)).map(|_| gen_node(r, d)).collect())),
        21 => go!("map<string>", gmap(r, d, |r| hostile_string(r, 8))),
        22 => go!("map<i32>", gmap(r, d, hostile_i32)),
        23 => go!("map<i64>", gmap(r, d, hostile_i64)),
        24 => go!("map<safelong>", gmap(r, d, gen_safelong)),
        25 => go!("map<double>", gmap(r, d, |r| DoubleKey(hostile_f64(r)))),
        26 => go!("map<bool>", gmap(r, d, |r| r.bool())),
        27 => go!("map<uuid>", gmap(r, d, gen_uuid)),
        28 => go!("map<rid>", gmap(r, d, gen_rid)),
        29 => go!("map<token>", gmap(r, d, gen_token)),
        30 => go!("map<datetime>", gmap(r, d, gen_time)),
        31 => go!("map<binary>", gmap(r, d, |r| ByteBuf::from(hostile_bytes(r, 9)))),
        _ => match r.below(2) {
            0 => go!("map<enum>", gmap(r, d, gen_color)),
            _ => go!("map<alias>", gmap(r, d, |r| KeyWrap(DoubleKey(hostile_f64(r))))),
        },
    }
}

pub fn run(ctx: &Ctx, report: &mut Report) {
    let depth = if ctx.thorough { 9 } else { 6 };
    ctx.cases(report, "trees", ctx.n(6_000, 300_000), |seed, rep| {
        let mut r = Rng::new(seed);
        let d = 1 + r.below(depth);
        let n = gen_node(&mut r, d);
        rep.sample(3, || json!({"sub": "trees", "case_seed": seed, "value": trunc(&n.canon())}));
        check(rep, "trees", seed, "node", &n);
    });
    ctx.cases(report, "roots", ctx.n(6_000, 300_000), |seed, rep| {
        root_case(rep, "roots", seed, 3);
    });
    // a generated object (the sink's Payload: every primitive incl. a direct binary field, optionals, list, map keyed by
    // doubles, enum, nested object, any) through the same wrappers: what it writes, both deserializers read back
    ctx.cases(report, "generated", ctx.n(3_000, 100_000), |seed, rep| {
        use crate::gen::sink::Payload;
        let mut r = Rng::new(seed);
        let v = crate::svc::gen_payload(&mut r);
        let want = match json::to_string(&v) {
            Ok(t) => t,
            Err(e) => {
                rep.violation("generated", seed, "generated/json:encode-error", json!({"error": e.to_string()}));
                return;
            }
        };
        let mut probe = |cell: &str, back: Result<Payload, String>| {
            rep.evaluations += 1;
            rep.cell(&format!("generated/{}", cell));
            match back {
                Err(e) => rep.violation("generated", seed, format!("generated/{}:decode-error", cell), json!({"document": trunc(&want), "error": e})),
                Ok(b) => {
                    // Conjure JSON text as value identity (C01 itself justifies it; `any` payloads change integer width in Smile)
                    let got = json::to_string(&b).unwrap_or_default();
                    if got != want {
                        rep.violation("generated", seed, format!("generated/{}:value-mismatch", cell), json!({"written": trunc(&want), "read_back": trunc(&got)}));
                    }
                }
            }
        };
        probe("json/client", json::client_from_str::<Payload>(&want).map_err(|e| e.to_string()));
        probe("json/server", json::server_from_slice::<Payload>(want.as_bytes()).map_err(|e| e.to_string()));
        match smile::to_vec(&v) {
            Ok(b) => {
                probe("smile/client", smile::client_from_slice::<Payload>(&b).map_err(|e| e.to_string()));
                probe("smile/server", smile::server_from_reader::<_, Payload>(&b[..]).map_err(|e| e.to_string()));
            }
            Err(e) => rep.violation("generated", seed, "generated/smile:encode-error", json!({"error": e.to_string()})),
        }
    });
    if ctx.replay.is_none() {
        // every encoder x decoder x source cell
        report.floor_cells("json-cells", "json/", 4 * 7);
        report.floor_cells("smile-cells", "smile/", 2 * 7);
        let d = report.distinct.len() as u64;
        report.floor("distinct-edges", if ctx.scale >= 1.0 { 1500 } else { 50 }, d);
    }
    report.notes.push(
        "distinct = distinct (format, parent-kind>child-kind) edges, incl. root-type>kind edges".into(),
    );
}

//! C13 monitor (not written yet).
pub fn run(_ctx: &crate::ctx::Ctx, report: &mut vcore::Report) {
    report.notes.push("stub".into());
}

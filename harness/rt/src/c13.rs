//! C13 – the dynamic `Any` value is a lossless carrier of serializable data and of JSON.
//!
//! Sub-monitors
//! * `trees`  – `Node` trees: (1) `Any::new(&v)?.deserialize_into::<Node>() == v` and
//!   `json(any) ≡ json(v)`; (3) coercion parity on the valid document `D = json(v)`:
//!   `client_from_str::<Any>(D)?.deserialize_into::<Node>() == v`.
//! * `wide-pinned` / `wide` – the same two laws for every Rust integer width, f32/f64 (NaN
//!   included), char, bool, string, binary, unit-only enums, below options / lists / sets / maps
//!   (as value and as *key*) / tuples / structs / enums / newtypes. `wide-pinned` enumerates every
//!   leaf type x shape with boundary values, `wide` draws random ones.
//! * `docs`   – (2) random standard JSON documents (integers within the i64 and u64 ranges, no
//!   duplicate members) -> `Any` -> JSON must be an equivalent document.
//!
//! Error parity on invalid documents is not claimed by the property and not judged.
use crate::ctx::{guarded, Ctx};
use crate::node::*;
use conjure_object::{Any, DoubleKey};
use conjure_serde::json;
use serde::de::DeserializeOwned;
use serde::{Deserialize, Serialize};
use serde_bytes::ByteBuf;
use serde_json::json;
use std::cmp::Ordering;
use std::collections::{BTreeMap, BTreeSet};
use std::fmt::Debug;
use vcore::json::J;
use vcore::rng::fnv;
use vcore::text::*;
use vcore::{Report, Rng};

// ---------------------------------------------------------------------------------------------
// JSON equivalence (vcore::json::equiv plus exact comparison of integers beyond i128, which the
// u128 leaf needs; never stricter than vcore's).

fn is_int_text(s: &str) -> bool {
    let t = s.strip_prefix('-').unwrap_or(s);
    !t.is_empty() && t.bytes().all(|c| c.is_ascii_digit())
}

fn jequiv(a: &J, b: &J) -> bool {
    match (a, b) {
        (J::Num(x), J::Num(y)) => {
            if x == y {
                return true;
            }
            if is_int_text(x) && is_int_text(y) {
                // canonical decimal integers of any size: equal iff same digits (modulo -0)
                let z = |s: &str| s.trim_start_matches('-').bytes().all(|c| c == b'0');
                return z(x) && z(y);
            }
            vcore::json::equiv(a, b)
        }
        (J::Arr(x), J::Arr(y)) => x.len() == y.len() && x.iter().zip(y).all(|(p, q)| jequiv(p, q)),
        (J::Obj(x), J::Obj(y)) => {
            x.len() == y.len()
                && x.iter().all(|(k, v)| {
                    let mut it = y.iter().filter(|(k2, _)| k2 == k);
                    match (it.next(), it.next()) {
                        (Some((_, w)), None) => jequiv(v, w),
                        _ => false,
                    }
                })
        }
        _ => a == b,
    }
}

// ---------------------------------------------------------------------------------------------
// Equality used for the "wide" types: structural, NaN equals NaN, other floats by bit pattern.

trait Same {
    fn same(&self, o: &Self) -> bool;
}

macro_rules! same_eq {
    ($($t:ty),*) => {$(
        impl Same for $t {
            fn same(&self, o: &Self) -> bool { self == o }
        }
    )*};
}
same_eq!(i8, i16, i32, i64, i128, u8, u16, u32, u64, u128, char, bool, String, ByteBuf, WK, ());

impl Same for f32 {
    fn same(&self, o: &Self) -> bool {
        (self.is_nan() && o.is_nan()) || self.to_bits() == o.to_bits()
    }
}
impl Same for f64 {
    fn same(&self, o: &Self) -> bool {
        (self.is_nan() && o.is_nan()) || self.to_bits() == o.to_bits()
    }
}
impl Same for DoubleKey {
    fn same(&self, o: &Self) -> bool {
        self.0.same(&o.0)
    }
}
impl Same for F32Key {
    fn same(&self, o: &Self) -> bool {
        self.0.same(&o.0)
    }
}
impl<T: Same> Same for Option<T> {
    fn same(&self, o: &Self) -> bool {
        match (self, o) {
            (None, None) => true,
            (Some(a), Some(b)) => a.same(b),
            _ => false,
        }
    }
}
impl<T: Same> Same for Vec<T> {
    fn same(&self, o: &Self) -> bool {
        self.len() == o.len() && self.iter().zip(o).all(|(a, b)| a.same(b))
    }
}
impl<T: Same> Same for BTreeSet<T> {
    fn same(&self, o: &Self) -> bool {
        self.len() == o.len() && self.iter().zip(o).all(|(a, b)| a.same(b))
    }
}
impl<K: Same, V: Same> Same for BTreeMap<K, V> {
    fn same(&self, o: &Self) -> bool {
        self.len() == o.len()
            && self.iter().zip(o).all(|((a, x), (b, y))| a.same(b) && x.same(y))
    }
}
impl<A: Same, B: Same> Same for (A, B) {
    fn same(&self, o: &Self) -> bool {
        self.0.same(&o.0) && self.1.same(&o.1)
    }
}

/// f32 usable as a map key: all NaN equal and greatest, +0 == -0 (the Conjure double-key rule).
#[derive(Serialize, Deserialize, Clone, Copy, Debug)]
#[serde(transparent)]
struct F32Key(f32);
impl PartialEq for F32Key {
    fn eq(&self, o: &Self) -> bool {
        self.cmp(o) == Ordering::Equal
    }
}
impl Eq for F32Key {}
impl PartialOrd for F32Key {
    fn partial_cmp(&self, o: &Self) -> Option<Ordering> {
        Some(self.cmp(o))
    }
}
impl Ord for F32Key {
    fn cmp(&self, o: &Self) -> Ordering {
        match (self.0.is_nan(), o.0.is_nan()) {
            (true, true) => Ordering::Equal,
            (true, false) => Ordering::Greater,
            (false, true) => Ordering::Less,
            _ => self.0.partial_cmp(&o.0).unwrap(),
        }
    }
}

/// Unit-only enum through serde's derive (externally tagged: a bare string).
#[derive(Serialize, Deserialize, Clone, Copy, Debug, PartialEq, Eq, PartialOrd, Ord)]
enum WK {
    Alpha,
    #[serde(rename = "BETA_2")]
    Beta,
    #[serde(rename = "g-amma")]
    Gamma,
}

#[derive(Serialize, Deserialize, Clone, Debug)]
struct WS<L> {
    a: L,
    #[serde(rename = "b-opt")]
    b: Option<L>,
    c: Vec<L>,
    #[serde(rename = "dMap")]
    d: BTreeMap<String, L>,
}
impl<L: Same> Same for WS<L> {
    fn same(&self, o: &Self) -> bool {
        self.a.same(&o.a) && self.b.same(&o.b) && self.c.same(&o.c) && self.d.same(&o.d)
    }
}

#[derive(Serialize, Deserialize, Clone, Debug)]
enum WE<L> {
    U,
    N(L),
    T(L, L),
    S {
        x: L,
        #[serde(rename = "y-opt")]
        y: Option<L>,
    },
}
impl<L: Same> Same for WE<L> {
    fn same(&self, o: &Self) -> bool {
        match (self, o) {
            (WE::U, WE::U) => true,
            (WE::N(a), WE::N(b)) => a.same(b),
            (WE::T(a, b), WE::T(c, d)) => a.same(c) && b.same(d),
            (WE::S { x, y }, WE::S { x: x2, y: y2 }) => x.same(x2) && y.same(y2),
            _ => false,
        }
    }
}

#[derive(Serialize, Deserialize, Clone, Debug, PartialEq, Eq, PartialOrd, Ord)]
struct WN<L>(L);
impl<L: Same> Same for WN<L> {
    fn same(&self, o: &Self) -> bool {
        self.0.same(&o.0)
    }
}

// ---------------------------------------------------------------------------------------------
// Leaves

trait Leaf: Serialize + DeserializeOwned + Same + Debug + Clone {
    const NAME: &'static str;
    /// Boundary values, enumerated by `wide-pinned`.
    fn pinned() -> Vec<Self>;
    fn gen(r: &mut Rng) -> Self;
    /// Structural class of a value (distinctness signature).
    fn class(&self) -> &'static str;
}

macro_rules! int_leaf {
    ($t:ty, $name:expr) => {
        impl Leaf for $t {
            const NAME: &'static str = $name;
            #[allow(unused_comparisons)]
            fn pinned() -> Vec<Self> {
                let mut v: Vec<$t> = vec![0, 1, <$t>::MIN, <$t>::MAX, <$t>::MAX - 1, <$t>::MAX / 2 + 1];
                // around the 8/16/32/53/64 bit boundaries of both signs where representable
                for k in [7u32, 8, 15, 16, 31, 32, 53, 63, 64, 127] {
                    if k < <$t>::BITS - 1 {
                        let b: $t = 1 << k;
                        v.push(b);
                        v.push(b - 1);
                        v.push(b + 1);
                        if <$t>::MIN < 0 {
                            v.push((0 as $t).wrapping_sub(b));
                            v.push((0 as $t).wrapping_sub(b).wrapping_sub(1));
                        }
                    }
                }
                v
            }
            fn gen(r: &mut Rng) -> Self {
                match r.below(6) {
                    0 => {
                        let p = Self::pinned();
                        p[r.below(p.len())]
                    }
                    1 => (r.below(200) as i64 - 100) as $t,
                    2 => {
                        // a random bit length
                        let k = r.below(<$t>::BITS as usize) as u32;
                        (r.u128() as $t) >> k
                    }
                    _ => r.u128() as $t,
                }
            }
            #[allow(unused_comparisons)]
            fn class(&self) -> &'static str {
                let v = *self as i128;
                let neg = *self < 0;
                let mag = if neg { (v as i128).unsigned_abs() } else { *self as u128 };
                match (neg, mag) {
                    (_, 0) => "zero",
                    (false, m) if m <= i32::MAX as u128 => "pos32",
                    (false, m) if m <= (1 << 53) => "pos53",
                    (false, m) if m <= i64::MAX as u128 => "pos63",
                    (false, m) if m <= u64::MAX as u128 => "pos64",
                    (false, m) if m <= i128::MAX as u128 => "pos127",
                    (false, _) => "pos128",
                    (true, m) if m <= 1 << 31 => "neg32",
                    (true, m) if m <= 1 << 53 => "neg53",
                    (true, m) if m <= 1 << 63 => "neg63",
                    (true, _) => "neg127",
                }
            }
        }
    };
}
int_leaf!(i8, "i8");
int_leaf!(i16, "i16");
int_leaf!(i32, "i32");
int_leaf!(i64, "i64");
int_leaf!(i128, "i128");
int_leaf!(u8, "u8");
int_leaf!(u16, "u16");
int_leaf!(u32, "u32");
int_leaf!(u64, "u64");
int_leaf!(u128, "u128");

fn gen_f32(r: &mut Rng) -> f32 {
    match r.below(12) {
        0 => f32::NAN,
        1 => f32::from_bits(0x7fc0_0000 | (r.u64() as u32 & 0x003f_ffff)),
        2 => f32::from_bits(0xffc0_0000 | (r.u64() as u32 & 0x003f_ffff)),
        3 => f32::INFINITY,
        4 => f32::NEG_INFINITY,
        5 => *r.pick(&[0.0f32, -0.0]),
        6 => f32::from_bits(r.u64() as u32 & 0x807f_ffff), // subnormal
        7 => *r.pick(&[f32::MAX, f32::MIN, f32::MIN_POSITIVE, f32::EPSILON, 1e-45, 0.1, 16777217.0]),
        8 => r.range(-1000, 1000) as f32 / 8.0,
        9 => r.range(-100000, 100000) as f32 / 1000.0,
        _ => {
            let e = r.below(0xff) as u32;
            f32::from_bits((r.u64() as u32 & 0x807f_ffff) | (e << 23))
        }
    }
}

fn f32_class(v: f32) -> &'static str {
    if v.is_nan() {
        if v.to_bits() == f32::NAN.to_bits() {
            "nan"
        } else {
            "nan-payload"
        }
    } else if v.is_infinite() {
        "inf"
    } else if v == 0.0 {
        if v.is_sign_negative() {
            "-0"
        } else {
            "+0"
        }
    } else if v.is_subnormal() {
        "subnormal"
    } else if v.fract() == 0.0 {
        "integral"
    } else {
        "fraction"
    }
}

fn f64_class(v: f64) -> &'static str {
    if v.is_nan() {
        if v.to_bits() == f64::NAN.to_bits() {
            "nan"
        } else {
            "nan-payload"
        }
    } else if v.is_infinite() {
        "inf"
    } else if v == 0.0 {
        if v.is_sign_negative() {
            "-0"
        } else {
            "+0"
        }
    } else if v.is_subnormal() {
        "subnormal"
    } else if v.fract() == 0.0 {
        if v.abs() < 9.3e18 {
            "integral"
        } else {
            "integral-big"
        }
    } else {
        "fraction"
    }
}

const F32_PINNED: &[f32] = &[
    0.0,
    -0.0,
    1.0,
    -1.5,
    0.1,
    f32::MAX,
    f32::MIN,
    f32::MIN_POSITIVE,
    1e-45,
    16777216.0,
    f32::INFINITY,
    f32::NEG_INFINITY,
    f32::NAN,
];
const F64_PINNED: &[f64] = &[
    0.0,
    -0.0,
    1.0,
    -1.5,
    0.1,
    f64::MAX,
    f64::MIN,
    f64::MIN_POSITIVE,
    5e-324,
    9007199254740993.0,
    1e300,
    f64::INFINITY,
    f64::NEG_INFINITY,
    f64::NAN,
];

impl Leaf for f32 {
    const NAME: &'static str = "f32";
    fn pinned() -> Vec<Self> {
        let mut v = F32_PINNED.to_vec();
        v.push(f32::from_bits(0xffc0_1234));
        v
    }
    fn gen(r: &mut Rng) -> Self {
        gen_f32(r)
    }
    fn class(&self) -> &'static str {
        f32_class(*self)
    }
}
impl Leaf for F32Key {
    const NAME: &'static str = "f32";
    fn pinned() -> Vec<Self> {
        f32::pinned().into_iter().map(F32Key).collect()
    }
    fn gen(r: &mut Rng) -> Self {
        F32Key(gen_f32(r))
    }
    fn class(&self) -> &'static str {
        f32_class(self.0)
    }
}
impl Leaf for f64 {
    const NAME: &'static str = "f64";
    fn pinned() -> Vec<Self> {
        let mut v = F64_PINNED.to_vec();
        v.push(f64::from_bits(0xfff8_0000_0000_1234));
        v
    }
    fn gen(r: &mut Rng) -> Self {
        hostile_f64(r)
    }
    fn class(&self) -> &'static str {
        f64_class(*self)
    }
}
impl Leaf for DoubleKey {
    const NAME: &'static str = "f64";
    fn pinned() -> Vec<Self> {
        f64::pinned().into_iter().map(DoubleKey).collect()
    }
    fn gen(r: &mut Rng) -> Self {
        DoubleKey(hostile_f64(r))
    }
    fn class(&self) -> &'static str {
        f64_class(self.0)
    }
}
impl Leaf for char {
    const NAME: &'static str = "char";
    fn pinned() -> Vec<Self> {
        vec!['a', '\0', '"', '\\', '\n', '\u{7f}', '\u{80}', 'é', '\u{7ff}', '\u{800}', '€', '\u{ffff}', '\u{10000}', '😀', '\u{10ffff}', '0', '-']
    }
    fn gen(r: &mut Rng) -> Self {
        if r.chance(1, 4) {
            *r.pick(&Self::pinned())
        } else {
            hostile_char(r)
        }
    }
    fn class(&self) -> &'static str {
        match *self as u32 {
            0..=0x1f => "control",
            0x20..=0x7f => "ascii",
            0x80..=0x7ff => "2byte",
            0x800..=0xffff => "3byte",
            _ => "4byte",
        }
    }
}
impl Leaf for bool {
    const NAME: &'static str = "bool";
    fn pinned() -> Vec<Self> {
        vec![false, true]
    }
    fn gen(r: &mut Rng) -> Self {
        r.bool()
    }
    fn class(&self) -> &'static str {
        if *self {
            "true"
        } else {
            "false"
        }
    }
}
impl Leaf for String {
    const NAME: &'static str = "string";
    fn pinned() -> Vec<Self> {
        ["", "a", "NaN", "Infinity", "-Infinity", "AA==", "5", "-1", "true", "null", "é😀", "\u{0}\"\\\n", "Alpha", "1.5"]
            .iter()
            .map(|s| s.to_string())
            .collect()
    }
    fn gen(r: &mut Rng) -> Self {
        hostile_string(r, 10)
    }
    fn class(&self) -> &'static str {
        match self.as_str() {
            "" => "empty",
            "NaN" | "Infinity" | "-Infinity" => "double-lookalike",
            "true" | "false" | "null" => "literal-lookalike",
            s if s.parse::<f64>().is_ok() => "number-lookalike",
            s if vcore::models::b64_decode(s).is_some() => "base64-lookalike",
            s if s.is_ascii() => "ascii",
            _ => "unicode",
        }
    }
}
impl Leaf for ByteBuf {
    const NAME: &'static str = "binary";
    fn pinned() -> Vec<Self> {
        vec![
            ByteBuf::new(),
            ByteBuf::from(vec![0u8]),
            ByteBuf::from(vec![0xffu8, 0xfe]),
            ByteBuf::from(vec![0xfbu8, 0xff, 0xbf]),
            ByteBuf::from(b"NaN".to_vec()),
            ByteBuf::from((0u8..=255).collect::<Vec<_>>()),
        ]
    }
    fn gen(r: &mut Rng) -> Self {
        ByteBuf::from(hostile_bytes(r, 24))
    }
    fn class(&self) -> &'static str {
        match self.len() % 3 {
            _ if self.is_empty() => "empty",
            0 => "len%3=0",
            1 => "len%3=1",
            _ => "len%3=2",
        }
    }
}
impl Leaf for WK {
    const NAME: &'static str = "enum";
    fn pinned() -> Vec<Self> {
        vec![WK::Alpha, WK::Beta, WK::Gamma]
    }
    fn gen(r: &mut Rng) -> Self {
        *r.pick(&[WK::Alpha, WK::Beta, WK::Gamma])
    }
    fn class(&self) -> &'static str {
        match self {
            WK::Alpha => "plain",
            WK::Beta => "renamed",
            WK::Gamma => "renamed-dash",
        }
    }
}

// ---------------------------------------------------------------------------------------------
// The two laws on one value of a concrete type

struct Lab<'a> {
    rep: &'a mut Report,
    sub: &'a str,
    seed: u64,
    /// signature stem: "node" or the leaf name
    leaf: &'a str,
    cell: String,
    shown: String,
}

impl Lab<'_> {
    fn fail(&mut self, law: &str, what: &str, info: String) {
        self.rep.violation(
            self.sub,
            self.seed,
            format!("{}:{}:{}", law, self.leaf, what),
            json!({"cell": self.cell, "value": self.shown, "what": what, "info": trunc(&info)}),
        );
    }
}

/// What can be said about one value, independent of its type.
fn laws<T>(
    lab: &mut Lab,
    v: &T,
    same: impl Fn(&T, &T) -> bool,
    show: impl Fn(&T) -> String,
    coerce: bool,
) where
    T: Serialize + DeserializeOwned,
{
    // ---- (1a) value -> Any -> value
    lab.rep.evaluations += 1;
    lab.rep.cell(&format!("{}/roundtrip", lab.cell));
    let any = match guarded(|| Any::new(v)) {
        Err(p) => return lab.fail("any-roundtrip", "serialize-panic", p),
        Ok(Err(e)) => return lab.fail("any-roundtrip", "serialize-error", e.to_string()),
        Ok(Ok(a)) => a,
    };
    match guarded(|| any.clone().deserialize_into::<T>()) {
        Err(p) => lab.fail("any-roundtrip", "deserialize-panic", p),
        Ok(Err(e)) => lab.fail("any-roundtrip", "deserialize-error", e.to_string()),
        Ok(Ok(back)) => {
            if !same(v, &back) {
                lab.fail("any-roundtrip", "value-mismatch", format!("got {}", show(&back)));
            }
        }
    }

    // ---- (1b) json(any) equivalent to json(v)
    let direct = match guarded(|| json::to_string(v)) {
        Ok(Ok(s)) => Some(s),
        // The value itself has no JSON form (e.g. a map keyed by a tuple): nothing to compare.
        _ => {
            lab.rep.observed_only("value-has-no-json-form");
            None
        }
    };
    if let Some(direct) = &direct {
        lab.rep.evaluations += 1;
        lab.rep.cell(&format!("{}/json-eq", lab.cell));
        match guarded(|| json::to_string(&any)) {
            Err(p) => lab.fail("any-json", "serialize-panic", p),
            Ok(Err(e)) => lab.fail("any-json", "serialize-error", e.to_string()),
            Ok(Ok(via)) => match (vcore::json::parse(direct.as_bytes()), vcore::json::parse(via.as_bytes())) {
                (Ok(a), Ok(b)) => {
                    if !jequiv(&a, &b) {
                        lab.fail("any-json", "not-equivalent", format!("direct {} via any {}", direct, via));
                    }
                }
                (Err(_), _) => lab.rep.observed_only("direct-json-not-standard"),
                (Ok(_), Err(e)) => lab.fail("any-json", "not-standard-json", format!("{} in {}", e, via)),
            },
        }
    }

    // ---- (3) the valid document D = json(v), viewed through Any, is v again
    if let (true, Some(doc)) = (coerce, &direct) {
        // parity is claimed relative to direct parsing: only judged where direct parsing of D
        // gives v back (that law itself is C01's)
        match guarded(|| json::client_from_str::<T>(doc)) {
            Ok(Ok(d)) if same(v, &d) => {}
            _ => {
                lab.rep.observed_only("direct-parse-does-not-return-value");
                return;
            }
        }
        lab.rep.evaluations += 1;
        lab.rep.cell(&format!("{}/coerce", lab.cell));
        let parsed = match guarded(|| json::client_from_str::<Any>(doc)) {
            Err(p) => return lab.fail("any-coerce", "parse-panic", p),
            Ok(Err(e)) => return lab.fail("any-coerce", "parse-error", format!("{} in {}", e, doc)),
            Ok(Ok(a)) => a,
        };
        match guarded(|| parsed.deserialize_into::<T>()) {
            Err(p) => lab.fail("any-coerce", "view-panic", p),
            Ok(Err(e)) => lab.fail("any-coerce", "view-error", format!("{} for {}", e, doc)),
            Ok(Ok(back)) => {
                if !same(v, &back) {
                    lab.fail("any-coerce", "value-mismatch", format!("got {} from {}", show(&back), doc));
                }
            }
        }
    }
}

fn check_node(rep: &mut Report, sub: &str, seed: u64, v: &Node) {
    let mut edges = BTreeSet::new();
    edges.insert(format!("root>{}", v.kind()));
    v.edges(&mut edges);
    for e in &edges {
        rep.distinct.insert(fnv(&format!("node|{}", e)));
    }
    // failure modes get their own signature stem: a tree holding a (non-transparent) newtype
    // struct in value position is a structural class of its own
    let has_newtype = edges.iter().any(|e| e.ends_with(">Newtype"));
    let mut lab = Lab {
        rep,
        sub,
        seed,
        leaf: if has_newtype { "newtype-struct" } else { "node" },
        cell: "node".to_string(),
        shown: trunc(&v.canon()),
    };
    laws(&mut lab, v, |a, b| a == b, |n| n.canon(), true);
}

fn check_wide<T>(rep: &mut Report, sub: &str, seed: u64, shape: &str, leaf: &'static str, class: &str, v: &T, coerce: bool)
where
    T: Serialize + DeserializeOwned + Same + Debug,
{
    rep.distinct.insert(fnv(&format!("wide|{}|{}|{}", shape, leaf, class)));
    // signature stem = the leaf type, except for the newtype struct in value position, which is
    // a structural class of its own whatever it wraps
    let big = leaf == "i128" || leaf == "u128";
    let stem = match (shape, big) {
        ("newtype", false) => "newtype-struct".to_string(),
        ("newtype", true) => format!("{}+newtype-struct", leaf),
        _ => leaf.to_string(),
    };
    let mut lab = Lab {
        rep,
        sub,
        seed,
        leaf: &stem,
        cell: format!("wide/{}/{}", shape, leaf),
        shown: trunc(&format!("{:?}", v)),
    };
    laws(&mut lab, v, |a, b| a.same(b), |b| format!("{:?}", b), coerce);
}

/// Coercion parity is only claimed for documents with integers in the 64-bit range.
fn coercible<L: Leaf>() -> bool {
    L::NAME != "i128" && L::NAME != "u128"
}

/// Every value shape around a leaf type; `next` yields the leaf values to use.
fn value_shapes<L: Leaf>(rep: &mut Report, sub: &str, seed: u64, r: &mut Rng, next: &mut dyn FnMut(&mut Rng) -> L) {
    let co = coercible::<L>();
    macro_rules! go {
        ($shape:expr, $class:expr, $v:expr) => {{
            let v = $v;
            check_wide(rep, sub, seed, $shape, L::NAME, $class, &v, co);
        }};
    }
    let a = next(r);
    let cls = a.class();
    go!("bare", cls, a.clone());
    go!("some", cls, Some(a.clone()));
    go!("none", "-", None::<L>);
    let list: Vec<L> = (0..r.below(4)).map(|_| next(r)).collect();
    go!("list", &format!("len{}", list.len()), list.clone());
    go!("list-of-option", cls, vec![Some(a.clone()), None, Some(next(r))]);
    go!("option-of-list", cls, Some(vec![a.clone()]));
    let m: BTreeMap<String, L> = (0..r.below(4)).map(|_| (hostile_string(r, 6), next(r))).collect();
    go!("map-value", &format!("len{}", m.len()), m.clone());
    go!("tuple", cls, (a.clone(), next(r)));
    go!("newtype", cls, WN(a.clone()));
    go!(
        "struct",
        cls,
        WS {
            a: a.clone(),
            b: if r.bool() { Some(next(r)) } else { None },
            c: list.clone(),
            d: m,
        }
    );
    go!("enum-unit", "-", WE::<L>::U);
    go!("enum-newtype", cls, WE::N(a.clone()));
    go!("enum-tuple", cls, WE::T(a.clone(), next(r)));
    go!("enum-struct", cls, WE::S { x: a.clone(), y: if r.bool() { Some(next(r)) } else { None } });
    go!("list-of-enum", cls, vec![WE::N(a.clone()), WE::U, WE::S { x: next(r), y: None }]);
    go!("list-of-list", cls, vec![vec![a.clone()], vec![], list]);
}

/// Every *key* shape around a leaf type usable as a map key / set element.
fn key_shapes<K: Leaf + Ord>(rep: &mut Report, sub: &str, seed: u64, r: &mut Rng, next: &mut dyn FnMut(&mut Rng) -> K) {
    let co = coercible::<K>();
    macro_rules! go {
        ($shape:expr, $class:expr, $v:expr, $co:expr) => {{
            let v = $v;
            check_wide(rep, sub, seed, $shape, K::NAME, $class, &v, $co);
        }};
    }
    let a = next(r);
    let cls = a.class();
    let m: BTreeMap<K, String> = std::iter::once((a.clone(), "x".to_string()))
        .chain((0..r.below(3)).map(|_| (next(r), hostile_string(r, 4))))
        .collect();
    go!("map-key", cls, m, co);
    let m: BTreeMap<WN<K>, Option<K>> = std::iter::once((WN(a.clone()), Some(a.clone())))
        .chain((0..r.below(3)).map(|_| (WN(next(r)), None)))
        .collect();
    go!("map-newtype-key", cls, m, co);
    let s: BTreeSet<K> = std::iter::once(a.clone()).chain((0..r.below(3)).map(|_| next(r))).collect();
    go!("set", cls, s, co);
    let m: BTreeMap<K, BTreeMap<K, Vec<K>>> = std::iter::once((
        a.clone(),
        std::iter::once((next(r), vec![a.clone()])).collect::<BTreeMap<_, _>>(),
    ))
    .collect();
    go!("map-of-map", cls, m, co);
    // a key that is a sequence has no JSON form; only the in-memory round trip is judged
    let m: BTreeMap<(K, K), K> = std::iter::once(((a.clone(), next(r)), a.clone())).collect();
    go!("map-tuple-key", cls, m, false);
    // keys that serialize to null (an absent optional, unit): no JSON form either, the in-memory round trip must still hold
    let m: BTreeMap<Option<K>, K> = [(None, a.clone()), (Some(a.clone()), next(r))].into_iter().collect();
    go!("map-option-key", cls, m, false);
    let m: BTreeMap<(), K> = std::iter::once(((), a.clone())).collect();
    go!("map-unit-key", cls, m, false);
}

const N_VALUE_SHAPES: u64 = 16;
const N_KEY_SHAPES: u64 = 7;
/// value leaves: 10 ints, f32, f64, char, bool, string, binary, enum
const N_VALUE_LEAVES: u64 = 17;
/// key leaves: 10 ints, f32 (F32Key), f64 (DoubleKey), char, bool, string, binary, enum
const N_KEY_LEAVES: u64 = 17;

/// `pick = None`: every pinned value of the leaf, in turn; `Some(rng)`: random values.
fn leaf_case(rep: &mut Report, sub: &str, seed: u64, leaf: usize, pinned: bool) {
    let mut rng = Rng::new(seed);
    let r = &mut rng;
    macro_rules! run {
        ($v:ty, $k:ty) => {{
            if pinned {
                let pv = <$v as Leaf>::pinned();
                for i in 0..pv.len() {
                    let mut j = i;
                    value_shapes::<$v>(rep, sub, seed, r, &mut |_r| {
                        j += 1;
                        pv[(j - 1) % pv.len()].clone()
                    });
                }
                let pk = <$k as Leaf>::pinned();
                for i in 0..pk.len() {
                    let mut j = i;
                    key_shapes::<$k>(rep, sub, seed, r, &mut |_r| {
                        j += 1;
                        pk[(j - 1) % pk.len()].clone()
                    });
                }
            } else {
                value_shapes::<$v>(rep, sub, seed, r, &mut |r| <$v as Leaf>::gen(r));
                key_shapes::<$k>(rep, sub, seed, r, &mut |r| <$k as Leaf>::gen(r));
            }
        }};
    }
    match leaf {
        0 => run!(i8, i8),
        1 => run!(i16, i16),
        2 => run!(i32, i32),
        3 => run!(i64, i64),
        4 => run!(i128, i128),
        5 => run!(u8, u8),
        6 => run!(u16, u16),
        7 => run!(u32, u32),
        8 => run!(u64, u64),
        9 => run!(u128, u128),
        10 => run!(f32, F32Key),
        11 => run!(f64, DoubleKey),
        12 => run!(char, char),
        13 => run!(bool, bool),
        14 => run!(String, String),
        15 => run!(ByteBuf, ByteBuf),
        _ => run!(WK, WK),
    }
}
const N_LEAVES: usize = 17;

// ---------------------------------------------------------------------------------------------
// (2) random JSON documents

struct DocGen<'a> {
    r: &'a mut Rng,
    classes: BTreeSet<String>,
}

impl DocGen<'_> {
    fn number(&mut self) -> (J, &'static str) {
        let r = &mut *self.r;
        match r.below(12) {
            0 => (J::Num(r.range(-1000, 1000).to_string()), "int-small"),
            1 | 2 => {
                let v = hostile_i64(r);
                (J::Num(v.to_string()), if v < 0 { "int-neg64" } else { "int-pos63" })
            }
            3 => {
                // above i64::MAX, within u64
                let v = match r.below(3) {
                    0 => u64::MAX,
                    1 => (1u64 << 63) + r.below(3) as u64,
                    _ => (1u64 << 63) | r.u64(),
                };
                (J::Num(v.to_string()), "int-pos64")
            }
            4 => (J::Num("-0".into()), "neg-zero-int"),
            5 => {
                let f = finite(r);
                (J::Num(format!("{:?}", f)), "float-shortest")
            }
            6 => {
                let f = finite(r);
                let mut s = format!("{:e}", f);
                if r.bool() {
                    s = s.replace('e', "E");
                }
                if r.bool() && !s.contains("e-") && !s.contains("E-") {
                    s = s.replace('e', "e+").replace('E', "E+");
                }
                (J::Num(s), "float-exp")
            }
            7 => {
                // integral value written as a float
                let v = r.range(-100000, 100000);
                let zeros = "0".repeat(1 + r.below(3));
                (J::Num(format!("{}.{}", v, zeros)), "float-integral")
            }
            8 => {
                let v = r.range(-100000, 100000) as f64 / 1000.0;
                (J::Num(format!("{:?}0", v)), "float-trailing-zero")
            }
            9 => (J::Num((*r.pick(&["-0.0", "0.0", "0e0", "-0e-5", "0.000"])).to_string()), "float-zero"),
            10 => {
                // 1e-320 ..= 9e307 and 1e308: all within the range of a double
                let e = r.range(-320, 308);
                let m = if e == 308 { 1 } else { 1 + r.below(9) };
                (J::Num(format!("{}e{}", m, e)), "float-pow10")
            }
            _ => {
                let v = r.range(-(1i64 << 53), 1i64 << 53);
                (J::Num(v.to_string()), "int-safe")
            }
        }
    }

    fn string(&mut self) -> (String, &'static str) {
        let s = hostile_string(self.r, 12);
        let c = <String as Leaf>::class(&s);
        (s, c)
    }

    fn value(&mut self, depth: usize, parent: &str) -> J {
        let r = &mut *self.r;
        let leaf = depth == 0 || r.chance(2, 5);
        let (j, class): (J, String) = if leaf {
            match r.below(8) {
                0 => (J::Null, "null".into()),
                1 => (J::Bool(r.bool()), "bool".into()),
                2..=4 => {
                    let (j, c) = self.number();
                    (j, c.into())
                }
                5 | 6 => {
                    let (s, c) = self.string();
                    (J::Str(s), format!("str-{}", c))
                }
                _ => {
                    if r.bool() {
                        (J::Arr(vec![]), "arr-empty".into())
                    } else {
                        (J::Obj(vec![]), "obj-empty".into())
                    }
                }
            }
        } else if r.bool() {
            let n = 1 + r.below(4);
            (J::Arr((0..n).map(|_| self.value(depth - 1, "arr")).collect()), "arr".into())
        } else {
            let n = 1 + self.r.below(4);
            let mut members: Vec<(String, J)> = vec![];
            for _ in 0..n {
                let (k, kc) = self.string();
                if members.iter().any(|(k2, _)| *k2 == k) {
                    continue; // no duplicate member names
                }
                self.classes.insert(format!("key-{}", kc));
                let v = self.value(depth - 1, "obj");
                members.push((k, v));
            }
            (J::Obj(members), "obj".into())
        };
        self.classes.insert(format!("{}>{}", parent, class));
        j
    }
}

fn finite(r: &mut Rng) -> f64 {
    loop {
        let f = hostile_f64(r);
        if f.is_finite() {
            return f;
        }
    }
}

/// Renders with random (legal) whitespace and escape spellings.
fn render_doc(j: &J, r: &mut Rng, out: &mut String) {
    fn ws(r: &mut Rng, out: &mut String) {
        if r.chance(1, 6) {
            out.push(*r.pick(&[' ', '\n', '\t', '\r']));
        }
    }
    fn quote(s: &str, r: &mut Rng, out: &mut String) {
        out.push('"');
        let style = r.below(4); // 0,1: minimal; 2: escape non-ASCII; 3: escape a lot
        for c in s.chars() {
            let cp = c as u32;
            let must = cp < 0x20 || c == '"' || c == '\\';
            let want = must || (style >= 2 && cp >= 0x80) || (style == 3 && r.chance(1, 3));
            if !want {
                out.push(c);
                continue;
            }
            let short = match c {
                '"' => Some("\\\""),
                '\\' => Some("\\\\"),
                '\n' => Some("\\n"),
                '\r' => Some("\\r"),
                '\t' => Some("\\t"),
                '\u{8}' => Some("\\b"),
                '\u{c}' => Some("\\f"),
                '/' => Some("\\/"),
                _ => None,
            };
            match short {
                Some(e) if must && matches!(c, '"' | '\\') => out.push_str(e),
                Some(e) if r.bool() => out.push_str(e),
                _ => {
                    let mut buf = [0u16; 2];
                    let upper = r.bool();
                    for u in c.encode_utf16(&mut buf) {
                        if upper {
                            out.push_str(&format!("\\u{:04X}", u));
                        } else {
                            out.push_str(&format!("\\u{:04x}", u));
                        }
                    }
                }
            }
        }
        out.push('"');
    }
    match j {
        J::Null => out.push_str("null"),
        J::Bool(b) => out.push_str(if *b { "true" } else { "false" }),
        J::Num(n) => out.push_str(n),
        J::Str(s) => quote(s, r, out),
        J::Arr(v) => {
            out.push('[');
            ws(r, out);
            for (i, x) in v.iter().enumerate() {
                if i > 0 {
                    out.push(',');
                    ws(r, out);
                }
                render_doc(x, r, out);
                ws(r, out);
            }
            out.push(']');
        }
        J::Obj(v) => {
            out.push('{');
            ws(r, out);
            for (i, (k, x)) in v.iter().enumerate() {
                if i > 0 {
                    out.push(',');
                    ws(r, out);
                }
                quote(k, r, out);
                ws(r, out);
                out.push(':');
                ws(r, out);
                render_doc(x, r, out);
                ws(r, out);
            }
            out.push('}');
        }
    }
}

fn doc_case(rep: &mut Report, sub: &str, seed: u64, max_depth: usize) {
    let mut rng = Rng::new(seed);
    let depth = rng.below(max_depth + 1);
    let (doc, classes) = {
        let mut g = DocGen { r: &mut rng, classes: BTreeSet::new() };
        let d = g.value(depth, "root");
        (d, g.classes)
    };
    let mut text = String::new();
    if rng.chance(1, 8) {
        text.push(' ');
    }
    render_doc(&doc, &mut rng, &mut text);
    if rng.chance(1, 8) {
        text.push('\n');
    }
    // the generator's own contract: the text is standard JSON for exactly `doc`
    match vcore::json::parse(text.as_bytes()) {
        Ok(p) if p == doc => {}
        other => {
            rep.violation(sub, seed, "harness:doc-generator", json!({"text": trunc(&text), "parsed": trunc(&format!("{:?}", other))}));
            return;
        }
    }
    for c in &classes {
        rep.distinct.insert(fnv(&format!("doc|{}", c)));
        rep.cell(&format!("doc-class/{}", c));
    }
    rep.sample(2, || json!({"sub": sub, "case_seed": seed, "document": trunc(&text)}));
    type Parse = fn(&str) -> Result<Any, String>;
    let routes: [(&str, Parse); 2] = [
        ("client", |s| json::client_from_str::<Any>(s).map_err(|e| e.to_string())),
        ("server", |s| json::server_from_str::<Any>(s).map_err(|e| e.to_string())),
    ];
    for (route, parse) in routes {
        rep.evaluations += 1;
        rep.cell(&format!("doc/{}", route));
        let fail = |rep: &mut Report, what: &str, info: String| {
            rep.violation(
                sub,
                seed,
                format!("any-doc:{}:{}", route, what),
                json!({"document": trunc(&text), "what": what, "info": trunc(&info)}),
            );
        };
        let any = match guarded(|| parse(&text)) {
            Err(p) => {
                fail(rep, "parse-panic", p);
                continue;
            }
            Ok(Err(e)) => {
                fail(rep, "parse-error", e);
                continue;
            }
            Ok(Ok(a)) => a,
        };
        match guarded(|| json::to_string(&any)) {
            Err(p) => fail(rep, "serialize-panic", p),
            Ok(Err(e)) => fail(rep, "serialize-error", e.to_string()),
            Ok(Ok(out)) => match vcore::json::parse(out.as_bytes()) {
                Err(e) => fail(rep, "not-standard-json", format!("{} in {}", e, out)),
                Ok(back) => {
                    if !jequiv(&doc, &back) {
                        fail(rep, "not-equivalent", format!("re-serialized as {}", out));
                    }
                }
            },
        }
    }
}

pub fn run(ctx: &Ctx, report: &mut Report) {
    let depth = if ctx.thorough { 8 } else { 6 };

    ctx.fixed(report, "wide-pinned", |rep| {
        // case_seed = leaf index; in replay mode only that leaf runs
        let only = ctx.replay.as_ref().map(|(_, s)| *s as usize);
        for leaf in 0..N_LEAVES {
            if only.map(|o| o == leaf).unwrap_or(true) {
                leaf_case(rep, "wide-pinned", leaf as u64, leaf, true);
            }
        }
    });

    ctx.cases(report, "wide", ctx.n(12_000, 600_000), |seed, rep| {
        let leaf = Rng::new(seed ^ 0x5eed).below(N_LEAVES);
        leaf_case(rep, "wide", seed, leaf, false);
    });

    ctx.cases(report, "trees", ctx.n(50_000, 2_500_000), |seed, rep| {
        let mut r = Rng::new(seed);
        let d = 1 + r.below(depth);
        let n = gen_node(&mut r, d);
        rep.sample(2, || json!({"sub": "trees", "case_seed": seed, "value": trunc(&n.canon())}));
        check_node(rep, "trees", seed, &n);
    });

    ctx.cases(report, "docs", ctx.n(50_000, 2_500_000), |seed, rep| {
        doc_case(rep, "docs", seed, depth);
    });

    if ctx.replay.is_none() {
        // enumerated: every leaf type x shape, each with the round trip law; the JSON law everywhere
        // but below a tuple key; the coercion law for all leaves but the two 128-bit ones
        let shapes = N_VALUE_LEAVES * N_VALUE_SHAPES + N_KEY_LEAVES * N_KEY_SHAPES;
        let cells = |suffix: &str| {
            report.matrix.keys().filter(|k| k.starts_with("wide/") && k.ends_with(suffix)).count() as u64
        };
        let (rt, je, co) = (cells("/roundtrip"), cells("/json-eq"), cells("/coerce"));
        report.floor("wide-roundtrip-cells", shapes, rt);
        // three key shapes (tuple, optional, unit keys) have no JSON form: only the in-memory round trip is judged there
        report.floor("wide-json-cells", shapes - 3 * N_KEY_LEAVES, je);
        report.floor("wide-coerce-cells", (N_VALUE_LEAVES - 2) * N_VALUE_SHAPES + (N_KEY_LEAVES - 2) * (N_KEY_SHAPES - 3), co);
        report.floor_cells("node-cells", "node/", 3);
        report.floor_cells("doc-routes", "doc/", 2);
        let full = ctx.scale >= 1.0;
        report.floor_cells("doc-classes", "doc-class/", if full { 60 } else { 30 });
        let d = report.distinct.len() as u64;
        report.floor("distinct-classes", if full { 2500 } else { 800 }, d);
    }
    report.notes.push(
        "distinct = node parent>child edges + (shape, leaf type, value class) of wide values + document (parent>class) edges".into(),
    );
    report.notes.push(
        "signatures: any-roundtrip|any-json|any-coerce:<leaf type or node>:<what>, any-doc:<client|server>:<what>".into(),
    );
}

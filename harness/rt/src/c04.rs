//! C04 – a client call reaches the matching server handler with identical arguments, and the
//! client returns exactly what the handler returned (blocking and async, JSON and Smile).
//!
//! Events: `call` (what the monitor handed to the generated / macro client), `handler` (what the
//! recording handler saw, at the server trait boundary), `return` (what the client gave back).
//! The transport in between is `labrt`'s loop-back (random re-chunking, `Pending` between chunks).
use crate::ctx::{guarded, Ctx};
use crate::gen::sink::*;
use crate::hand;
use crate::svc::*;
use conjure_error::Error;
use conjure_http::client::{AsyncService, Service};
use conjure_serde::smile;
use labrt::{block_on, AsyncLoopback, Exchange, Loopback};
use serde::de::DeserializeOwned;
use serde::Serialize;
use serde_json::json;
use std::sync::Arc;
use vcore::rng::fnv;
use vcore::{Report, Rng};

pub fn features(args: &[(&'static str, String)]) -> String {
    let all: String = args.iter().map(|(_, v)| v.as_str()).collect::<Vec<_>>().join("\u{1}");
    let mut f = String::new();
    for (c, pat) in [
        ('%', "%"), ('/', "/"), ('+', "+"), ('&', "&"), ('#', "#"), ('?', "?"), ('=', "="), (' ', " "), ('e', "\"\""), ('n', "null"), ('N', "NaN"), ('[', "[]"),
    ] {
        if all.contains(pat) {
            f.push(c);
        }
    }
    if !all.is_ascii() {
        f.push('U');
    }
    f
}

pub struct Outcome {
    pub result: Result<Result<String, Error>, String>,
    pub calls: Vec<Call>,
    pub exchange: Exchange,
}

/// The oracle over one call's events.
pub fn judge(rep: &mut Report, sub: &str, seed: u64, flavour: &str, endpoint: &'static str, args: &[(&'static str, String)], header_texts: &[&str], expect_handler_error: bool, out: Outcome) {
    let headers_ok = header_texts.iter().all(|s| visible_ascii(s));
    let class = match &out.result {
        Err(_) => "panic",
        Ok(Ok(_)) => "ok",
        Ok(Err(_)) => "err",
    };
    rep.evaluations += 1;
    rep.cell(&format!("{}/{}/{}", flavour, endpoint, class));
    rep.distinct.insert(fnv(&format!("{}|{}|{}|{}|{}", flavour, endpoint, class, features(args), headers_ok)));
    let detail = |what: &str, extra: serde_json::Value| {
        json!({"flavour": flavour, "endpoint": endpoint, "what": what, "supplied": args, "handler_events": out.calls.iter().map(|c| json!({"endpoint": c.endpoint, "args": c.args, "ret": c.ret})).collect::<Vec<_>>(),
               "uri": out.exchange.uri, "status": out.exchange.status, "extra": extra})
    };
    let mut fail = |rep: &mut Report, what: &str, extra: serde_json::Value| {
        rep.violation(sub, seed, format!("{}:{}:{}", flavour.split('/').next().unwrap_or(""), endpoint, what), detail(what, extra));
    };
    // whatever happened, a handler event must carry exactly the supplied arguments
    for c in &out.calls {
        if c.endpoint != endpoint {
            fail(rep, "wrong-handler", json!(c.endpoint));
            return;
        }
        if c.args != args {
            let diff: Vec<_> = c.args.iter().zip(args).filter(|(a, b)| a != b).map(|(a, b)| json!({"handler": a, "supplied": b})).collect();
            fail(rep, "arguments-differ", json!(diff));
            return;
        }
    }
    if out.calls.len() > 1 {
        fail(rep, "handler-invoked-more-than-once", json!(out.calls.len()));
        return;
    }
    match &out.result {
        Err(p) => fail(rep, "panic", json!(p)),
        Ok(Ok(ret)) => {
            if expect_handler_error {
                fail(rep, "handler-error-lost", json!(ret));
            } else if out.calls.len() != 1 {
                fail(rep, "value-returned-without-handler", json!(ret));
            } else if *ret != out.calls[0].ret {
                fail(rep, "return-value-differs", json!({"client": ret, "handler": out.calls[0].ret}));
            }
        }
        Ok(Err(e)) => {
            if expect_handler_error {
                if out.calls.len() != 1 {
                    fail(rep, "handler-not-invoked", json!(labrt::error_class(e)));
                }
            } else if !headers_ok {
                // a header value HTTP cannot carry as text: refusal is fine, but then nothing may
                // have been delivered
                rep.cell(&format!("{}/refused-unrepresentable-header", flavour));
                if !out.calls.is_empty() {
                    fail(rep, "error-after-delivery", json!(labrt::error_class(e)));
                }
            } else {
                fail(rep, "call-failed", json!({"class": labrt::error_class(e), "cause": e.cause().to_string(), "handler_error": out.exchange.handler_error}));
            }
        }
    }
}

fn smile_value<T: DeserializeOwned + Serialize>(body: &[u8]) -> Result<String, String> {
    smile::client_from_slice::<T>(body).map(|v| j(&v)).map_err(|e| e.to_string())
}

/// Decodes a Smile response body by the endpoint's return type and renders it like `Call::ret`.
fn smile_decode(req: &Req, body: &[u8]) -> Option<Result<String, String>> {
    use std::collections::{BTreeMap, BTreeSet};
    Some(match req {
        Req::PathMore { .. } | Req::SmallBody(_) | Req::HeaderAuth { .. } | Req::SafeMix(_) => smile_value::<String>(body),
        Req::QueryParams { .. } => smile_value::<Vec<String>>(body),
        Req::Headers { .. } => smile_value::<BTreeMap<String, String>>(body),
        Req::JsonBody(_) => smile_value::<Payload>(body),
        Req::OptBody(_) => smile_value::<Option<Item>>(body),
        Req::ListBody(_) => smile_value::<BTreeSet<conjure_object::DoubleKey>>(body),
        Req::ChoiceBody(_) => smile_value::<Choice>(body),
        Req::MapReturn(_) => smile_value::<BTreeMap<String, f64>>(body),
        Req::OptReturn(_) => smile_value::<Option<String>>(body),
        Req::AliasOptReturn(_) => smile_value::<MaybeCount>(body),
        Req::CookieAuth { .. } => smile_value::<i32>(body),
        _ => return None,
    })
}

fn sink_case(seed: u64, rep: &mut Report, flavour: &'static str) {
    let mut r = Rng::new(seed);
    let req = Req::gen(&mut r);
    let rec = Arc::new(Recorder::default());
    let handler = Handler { rec: rec.clone() };
    let smile = flavour.ends_with("smile");
    rep.sample(4, || json!({"sub": flavour, "case_seed": seed, "endpoint": req.endpoint(), "args": req.args()}));
    let (result, exchange) = if flavour.starts_with("blocking") {
        let lb = Loopback::new(sync_endpoints(handler), r.u64());
        if smile {
            *lb.override_accept.lock().unwrap() = Some(http::HeaderValue::from_static("application/x-jackson-smile"));
        }
        let client = SinkServiceClient::new(&lb);
        let res = guarded(|| invoke_sync(&client, &req));
        (res, lb.last())
    } else {
        let lb = AsyncLoopback::new(async_endpoints(handler), r.u64());
        if smile {
            *lb.override_accept.lock().unwrap() = Some(http::HeaderValue::from_static("application/x-jackson-smile"));
        }
        let client = SinkServiceAsyncClient::new(&lb);
        let res = guarded(|| block_on(invoke_async(&client, &req)));
        (res, lb.last())
    };
    let calls = rec.take();
    if !smile {
        let texts = req.header_texts();
        judge(rep, flavour, seed, flavour, req.endpoint(), &req.args(), &texts, matches!(req, Req::Fails(_)), Outcome { result, calls, exchange });
        return;
    }
    // Smile negotiation: the generated client asks for JSON, so the monitor plays the client for
    // the response half: the transport forced `Accept: application/x-jackson-smile`.
    let Some(body) = exchange.response_body.clone() else {
        rep.cell(&format!("{}/no-body", flavour));
        return;
    };
    let ct = exchange.response_headers.iter().find(|(k, _)| k == "content-type").map(|(_, v)| String::from_utf8_lossy(v).to_string());
    let Some(decoded) = smile_decode(&req, &body) else {
        rep.cell(&format!("{}/not-serializable-return", flavour));
        return;
    };
    rep.evaluations += 1;
    rep.cell(&format!("{}/{}", flavour, req.endpoint()));
    rep.distinct.insert(fnv(&format!("{}|{}|{}", flavour, req.endpoint(), features(&req.args()))));
    let detail = json!({"flavour": flavour, "endpoint": req.endpoint(), "supplied": req.args(), "content_type": ct, "status": exchange.status});
    if calls.len() != 1 || calls[0].args != req.args() {
        rep.violation(flavour, seed, format!("{}:{}:handler-events", flavour, req.endpoint()), detail);
        return;
    }
    if ct.as_deref() != Some("application/x-jackson-smile") {
        rep.violation(flavour, seed, format!("{}:{}:not-negotiated-to-smile", flavour, req.endpoint()), detail);
        return;
    }
    match decoded {
        Ok(v) if v == calls[0].ret => {}
        Ok(v) => rep.violation(flavour, seed, format!("{}:{}:return-value-differs", flavour, req.endpoint()), json!({"case": detail, "client": v, "handler": calls[0].ret})),
        Err(e) => rep.violation(flavour, seed, format!("{}:{}:smile-body-undecodable", flavour, req.endpoint()), json!({"case": detail, "error": e})),
    }
}

fn hand_case(seed: u64, rep: &mut Report, flavour: &'static str) {
    let mut r = Rng::new(seed);
    let req = hand::HReq::gen(&mut r);
    let rec = Arc::new(Recorder::default());
    let handler = hand::HandHandler { rec: rec.clone() };
    rep.sample(6, || json!({"sub": flavour, "case_seed": seed, "endpoint": req.endpoint(), "args": req.args()}));
    let (result, exchange) = if flavour.starts_with("blocking") {
        let lb = Loopback::new(hand::sync_endpoints(handler), r.u64());
        let client = hand::HandApiClient::new(&lb);
        let res = guarded(|| hand::invoke_sync(&client, &req));
        (res, lb.last())
    } else {
        let lb = AsyncLoopback::new(hand::async_endpoints(handler), r.u64());
        let client = hand::AsyncHandApiClient::new(&lb);
        let res = guarded(|| block_on(hand::invoke_async(&client, &req)));
        (res, lb.last())
    };
    let calls = rec.take();
    if req.observed_only() {
        rep.observed_only("multi-segment-path-parameter");
        return;
    }
    let texts = req.header_texts();
    judge(rep, flavour, seed, flavour, req.endpoint(), &req.args(), &texts, false, Outcome { result, calls, exchange });
}

pub fn run(ctx: &Ctx, report: &mut Report) {
    let n = ctx.n(12_000, 600_000);
    ctx.cases(report, "blocking/generated", n, |s, rep| sink_case(s, rep, "blocking/generated"));
    ctx.cases(report, "async/generated", n, |s, rep| sink_case(s, rep, "async/generated"));
    ctx.cases(report, "blocking/generated/smile", n / 3, |s, rep| sink_case(s, rep, "blocking/generated/smile"));
    ctx.cases(report, "async/generated/smile", n / 3, |s, rep| sink_case(s, rep, "async/generated/smile"));
    ctx.cases(report, "blocking/macro", n / 2, |s, rep| hand_case(s, rep, "blocking/macro"));
    ctx.cases(report, "async/macro", n / 2, |s, rep| hand_case(s, rep, "async/macro"));
    if ctx.replay.is_none() && ctx.scale >= 1.0 {
        // every generated endpoint reached with an ok outcome in both flavours
        let ok_b = report.matrix.keys().filter(|k| k.starts_with("blocking/generated/") && k.ends_with("/ok")).count() as u64;
        let ok_a = report.matrix.keys().filter(|k| k.starts_with("async/generated/") && k.ends_with("/ok")).count() as u64;
        report.floor("blocking-endpoints-ok", 21, ok_b);
        report.floor("async-endpoints-ok", 21, ok_a);
        let m = report.matrix.keys().filter(|k| k.contains("/macro/") && k.ends_with("/ok")).count() as u64;
        report.floor("macro-endpoints-ok", 2 * hand::ENDPOINTS as u64, m);
    }
    report.notes.push("distinct = (flavour, endpoint, outcome class, argument feature set (reserved characters, non-ASCII, empty, null, NaN, empty collection), header representability)".into());
}

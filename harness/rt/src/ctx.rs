//! Run context, case scheduling over threads, panic capture.
use std::cell::RefCell;
use std::panic::{catch_unwind, AssertUnwindSafe};
use vcore::rng::case_seed;
use vcore::Report;

pub struct Ctx {
    pub prop: String,
    pub thorough: bool,
    pub seed: u64,
    pub threads: usize,
    /// Multiplies every case budget (used by the mutant trials and by Miri runs).
    pub scale: f64,
    /// (sub-monitor, case seed) to re-execute alone.
    pub replay: Option<(String, u64)>,
}

impl Ctx {
    pub fn default_for(prop: &str) -> Ctx {
        Ctx {
            prop: prop.to_string(),
            thorough: false,
            seed: 1,
            threads: std::thread::available_parallelism().map(|n| n.get()).unwrap_or(4),
            scale: 1.0,
            replay: None,
        }
    }

    /// Budget helper: quick / thorough case counts, scaled.
    pub fn n(&self, quick: u64, thorough: u64) -> u64 {
        let b = if self.thorough { thorough } else { quick };
        ((b as f64 * self.scale) as u64).max(1)
    }

    /// Runs `n` generated cases of sub-monitor `sub` over all threads. Each case gets its own
    /// seed derived from (run seed, sub, index), so a witness replays from that seed alone.
    /// In replay mode only the recorded case of the recorded sub-monitor runs.
    pub fn cases<F>(&self, report: &mut Report, sub: &str, n: u64, f: F)
    where
        F: Fn(u64, &mut Report) + Sync,
    {
        if let Some((rsub, rseed)) = &self.replay {
            if rsub == sub {
                f(*rseed, report);
            }
            return;
        }
        let threads = self.threads.max(1).min(n.max(1) as usize);
        let property = report.property.clone();
        let parts: Vec<Report> = std::thread::scope(|s| {
            let handles: Vec<_> = (0..threads)
                .map(|t| {
                    let f = &f;
                    let property = property.clone();
                    s.spawn(move || {
                        let mut r = Report::new(&property);
                        let mut i = t as u64;
                        while i < n {
                            f(case_seed(self.seed, sub, i), &mut r);
                            i += threads as u64;
                        }
                        r
                    })
                })
                .collect();
            handles.into_iter().map(|h| h.join().expect("monitor thread")).collect()
        });
        for p in parts {
            report.merge(p);
        }
    }

    /// Runs a fixed (enumerated / pinned) piece of the workload once; skipped in replay mode
    /// unless it is the replayed sub-monitor.
    pub fn fixed<F>(&self, report: &mut Report, sub: &str, f: F)
    where
        F: FnOnce(&mut Report),
    {
        if let Some((rsub, _)) = &self.replay {
            if rsub != sub {
                return;
            }
        }
        f(report);
    }
}

thread_local! {
    static LAST_PANIC: RefCell<Option<String>> = const { RefCell::new(None) };
}

pub fn install_panic_hook() {
    std::panic::set_hook(Box::new(|info| {
        let loc = info
            .location()
            .map(|l| format!("{}:{}", l.file(), l.line()))
            .unwrap_or_default();
        let msg = if let Some(s) = info.payload().downcast_ref::<&str>() {
            s.to_string()
        } else if let Some(s) = info.payload().downcast_ref::<String>() {
            s.clone()
        } else {
            "<non-string payload>".to_string()
        };
        LAST_PANIC.with(|p| *p.borrow_mut() = Some(format!("{} @ {}", msg, loc)));
    }));
}

/// Calls `f`, turning a panic into `Err(message @ file:line)`.
pub fn guarded<T>(f: impl FnOnce() -> T) -> Result<T, String> {
    match catch_unwind(AssertUnwindSafe(f)) {
        Ok(v) => Ok(v),
        Err(_) => Err(LAST_PANIC
            .with(|p| p.borrow_mut().take())
            .unwrap_or_else(|| "panic".to_string())),
    }
}

//! C14 (bed A) – lawful total order, equality and hash for everything that compares doubles:
//! `DoubleKey`, every `conjure_object::private::DoubleOps` impl (f64, Option, Vec, BTreeMap and
//! nestings), and hand-written mimics of what conjure-codegen emits for objects and unions that
//! contain doubles (`#[derive(Educe)]` with `DoubleOps::{eq,cmp,hash}` as field methods – the very
//! derive macro and attributes the generator uses).
//!
//! One case = one seed = one pool of `POOL` colliding values per type; all pairs and all triples
//! of every pool are checked against the algebraic laws. Only law-consistency is judged (whether
//! +0 and -0 are equal is not fixed by the property; that eq, cmp and hash agree on it is).
use crate::ctx::{guarded, Ctx};
use conjure_object::private::{DoubleOps, Educe};
use conjure_object::DoubleKey;
use serde_json::json;
use std::cmp::Ordering;
use std::collections::hash_map::DefaultHasher;
use std::collections::{BTreeMap, BTreeSet, HashMap, HashSet};
use std::fmt::Debug;
use std::hash::{BuildHasherDefault, Hash, Hasher};
use vcore::rng::fnv;
use vcore::text::hostile_f64;
use vcore::{Report, Rng};

const POOL: usize = 36;

// ---------------------------------------------------------------------------------------------
// Value generation: `gen` draws from collision-prone pools, `mutate` derives a neighbour
// (prefix / subset / other NaN payload / other zero sign) of an existing value.

trait Val: Clone + Debug {
    fn gen(r: &mut Rng) -> Self;
    fn mutate(&self, r: &mut Rng) -> Self;
    /// Exact dump (doubles as bit patterns): two values are *identical* iff their dumps agree.
    fn dump(&self, out: &mut String);
    /// Top-level shape (absent / present, length bucket, variant).
    fn top(&self) -> String;
    /// Which special doubles occur anywhere inside: 1 NaN, 2 zero, 4 infinity, 8 subnormal.
    fn flags(&self) -> u8;
    /// Structural class for the distinct-case count.
    fn class(&self) -> String {
        format!("{}/{:x}", self.top(), self.flags())
    }
}

const DOUBLES: &[u64] = &[
    0x7ff8_0000_0000_0000, // NaN
    0x7ff8_0000_0000_0001, // NaN, other payload
    0xfff8_0000_0000_0000, // -NaN
    0x7ff0_0000_0000_0001, // signalling NaN
    0xffff_ffff_ffff_ffff, // -NaN, full payload
    0x0000_0000_0000_0000, // +0
    0x8000_0000_0000_0000, // -0
    0x3ff0_0000_0000_0000, // 1
    0xbff0_0000_0000_0000, // -1
    0x7ff0_0000_0000_0000, // +inf
    0xfff0_0000_0000_0000, // -inf
    0x3ff8_0000_0000_0000, // 1.5
    0x0010_0000_0000_0000, // MIN_POSITIVE
    0x0000_0000_0000_0001, // 5e-324
    0x8000_0000_0000_0001, // -5e-324
    0x7fef_ffff_ffff_ffff, // MAX
    0xffef_ffff_ffff_ffff, // MIN
];

fn f64_class(v: f64) -> &'static str {
    if v.is_nan() {
        let canonical = v.to_bits() & 0x000f_ffff_ffff_ffff == 0x0008_0000_0000_0000;
        match (v.is_sign_negative(), canonical) {
            (false, true) => "nan",
            (false, false) => "nan'",
            (true, true) => "-nan",
            (true, false) => "-nan'",
        }
    } else if v == f64::INFINITY {
        "+inf"
    } else if v == f64::NEG_INFINITY {
        "-inf"
    } else if v == 0.0 {
        if v.is_sign_negative() {
            "-0"
        } else {
            "+0"
        }
    } else if v.is_subnormal() {
        if v < 0.0 {
            "-sub"
        } else {
            "+sub"
        }
    } else if v < 0.0 {
        "neg"
    } else {
        "pos"
    }
}

impl Val for f64 {
    fn gen(r: &mut Rng) -> Self {
        if r.chance(4, 5) {
            f64::from_bits(*r.pick(DOUBLES))
        } else {
            hostile_f64(r)
        }
    }
    fn mutate(&self, r: &mut Rng) -> Self {
        let b = self.to_bits();
        match r.below(4) {
            // other sign: -0 for +0, -NaN for NaN, -x for x
            0 => f64::from_bits(b ^ (1 << 63)),
            // neighbour (NaN: another payload; inf: a NaN or MAX)
            1 => f64::from_bits(b.wrapping_add(1)),
            2 => f64::from_bits(b.wrapping_sub(1)),
            _ => {
                if self.is_nan() {
                    f64::from_bits(b ^ (r.u64() & 0x0007_ffff_ffff_ffff))
                } else {
                    f64::gen(r)
                }
            }
        }
    }
    fn dump(&self, out: &mut String) {
        out.push_str(&format!("{:016x}", self.to_bits()));
    }
    fn top(&self) -> String {
        f64_class(*self).to_string()
    }
    fn flags(&self) -> u8 {
        (self.is_nan() as u8) | ((*self == 0.0) as u8) << 1 | (self.is_infinite() as u8) << 2 | (self.is_subnormal() as u8) << 3
    }
}

impl Val for DoubleKey {
    fn gen(r: &mut Rng) -> Self {
        DoubleKey(f64::gen(r))
    }
    fn mutate(&self, r: &mut Rng) -> Self {
        DoubleKey(self.0.mutate(r))
    }
    fn dump(&self, out: &mut String) {
        self.0.dump(out)
    }
    fn top(&self) -> String {
        self.0.top()
    }
    fn flags(&self) -> u8 {
        self.0.flags()
    }
}

impl Val for String {
    fn gen(r: &mut Rng) -> Self {
        (*r.pick(&["", "a", "ab", "b", "NaN", "é"])).to_string()
    }
    fn mutate(&self, r: &mut Rng) -> Self {
        if r.bool() {
            format!("{}a", self)
        } else {
            String::gen(r)
        }
    }
    fn dump(&self, out: &mut String) {
        out.push_str(&format!("{:?}", self));
    }
    fn top(&self) -> String {
        "s".into()
    }
    fn flags(&self) -> u8 {
        0
    }
}

impl Val for i32 {
    fn gen(r: &mut Rng) -> Self {
        *r.pick(&[0, 1, -1, 2, i32::MIN, i32::MAX])
    }
    fn mutate(&self, r: &mut Rng) -> Self {
        if r.bool() {
            self.wrapping_add(1)
        } else {
            i32::gen(r)
        }
    }
    fn dump(&self, out: &mut String) {
        out.push_str(&self.to_string());
    }
    fn top(&self) -> String {
        "i".into()
    }
    fn flags(&self) -> u8 {
        0
    }
}

impl<T: Val> Val for Option<T> {
    fn gen(r: &mut Rng) -> Self {
        if r.chance(1, 4) {
            None
        } else {
            Some(T::gen(r))
        }
    }
    fn mutate(&self, r: &mut Rng) -> Self {
        match self {
            None => Some(T::gen(r)),
            Some(_) if r.chance(1, 4) => None,
            Some(v) => Some(v.mutate(r)),
        }
    }
    fn dump(&self, out: &mut String) {
        match self {
            None => out.push_str("None"),
            Some(v) => {
                out.push_str("Some(");
                v.dump(out);
                out.push(')');
            }
        }
    }
    fn top(&self) -> String {
        match self {
            None => "None".into(),
            Some(_) => "Some".into(),
        }
    }
    fn flags(&self) -> u8 {
        self.as_ref().map(|v| v.flags()).unwrap_or(0)
    }
}

impl<T: Val> Val for Vec<T> {
    fn gen(r: &mut Rng) -> Self {
        (0..r.below(4)).map(|_| T::gen(r)).collect()
    }
    fn mutate(&self, r: &mut Rng) -> Self {
        let mut v = self.clone();
        match r.below(4) {
            // extension: the original is a strict prefix
            0 => v.push(T::gen(r)),
            // strict prefix of the original
            1 => {
                v.pop();
            }
            2 if !v.is_empty() => {
                let i = r.below(v.len());
                v[i] = v[i].mutate(r);
            }
            _ => {
                if !v.is_empty() {
                    let i = r.below(v.len());
                    v.remove(i);
                } else {
                    v.push(T::gen(r));
                }
            }
        }
        v
    }
    fn dump(&self, out: &mut String) {
        out.push('[');
        for v in self {
            v.dump(out);
            out.push(',');
        }
        out.push(']');
    }
    fn top(&self) -> String {
        format!("[{}]", self.len().min(3))
    }
    fn flags(&self) -> u8 {
        self.iter().fold(0, |f, v| f | v.flags())
    }
}

impl<K: Val + Ord, V: Val> Val for BTreeMap<K, V> {
    fn gen(r: &mut Rng) -> Self {
        (0..r.below(4)).map(|_| (K::gen(r), V::gen(r))).collect()
    }
    fn mutate(&self, r: &mut Rng) -> Self {
        let mut m = self.clone();
        let keys: Vec<K> = m.keys().cloned().collect();
        match r.below(4) {
            // superset
            0 => {
                m.insert(K::gen(r), V::gen(r));
            }
            // subset
            1 if !keys.is_empty() => {
                m.remove(r.pick(&keys));
            }
            // same keys, one value changed
            2 if !keys.is_empty() => {
                let k = r.pick(&keys).clone();
                let v = m[&k].mutate(r);
                m.insert(k, v);
            }
            // one key replaced by a neighbour, value kept
            _ => {
                if let Some(k) = keys.first() {
                    let v = m.remove(k).unwrap();
                    m.insert(k.mutate(r), v);
                } else {
                    m.insert(K::gen(r), V::gen(r));
                }
            }
        }
        m
    }
    fn dump(&self, out: &mut String) {
        out.push('{');
        for (k, v) in self {
            k.dump(out);
            out.push_str("=>");
            v.dump(out);
            out.push(',');
        }
        out.push('}');
    }
    fn top(&self) -> String {
        format!("{{{}}}", self.len().min(3))
    }
    fn flags(&self) -> u8 {
        self.iter().fold(0, |f, (k, v)| f | k.flags() | v.flags())
    }
}

// ---------------------------------------------------------------------------------------------
// The types under test. `dbl!` declares what conjure-codegen declares for a one-field object whose
// field "is double": the Educe derive with DoubleOps methods on the field.

macro_rules! dbl {
    ($name:ident, $t:ty) => {
        #[derive(Debug, Clone, Educe)]
        #[educe(PartialEq, Eq, PartialOrd, Ord, Hash)]
        struct $name(
            #[educe(
                PartialEq(method(conjure_object::private::DoubleOps::eq)),
                Ord(method(conjure_object::private::DoubleOps::cmp)),
                Hash(method(conjure_object::private::DoubleOps::hash))
            )]
            $t,
        );
        impl Val for $name {
            fn gen(r: &mut Rng) -> Self {
                $name(<$t as Val>::gen(r))
            }
            fn mutate(&self, r: &mut Rng) -> Self {
                $name(self.0.mutate(r))
            }
            fn dump(&self, out: &mut String) {
                self.0.dump(out)
            }
            fn top(&self) -> String {
                self.0.top()
            }
            fn flags(&self) -> u8 {
                self.0.flags()
            }
        }
        impl ViaOps for $name {
            type Inner = $t;
            fn inner(&self) -> &$t {
                &self.0
            }
        }
    };
}

/// Access to the wrapped value so that the trait functions can also be called directly.
trait ViaOps {
    type Inner: DoubleOps;
    fn inner(&self) -> &Self::Inner;
}

dbl!(TF64, f64);
dbl!(TOpt, Option<f64>);
dbl!(TList, Vec<f64>);
dbl!(TMap, BTreeMap<String, f64>);
dbl!(TOptList, Option<Vec<f64>>);
dbl!(TListOpt, Vec<Option<f64>>);
dbl!(TMapList, BTreeMap<String, Vec<f64>>);
dbl!(TKeyMap, BTreeMap<DoubleKey, f64>);
dbl!(TListList, Vec<Vec<f64>>);
dbl!(TOptOpt, Option<Option<f64>>);
dbl!(TIntMapOpt, BTreeMap<i32, Option<f64>>);
dbl!(TKeyMapMap, BTreeMap<DoubleKey, BTreeMap<String, f64>>);
dbl!(TListMap, Vec<BTreeMap<String, f64>>);
dbl!(TDeep, Option<BTreeMap<DoubleKey, Vec<Option<f64>>>>);

/// Mimic of a generated object with double and non-double fields (objects.rs: the educe field
/// attribute is attached exactly to the fields for which `is_double` holds).
#[derive(Debug, Clone, Educe)]
#[educe(PartialEq, Eq, PartialOrd, Ord, Hash)]
struct Obj {
    name: String,
    #[educe(
        PartialEq(method(conjure_object::private::DoubleOps::eq)),
        Ord(method(conjure_object::private::DoubleOps::cmp)),
        Hash(method(conjure_object::private::DoubleOps::hash))
    )]
    value: f64,
    #[educe(
        PartialEq(method(conjure_object::private::DoubleOps::eq)),
        Ord(method(conjure_object::private::DoubleOps::cmp)),
        Hash(method(conjure_object::private::DoubleOps::hash))
    )]
    opt: Option<f64>,
    keys: BTreeSet<DoubleKey>,
    #[educe(
        PartialEq(method(conjure_object::private::DoubleOps::eq)),
        Ord(method(conjure_object::private::DoubleOps::cmp)),
        Hash(method(conjure_object::private::DoubleOps::hash))
    )]
    list: Vec<f64>,
    count: i32,
}

impl Val for Obj {
    fn gen(r: &mut Rng) -> Self {
        Obj {
            name: String::gen(r),
            value: f64::gen(r),
            opt: Option::<f64>::gen(r),
            keys: (0..r.below(3)).map(|_| DoubleKey::gen(r)).collect(),
            list: Vec::<f64>::gen(r),
            count: i32::gen(r),
        }
    }
    fn mutate(&self, r: &mut Rng) -> Self {
        let mut o = self.clone();
        match r.below(6) {
            0 => o.name = o.name.mutate(r),
            1 => o.value = o.value.mutate(r),
            2 => o.opt = o.opt.mutate(r),
            3 => {
                o.keys.insert(DoubleKey::gen(r));
            }
            4 => o.list = o.list.mutate(r),
            _ => o.count = o.count.mutate(r),
        }
        o
    }
    fn dump(&self, out: &mut String) {
        self.name.dump(out);
        out.push(';');
        self.value.dump(out);
        out.push(';');
        self.opt.dump(out);
        out.push(';');
        for k in &self.keys {
            k.dump(out);
            out.push(',');
        }
        out.push(';');
        self.list.dump(out);
        out.push(';');
        self.count.dump(out);
    }
    fn top(&self) -> String {
        format!("obj({},{})", self.opt.top(), self.list.top())
    }
    fn flags(&self) -> u8 {
        self.value.flags() | self.opt.flags() | self.list.flags() | self.keys.iter().fold(0, |f, k| f | k.flags())
    }
}

/// Mimic of a generated union with double and non-double variants (unions.rs).
#[derive(Debug, Clone, Educe)]
#[educe(PartialEq, Eq, PartialOrd, Ord, Hash)]
enum Uni {
    Num(
        #[educe(
            PartialEq(method(conjure_object::private::DoubleOps::eq)),
            Ord(method(conjure_object::private::DoubleOps::cmp)),
            Hash(method(conjure_object::private::DoubleOps::hash))
        )]
        f64,
    ),
    Nums(
        #[educe(
            PartialEq(method(conjure_object::private::DoubleOps::eq)),
            Ord(method(conjure_object::private::DoubleOps::cmp)),
            Hash(method(conjure_object::private::DoubleOps::hash))
        )]
        Vec<f64>,
    ),
    Maybe(
        #[educe(
            PartialEq(method(conjure_object::private::DoubleOps::eq)),
            Ord(method(conjure_object::private::DoubleOps::cmp)),
            Hash(method(conjure_object::private::DoubleOps::hash))
        )]
        Option<f64>,
    ),
    Text(String),
    Keyed(BTreeMap<DoubleKey, String>),
    Boxed(Box<Obj>),
}

impl Val for Uni {
    fn gen(r: &mut Rng) -> Self {
        match r.below(8) {
            0 | 1 | 2 => Uni::Num(f64::gen(r)),
            3 => Uni::Nums(Vec::<f64>::gen(r)),
            4 => Uni::Maybe(Option::<f64>::gen(r)),
            5 => Uni::Text(String::gen(r)),
            6 => Uni::Keyed(BTreeMap::<DoubleKey, String>::gen(r)),
            _ => Uni::Boxed(Box::new(Obj::gen(r))),
        }
    }
    fn mutate(&self, r: &mut Rng) -> Self {
        match self {
            Uni::Num(v) => Uni::Num(v.mutate(r)),
            Uni::Nums(v) => Uni::Nums(v.mutate(r)),
            Uni::Maybe(v) => Uni::Maybe(v.mutate(r)),
            Uni::Text(v) => Uni::Text(v.mutate(r)),
            Uni::Keyed(v) => Uni::Keyed(v.mutate(r)),
            Uni::Boxed(v) => Uni::Boxed(Box::new(v.mutate(r))),
        }
    }
    fn dump(&self, out: &mut String) {
        match self {
            Uni::Num(v) => {
                out.push_str("Num:");
                v.dump(out)
            }
            Uni::Nums(v) => {
                out.push_str("Nums:");
                v.dump(out)
            }
            Uni::Maybe(v) => {
                out.push_str("Maybe:");
                v.dump(out)
            }
            Uni::Text(v) => {
                out.push_str("Text:");
                v.dump(out)
            }
            Uni::Keyed(v) => {
                out.push_str("Keyed:");
                v.dump(out)
            }
            Uni::Boxed(v) => {
                out.push_str("Boxed:");
                v.dump(out)
            }
        }
    }
    fn top(&self) -> String {
        match self {
            Uni::Num(_) => "Num".into(),
            Uni::Nums(v) => format!("Nums{}", v.top()),
            Uni::Maybe(v) => format!("Maybe({})", v.top()),
            Uni::Text(_) => "Text".into(),
            Uni::Keyed(v) => format!("Keyed{}", v.top()),
            Uni::Boxed(_) => "Boxed".into(),
        }
    }
    fn flags(&self) -> u8 {
        match self {
            Uni::Num(v) => v.flags(),
            Uni::Nums(v) => v.flags(),
            Uni::Maybe(v) => v.flags(),
            Uni::Text(_) => 0,
            Uni::Keyed(v) => v.keys().fold(0, |f, k| f | k.flags()),
            Uni::Boxed(v) => v.flags(),
        }
    }
}

// ---------------------------------------------------------------------------------------------

fn pool<T: Val>(r: &mut Rng) -> Vec<T> {
    let mut p: Vec<T> = Vec::with_capacity(POOL);
    while p.len() < POOL {
        let v = if p.is_empty() || r.chance(2, 5) {
            T::gen(r)
        } else {
            let base = p[r.below(p.len())].clone();
            match r.below(5) {
                0 => base, // an identical twin
                1 => base.mutate(r).mutate(r),
                _ => base.mutate(r),
            }
        };
        p.push(v);
    }
    p
}

fn hash_of<T: Hash>(v: &T) -> u64 {
    let mut h = DefaultHasher::new();
    v.hash(&mut h);
    h.finish()
}

fn dump<T: Val>(v: &T) -> String {
    let mut s = String::new();
    v.dump(&mut s);
    s
}

type FixedState = BuildHasherDefault<DefaultHasher>;

struct Laws<'a> {
    rep: &'a mut Report,
    sub: &'a str,
    seed: u64,
    ty: &'a str,
}

impl Laws<'_> {
    fn fail(&mut self, law: &str, values: Vec<String>, info: String) {
        self.rep.violation(
            self.sub,
            self.seed,
            format!("{}:{}", self.ty, law),
            json!({"type": self.ty, "law": law, "values (doubles as bit patterns)": values, "info": info}),
        );
    }
}

/// All laws over one pool. `as_f64` is given for the two types that *are* a double.
/// The pool checks under panic capture: the standard library's sorts and ordered collections may panic when the
/// order they are given is not total ("user-provided comparison function does not correctly implement a total order").
fn check_pool<T>(rep: &mut Report, sub: &str, seed: u64, ty: &str, p: &[T], as_f64: Option<fn(&T) -> f64>)
where
    T: Val + Ord + Hash,
{
    if let Err(panic) = guarded(|| check_pool_inner(&mut *rep, sub, seed, ty, p, as_f64)) {
        rep.violation(sub, seed, format!("{}:ordered-collection-panics", ty), json!({"type": ty, "panic": panic}));
    }
}

fn check_pool_inner<T>(rep: &mut Report, sub: &str, seed: u64, ty: &str, p: &[T], as_f64: Option<fn(&T) -> f64>)
where
    T: Val + Ord + Hash,
{
    let n = p.len();
    let mut l = Laws { rep, sub, seed, ty };
    l.rep.cell(&format!("type/{}", ty));

    // every comparison of the code under test is made exactly once, under panic capture
    let tables = guarded(|| {
        let mut cmp = vec![Ordering::Equal; n * n];
        let mut eq = vec![false; n * n];
        let mut extra_ok = vec![0u8; n * n];
        for i in 0..n {
            for j in 0..n {
                let (a, b) = (&p[i], &p[j]);
                cmp[i * n + j] = a.cmp(b);
                eq[i * n + j] = a == b;
                let mut bad = 0u8;
                if (a != b) == (a == b) {
                    bad |= 1;
                }
                if a.partial_cmp(b) != Some(a.cmp(b)) {
                    bad |= 2;
                }
                let c = a.cmp(b);
                if (a < b) != (c == Ordering::Less)
                    || (a <= b) != (c != Ordering::Greater)
                    || (a > b) != (c == Ordering::Greater)
                    || (a >= b) != (c != Ordering::Less)
                {
                    bad |= 4;
                }
                extra_ok[i * n + j] = bad;
            }
        }
        let hashes: Vec<u64> = p.iter().map(hash_of).collect();
        (cmp, eq, extra_ok, hashes)
    });
    let (cmp, eq, extra, hashes) = match tables {
        Ok(t) => t,
        Err(e) => return l.fail("panic", vec![], e),
    };
    let dumps: Vec<String> = p.iter().map(dump).collect();
    let classes: Vec<String> = p.iter().map(|v| v.class()).collect();
    let at = |i: usize, j: usize| i * n + j;

    // ---- unary and binary laws
    for i in 0..n {
        l.rep.evaluations += 2;
        if !eq[at(i, i)] {
            l.fail("eq-not-reflexive", vec![dumps[i].clone()], String::new());
        }
        if cmp[at(i, i)] != Ordering::Equal {
            l.fail("cmp-self-not-equal", vec![dumps[i].clone()], format!("{:?}", cmp[at(i, i)]));
        }
        for j in 0..n {
            l.rep.evaluations += 6;
            let pair = || vec![dumps[i].clone(), dumps[j].clone()];
            if eq[at(i, j)] != eq[at(j, i)] {
                l.fail("eq-not-symmetric", pair(), String::new());
            }
            if (cmp[at(i, j)] == Ordering::Equal) != eq[at(i, j)] {
                l.fail("cmp-equal-iff-eq", pair(), format!("cmp {:?}, eq {}", cmp[at(i, j)], eq[at(i, j)]));
            }
            if cmp[at(i, j)] != cmp[at(j, i)].reverse() {
                l.fail("cmp-not-antisymmetric", pair(), format!("{:?} vs {:?}", cmp[at(i, j)], cmp[at(j, i)]));
            }
            if eq[at(i, j)] && hashes[i] != hashes[j] {
                l.fail("eq-but-hash-differs", pair(), String::new());
            }
            if extra[at(i, j)] & 1 != 0 {
                l.fail("ne-not-negation-of-eq", pair(), String::new());
            }
            if extra[at(i, j)] & 2 != 0 {
                l.fail("partial-cmp-not-some-cmp", pair(), String::new());
            }
            if extra[at(i, j)] & 4 != 0 {
                l.fail("operators-disagree-with-cmp", pair(), String::new());
            }
            if let Some(f) = as_f64 {
                l.rep.evaluations += 1;
                let (a, b) = (f(&p[i]), f(&p[j]));
                if a.is_nan() {
                    // NaN is greatest (>= everything, +inf included) and all NaNs are equal
                    if cmp[at(i, j)] == Ordering::Less {
                        l.fail("nan-not-greatest", pair(), format!("cmp {:?}", cmp[at(i, j)]));
                    }
                    if b.is_nan() && (!eq[at(i, j)] || cmp[at(i, j)] != Ordering::Equal) {
                        l.fail("nan-not-equal-to-nan", pair(), format!("eq {}, cmp {:?}", eq[at(i, j)], cmp[at(i, j)]));
                    }
                } else if !b.is_nan() && a != b && a.partial_cmp(&b) != Some(cmp[at(i, j)]) {
                    // that ordinary doubles order numerically is not part of the statement
                    l.rep.observed_only("double-order-not-numeric");
                }
            }
            if i <= j {
                let rel = match cmp[at(i, j)] {
                    Ordering::Equal if dumps[i] == dumps[j] => "identical",
                    Ordering::Equal => "equal-not-identical",
                    _ => "ordered",
                };
                if rel == "equal-not-identical" {
                    l.rep.cell(&format!("nontrivial-eq/{}", ty));
                }
                let (x, y) = if classes[i] <= classes[j] { (i, j) } else { (j, i) };
                l.rep.distinct.insert(fnv(&format!("{}|{}|{}|{}", ty, classes[x], classes[y], rel)));
            }
        }
    }

    // ---- ternary laws
    let mut tri = 0u64;
    for i in 0..n {
        for j in 0..n {
            let ij = cmp[at(i, j)];
            for k in 0..n {
                tri += 1;
                let jk = cmp[at(j, k)];
                if ij != Ordering::Greater && jk != Ordering::Greater {
                    let ik = cmp[at(i, k)];
                    if ik == Ordering::Greater || ((ij == Ordering::Less || jk == Ordering::Less) && ik != Ordering::Less) {
                        l.fail(
                            "cmp-not-transitive",
                            vec![dumps[i].clone(), dumps[j].clone(), dumps[k].clone()],
                            format!("a?b {:?}, b?c {:?}, a?c {:?}", ij, jk, ik),
                        );
                    }
                }
                if eq[at(i, j)] && eq[at(j, k)] && !eq[at(i, k)] {
                    l.fail(
                        "eq-not-transitive",
                        vec![dumps[i].clone(), dumps[j].clone(), dumps[k].clone()],
                        String::new(),
                    );
                }
            }
        }
    }
    l.rep.evaluations += 2 * tri;
    l.rep.cell_n("triples", tri);

    // ---- collections: as many classes under BTreeSet as under HashSet as under ==; every
    // inserted value is found again
    let mut reps: Vec<usize> = vec![];
    for i in 0..n {
        if !reps.iter().any(|&q| eq[at(q, i)]) {
            reps.push(i);
        }
    }
    let sets = guarded(|| {
        let bt: BTreeSet<T> = p.iter().cloned().collect();
        let hs: HashSet<T, FixedState> = p.iter().cloned().collect();
        let bm: BTreeMap<T, usize> = p.iter().cloned().enumerate().map(|(i, v)| (v, i)).collect();
        let hm: HashMap<T, usize, FixedState> = p.iter().cloned().enumerate().map(|(i, v)| (v, i)).collect();
        let mut lost = vec![];
        for (i, v) in p.iter().enumerate() {
            if !bt.contains(v) {
                lost.push(("btreeset-loses-value", i));
            }
            if !hs.contains(v) {
                lost.push(("hashset-loses-value", i));
            }
            // the surviving entry is the last inserted equal value
            match bm.get(v) {
                Some(&q) if eq[at(q, i)] => {}
                _ => lost.push(("btreemap-loses-key", i)),
            }
            match hm.get(v) {
                Some(&q) if eq[at(q, i)] => {}
                _ => lost.push(("hashmap-loses-key", i)),
            }
        }
        // sorted iteration is ascending
        let sorted: Vec<&T> = bt.iter().collect();
        let ascending = sorted.windows(2).all(|w| w[0].cmp(w[1]) == Ordering::Less);
        (bt.len(), hs.len(), bm.len(), hm.len(), lost, ascending)
    });
    l.rep.evaluations += 4 * n as u64 + 4;
    match sets {
        Err(e) => l.fail("panic", vec![], e),
        Ok((bt, hs, bm, hm, lost, ascending)) => {
            if bt != reps.len() || hs != reps.len() || bm != reps.len() || hm != reps.len() {
                l.fail(
                    "class-count-differs",
                    dumps.clone(),
                    format!("== {}, BTreeSet {}, HashSet {}, BTreeMap {}, HashMap {}", reps.len(), bt, hs, bm, hm),
                );
            }
            for (what, i) in lost {
                l.fail(what, vec![dumps[i].clone()], String::new());
            }
            if !ascending {
                l.fail("btreeset-iteration-not-ascending", dumps.clone(), String::new());
            }
        }
    }
}

/// The trait functions called directly (not through the derive) agree with the derived impls.
fn check_direct<T>(rep: &mut Report, sub: &str, seed: u64, ty: &str, p: &[T])
where
    T: Val + Ord + Hash + ViaOps,
{
    let mut l = Laws { rep, sub, seed, ty };
    for a in p {
        for b in p {
            l.rep.evaluations += 3;
            let r = guarded(|| {
                let (x, y) = (a.inner(), b.inner());
                let mut h1 = DefaultHasher::new();
                DoubleOps::hash(x, &mut h1);
                let mut h2 = DefaultHasher::new();
                DoubleOps::hash(y, &mut h2);
                (DoubleOps::eq(x, y), DoubleOps::cmp(x, y), h1.finish(), h2.finish())
            });
            match r {
                Err(e) => l.fail("panic", vec![dump(a), dump(b)], e),
                Ok((eq, cmp, h1, h2)) => {
                    if eq != (a == b) || cmp != a.cmp(b) {
                        l.fail("double-ops-disagree-with-derive", vec![dump(a), dump(b)], String::new());
                    }
                    if eq != (cmp == Ordering::Equal) {
                        l.fail("double-ops-cmp-equal-iff-eq", vec![dump(a), dump(b)], format!("{:?} {}", cmp, eq));
                    }
                    if eq && h1 != h2 {
                        l.fail("double-ops-eq-but-hash-differs", vec![dump(a), dump(b)], String::new());
                    }
                }
            }
        }
    }
}


// ---------------------------------------------------------------------------------------------
// Real generated types (conjure-codegen output for sink-ir.json, compiled into this binary):
// values are obtained by parsing documents built from a small colliding pool of doubles.

const JSON_DOUBLES: &[&str] = &["\"NaN\"", "0.0", "-0.0", "1.0", "-1.0", "\"Infinity\"", "\"-Infinity\"", "1.5", "5e-324", "1.7976931348623157e308"];

fn jd(r: &mut Rng) -> &'static str {
    JSON_DOUBLES[r.below(JSON_DOUBLES.len())]
}

fn json_flags(text: &str) -> u8 {
    let mut f = 0;
    if text.contains("NaN") {
        f |= 1;
    }
    if text.contains(":0.0") || text.contains("-0.0") || text.contains("[0.0") || text == "0.0" {
        f |= 2;
    }
    if text.contains("Infinity") {
        f |= 4;
    }
    if text.contains("5e-324") {
        f |= 8;
    }
    f
}

fn item_doc(r: &mut Rng) -> String {
    let label = *r.pick(&["a", "b"]);
    if r.chance(1, 4) {
        format!("{{\"label\":\"{}\"}}", label)
    } else {
        format!("{{\"label\":\"{}\",\"weight\":{}}}", label, jd(r))
    }
}

macro_rules! generated_val {
    ($wrapper:ident, $inner:ty, $doc:expr) => {
        #[derive(Clone, Debug, PartialEq, Eq, PartialOrd, Ord, Hash)]
        struct $wrapper($inner);

        impl Val for $wrapper {
            fn gen(r: &mut Rng) -> Self {
                let doc: String = $doc(r);
                $wrapper(conjure_serde::json::client_from_str(&doc).unwrap_or_else(|e| panic!("document {}: {}", doc, e)))
            }
            fn mutate(&self, r: &mut Rng) -> Self {
                Self::gen(r)
            }
            fn dump(&self, out: &mut String) {
                out.push_str(&conjure_serde::json::to_string(&self.0).unwrap());
            }
            fn top(&self) -> String {
                let t = conjure_serde::json::to_string(&self.0).unwrap();
                format!("{}:{}", stringify!($wrapper), t.len().min(40) / 8)
            }
            fn flags(&self) -> u8 {
                json_flags(&conjure_serde::json::to_string(&self.0).unwrap())
            }
        }
    };
}

generated_val!(GRatio, crate::gen::sink::Ratio, |r: &mut Rng| jd(r).to_string());
generated_val!(GItem, crate::gen::sink::Item, item_doc);
generated_val!(GChoice, crate::gen::sink::Choice, |r: &mut Rng| match r.below(5) {
    0 | 1 => format!("{{\"type\":\"num\",\"num\":{}}}", jd(r)),
    2 => format!("{{\"type\":\"item\",\"item\":{}}}", item_doc(r)),
    3 => format!("{{\"type\":\"many\",\"many\":[{}]}}", (0..r.below(3)).map(|i| i.to_string()).collect::<Vec<_>>().join(",")),
    _ => format!("{{\"type\":\"text\",\"text\":\"{}\"}}", r.pick(&["a", "b"])),
});
generated_val!(GPayload, crate::gen::sink::Payload, |r: &mut Rng| {
    let mut m = vec![
        "\"name\":\"n\"".to_string(),
        "\"count\":1".to_string(),
        format!("\"ratio\":{}", jd(r)),
        "\"flavor\":\"SOUR\"".to_string(),
        "\"blob\":\"\"".to_string(),
        "\"big\":1".to_string(),
        "\"when\":\"2020-01-01T00:00:00Z\"".to_string(),
        "\"id\":\"00000000-0000-0000-0000-000000000000\"".to_string(),
    ];
    if r.bool() {
        m.push(format!("\"items\":[{}]", (0..r.below(3)).map(|_| item_doc(r)).collect::<Vec<_>>().join(",")));
    }
    if r.bool() {
        let k = jd(r).trim_matches('"').to_string();
        m.push(format!("\"byKey\":{{\"{}\":\"v\"}}", k));
    }
    if r.chance(1, 3) {
        m.push(format!("\"nested-thing\":{{\"name\":\"n\",\"count\":1,\"ratio\":{},\"flavor\":\"SOUR\",\"blob\":\"\",\"big\":1,\"when\":\"2020-01-01T00:00:00Z\",\"id\":\"00000000-0000-0000-0000-000000000000\"}}", jd(r)));
    }
    format!("{{{}}}", m.join(","))
});

const N_TYPES: u64 = 21;

/// The doubles a value holds at *value* positions, in iteration (= comparison) order.
trait Doubles {
    fn doubles_mut(&mut self) -> Vec<&mut f64>;
}

impl Doubles for f64 {
    fn doubles_mut(&mut self) -> Vec<&mut f64> {
        vec![self]
    }
}

impl<T: Doubles> Doubles for Option<T> {
    fn doubles_mut(&mut self) -> Vec<&mut f64> {
        self.iter_mut().flat_map(|v| v.doubles_mut()).collect()
    }
}

impl<T: Doubles> Doubles for Vec<T> {
    fn doubles_mut(&mut self) -> Vec<&mut f64> {
        self.iter_mut().flat_map(|v| v.doubles_mut()).collect()
    }
}

impl<K: Ord, V: Doubles> Doubles for BTreeMap<K, V> {
    fn doubles_mut(&mut self) -> Vec<&mut f64> {
        self.values_mut().flat_map(|v| v.doubles_mut()).collect()
    }
}

/// "NaN greatest" inside containers: two values of identical shape that differ in exactly one double, which is NaN in the
/// second, compare Less / Greater - at every position a double can take (list items, optional contents, map values, nested).
fn nan_in_place<T>(rep: &mut Report, sub: &str, seed: u64, ty: &str, r: &mut Rng)
where
    T: Val + ViaOps,
    T::Inner: Doubles + Clone + std::fmt::Debug,
{
    for _ in 0..8 {
        let a = T::gen(r);
        let mut ai = a.inner().clone();
        let mut bi = ai.clone();
        let n = ai.doubles_mut().len();
        if n == 0 {
            continue;
        }
        let at = r.below(n);
        if ai.doubles_mut()[at].is_nan() {
            *ai.doubles_mut()[at] = *r.pick(&[0.0, -0.0, 1.5, f64::INFINITY, f64::NEG_INFINITY, f64::MAX, -1e300]);
        }
        *bi.doubles_mut()[at] = f64::from_bits(*r.pick(&[0x7ff8_0000_0000_0000u64, 0xfff8_0000_0000_0000, 0x7ff0_0000_0000_0001]));
        rep.evaluations += 1;
        rep.cell(&format!("nan-in-place/{}", ty));
        let (ab, ba) = (DoubleOps::cmp(&ai, &bi), DoubleOps::cmp(&bi, &ai));
        if ab != Ordering::Less || ba != Ordering::Greater || DoubleOps::eq(&ai, &bi) {
            rep.violation(sub, seed, format!("{}:nan-not-greatest-in-place", ty),
                json!({"type": ty, "a": format!("{:?}", ai), "b (NaN at double #)": at, "b": format!("{:?}", bi), "cmp(a,b)": format!("{:?}", ab), "cmp(b,a)": format!("{:?}", ba)}));
        }
    }
}

fn case(rep: &mut Report, sub: &str, seed: u64) {
    let mut rng = Rng::new(seed);
    let r = &mut rng;
    macro_rules! ops {
        ($t:ty, $name:expr) => {{
            let p = pool::<$t>(r);
            check_pool(rep, sub, seed, $name, &p, None);
            check_direct(rep, sub, seed, $name, &p);
            nan_in_place::<$t>(rep, sub, seed, $name, r);
        }};
    }
    {
        let p = pool::<DoubleKey>(r);
        check_pool(rep, sub, seed, "DoubleKey", &p, Some(|k: &DoubleKey| k.0));
    }
    {
        let p = pool::<TF64>(r);
        check_pool(rep, sub, seed, "f64", &p, Some(|k: &TF64| k.0));
        check_direct(rep, sub, seed, "f64", &p);
    }
    ops!(TOpt, "optional<double>");
    ops!(TList, "list<double>");
    ops!(TMap, "map<string,double>");
    ops!(TOptList, "optional<list<double>>");
    ops!(TListOpt, "list<optional<double>>");
    ops!(TMapList, "map<string,list<double>>");
    ops!(TKeyMap, "map<double,double>");
    ops!(TListList, "list<list<double>>");
    ops!(TOptOpt, "optional<optional<double>>");
    ops!(TIntMapOpt, "map<integer,optional<double>>");
    ops!(TKeyMapMap, "map<double,map<string,double>>");
    ops!(TListMap, "list<map<string,double>>");
    ops!(TDeep, "optional<map<double,list<optional<double>>>>");
    {
        let p = pool::<Obj>(r);
        check_pool(rep, sub, seed, "mimic-object", &p, None);
    }
    {
        let p = pool::<Uni>(r);
        check_pool(rep, sub, seed, "mimic-union", &p, None);
    }
    {
        let p = pool::<GRatio>(r);
        check_pool(rep, sub, seed, "generated-alias<double>", &p, None);
        let p = pool::<GItem>(r);
        check_pool(rep, sub, seed, "generated-object(optional<double>)", &p, None);
        let p = pool::<GChoice>(r);
        check_pool(rep, sub, seed, "generated-union(double,object,list)", &p, None);
        let p = pool::<GPayload>(r);
        check_pool(rep, sub, seed, "generated-object(double,map<double,_>,list<object>,recursive)", &p, None);
    }
}

pub fn run(ctx: &Ctx, report: &mut Report) {
    // a fixed pool first: every listed double against every other, for the two double types
    ctx.fixed(report, "table", |rep| {
        let all: Vec<f64> = DOUBLES.iter().map(|b| f64::from_bits(*b)).collect();
        let keys: Vec<DoubleKey> = all.iter().map(|v| DoubleKey(*v)).collect();
        check_pool(rep, "table", 0, "DoubleKey", &keys, Some(|k: &DoubleKey| k.0));
        let vals: Vec<TF64> = all.iter().map(|v| TF64(*v)).collect();
        check_pool(rep, "table", 0, "f64", &vals, Some(|k: &TF64| k.0));
        check_direct(rep, "table", 0, "f64", &vals);
    });
    ctx.cases(report, "pools", ctx.n(200, 20_000), |seed, rep| {
        // building the pools already puts values into ordered collections (sets of DoubleKey inside the mimic and generated types)
        if let Err(panic) = guarded(|| case(&mut *rep, "pools", seed)) {
            rep.violation("pools", seed, "ordered-collection-panics-while-building-values", json!({"panic": panic}));
        }
    });
    if ctx.replay.is_none() {
        report.floor_cells("types", "type/", N_TYPES);
        // every type saw values that are equal without being identical (NaN payloads, zero signs)
        report.floor_cells("types-with-nontrivial-equal-pairs", "nontrivial-eq/", N_TYPES);
        let tri = report.matrix.get("triples").copied().unwrap_or(0);
        let pools = ctx.n(200, 20_000);
        report.floor("triples", pools * N_TYPES * (POOL * POOL * POOL) as u64, tri);
        let d = report.distinct.len() as u64;
        report.floor("distinct-pair-classes", if ctx.scale >= 1.0 { 3000 } else { 600 }, d);
    }
    report.notes.push("distinct = (type, class of a, class of b, identical | equal-not-identical | ordered)".into());
}

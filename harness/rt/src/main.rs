//! `rt <Cxx> --tier quick|thorough --seed N --out FILE [--replay FILE] [--threads N] [--scale F]`
//! Bed A: in-process runtime monitors over the working tree of the conjure-* runtime crates.
mod ctx;
mod node;
mod hand;
mod svc;
mod taint;

#[allow(dead_code, unused_imports, clippy::all)]
pub mod gen {
    include!(concat!(env!("OUT_DIR"), "/sink/mod.rs"));
}

mod c01;
mod c04;
mod c05;
mod c06;
mod c07;
mod c09;
mod c11;
mod c12;
mod c13;
mod c14;
mod c15;
mod c16;
mod c17;
mod c18;
mod c19;

use ctx::Ctx;
use vcore::Report;

fn main() {
    let args: Vec<String> = std::env::args().collect();
    if args.len() < 2 {
        eprintln!("usage: rt <Cxx> [--tier T] [--seed N] [--out FILE] [--replay FILE]");
        std::process::exit(2);
    }
    let prop = args[1].clone();
    let mut ctx = Ctx::default_for(&prop);
    let mut out = None;
    let mut i = 2;
    while i < args.len() {
        let v = args.get(i + 1).cloned().unwrap_or_default();
        match args[i].as_str() {
            "--tier" => ctx.thorough = v == "thorough",
            "--seed" => ctx.seed = v.parse().expect("seed"),
            "--out" => out = Some(v),
            "--threads" => ctx.threads = v.parse().expect("threads"),
            "--scale" => ctx.scale = v.parse().expect("scale"),
            "--replay" => {
                let text = std::fs::read_to_string(&v).expect("replay file");
                let j: serde_json::Value = serde_json::from_str(&text).expect("replay json");
                ctx.replay = Some((
                    j["sub"].as_str().expect("sub").to_string(),
                    j["case_seed"].as_u64().expect("case_seed"),
                ));
            }
            other => {
                eprintln!("unknown argument {}", other);
                std::process::exit(2);
            }
        }
        i += 2;
    }
    ctx::install_panic_hook();
    let mut report = Report::new(&prop);
    match prop.as_str() {
        "C01" => c01::run(&ctx, &mut report),
        "C04" => c04::run(&ctx, &mut report),
        "C05" => c05::run(&ctx, &mut report),
        "C06" => c06::run(&ctx, &mut report),
        "C07" => c07::run(&ctx, &mut report),
        "C09" => c09::run(&ctx, &mut report),
        "C11" => c11::run(&ctx, &mut report),
        "C12" => c12::run(&ctx, &mut report),
        "C13" => c13::run(&ctx, &mut report),
        "C14" => c14::run(&ctx, &mut report),
        "C15" => c15::run(&ctx, &mut report),
        "C16" => c16::run(&ctx, &mut report),
        "C17" => c17::run(&ctx, &mut report),
        "C18" => c18::run(&ctx, &mut report),
        "C19" => c19::run(&ctx, &mut report),
        _ => {
            eprintln!("no runtime monitor for {}", prop);
            std::process::exit(2);
        }
    }
    let text = serde_json::to_string(&report).unwrap();
    match out {
        Some(p) => std::fs::write(p, text).expect("write report"),
        None => println!("{}", text),
    }
}

//! C06 – servers accept a request body only if it is exactly one complete valid document.
//!
//! Requests are handed straight to the endpoints (generated and macro-declared, blocking and
//! async). Bodies are built *constructively* from a known value so the expectation is known
//! without parsing; all chunkings of small bodies are enumerated; a distinguishable stream error
//! is injected at every chunk index.
use crate::ctx::{guarded, Ctx};
use crate::gen::sink::*;
use crate::hand;
use crate::node::trunc;
use crate::svc::*;
use bytes::Bytes;
use conjure_error::Error;
use conjure_http::PathParams;
use conjure_serde::{json, smile};
use http::{HeaderMap, HeaderValue, Method, Request};
use labrt::{all_chunkings, block_on, error_class, is_injected, random_chunking, route, ChunkStream, Chunks};
use serde::de::DeserializeOwned;
use serde::Serialize;
use serde_json::json;
use std::sync::Arc;
use vcore::rng::fnv;
use vcore::text::*;
use vcore::{Report, Rng};

#[derive(Clone, Copy, PartialEq, Debug)]
enum Shape {
    Str,
    Arr,
    Obj,
    Num,
}

struct Ep {
    name: &'static str,
    hand: bool,
    method: Method,
    uri: &'static str,
    headers: &'static [(&'static str, &'static str)],
    limit: usize,
    optional: bool,
    arg: &'static str,
    shape: Shape,
    gen: fn(&mut Rng) -> String,
    /// D -> (handler's rendering of the value, Smile bytes of the value)
    canon: fn(&str) -> (String, Vec<u8>),
}

fn canon<T: DeserializeOwned + Serialize>(d: &str) -> (String, Vec<u8>) {
    let v: T = json::client_from_str(d).unwrap_or_else(|e| panic!("generator produced an invalid document {}: {}", d, e));
    (j(&v), smile::to_vec(&v).expect("smile"))
}

const DEFAULT_LIMIT: usize = 50 * 1024 * 1024;

fn gen_str_doc(r: &mut Rng) -> String {
    j(&hostile_string(r, 10))
}

fn eps() -> Vec<Ep> {
    vec![
        Ep { name: "jsonBody", hand: false, method: Method::POST, uri: "/sink/json", headers: &[], limit: DEFAULT_LIMIT, optional: false, arg: "body", shape: Shape::Obj,
             gen: |r| gen_payload_json(r, 1), canon: canon::<Payload> },
        Ep { name: "optBody", hand: false, method: Method::POST, uri: "/sink/optBody", headers: &[], limit: DEFAULT_LIMIT, optional: true, arg: "body", shape: Shape::Obj,
             gen: gen_item_json, canon: canon::<Option<Item>> },
        Ep { name: "listBody", hand: false, method: Method::PUT, uri: "/sink/listBody", headers: &[], limit: DEFAULT_LIMIT, optional: false, arg: "items", shape: Shape::Arr,
             gen: |r| format!("[{}]", (0..r.below(5)).map(|_| j(&hostile_f64(r))).collect::<Vec<_>>().join(",")), canon: canon::<Vec<f64>> },
        Ep { name: "choiceBody", hand: false, method: Method::POST, uri: "/sink/choice", headers: &[], limit: DEFAULT_LIMIT, optional: false, arg: "choice", shape: Shape::Obj,
             gen: |r| j(&gen_choice(r)), canon: canon::<Choice> },
        Ep { name: "smallBody", hand: false, method: Method::POST, uri: "/sink/small", headers: &[], limit: 32, optional: false, arg: "text", shape: Shape::Str,
             gen: |r| { let n = r.below(12); j(&alnum(r, n)) }, canon: canon::<String> },
        Ep { name: "cookieAuth", hand: false, method: Method::POST, uri: "/sink/cookieAuth", headers: &[("cookie", "SINK_TOKEN=tok.en")], limit: DEFAULT_LIMIT, optional: false, arg: "body", shape: Shape::Num,
             gen: |r| hostile_i32(r).to_string(), canon: canon::<i32> },
        Ep { name: "unsafeBody", hand: false, method: Method::POST, uri: "/sink/unsafeBody/7", headers: &[("cookie", "MIX_COOKIE=abc")], limit: DEFAULT_LIMIT, optional: false, arg: "secretBody", shape: Shape::Obj,
             gen: gen_item_json, canon: canon::<Item> },
        Ep { name: "body", hand: true, method: Method::POST, uri: "/hand/body/some%20id", headers: &[("authorization", "Bearer abc"), ("x-custom", "v")], limit: DEFAULT_LIMIT, optional: false, arg: "body", shape: Shape::Obj,
             gen: gen_item_json, canon: canon::<Item> },
        Ep { name: "small16", hand: true, method: Method::POST, uri: "/hand/small16", headers: &[], limit: 16, optional: false, arg: "v", shape: Shape::Str,
             gen: |r| { let n = r.below(8); j(&alnum(r, n)) }, canon: canon::<String> },
        Ep { name: "strs", hand: true, method: Method::POST, uri: "/hand/strs", headers: &[], limit: DEFAULT_LIMIT, optional: false, arg: "v", shape: Shape::Arr,
             gen: |r| format!("[{}]", (0..r.below(4)).map(|_| gen_str_doc(r)).collect::<Vec<_>>().join(",")), canon: canon::<Vec<String>> },
    ]
}

#[derive(Clone, Copy, PartialEq, Debug)]
enum Fmt {
    Json,
    Smile,
}

#[derive(Clone, Debug)]
struct Body {
    bytes: Vec<u8>,
    class: &'static str,
    /// Some(true): exactly one valid document of the type; Some(false): not; None: undecided
    ok: Option<bool>,
    fmt: Fmt,
}

fn smile_with_unknown_member(smile: &[u8], payload: &str) -> Option<Vec<u8>> {
    use serde::Serialize;
    use serde_smile::value::Value as S;
    let mut dom: S = serde_smile::from_slice(smile).ok()?;
    match &mut dom {
        S::Object(m) => {
            let v = match payload {
                "1" => S::Integer(1),
                "null" => S::Null,
                other => S::String(other.to_string()),
            };
            m.insert("zzUnknownMember".to_string(), v);
        }
        _ => return None,
    }
    let mut out = vec![];
    let mut ser = serde_smile::Serializer::builder().raw_binary(true).build(&mut out);
    dom.serialize(&mut ser).ok()?;
    Some(out)
}

fn make_body(r: &mut Rng, ep: &Ep, d: &str, smile_bytes: &[u8]) -> Body {
    let fmt = if r.chance(1, 4) { Fmt::Smile } else { Fmt::Json };
    let base: Vec<u8> = if fmt == Fmt::Json { d.as_bytes().to_vec() } else { smile_bytes.to_vec() };
    const WS: &[&[u8]] = &[b" ", b"\n", b"\t\r\n ", b"  "];
    const GARBAGE: &[&[u8]] = &[b"x", b"garbage", b"}", b"]", b"1", b"\"", b",", b"\x00", b"\xff", b"null", b"//c"];
    let ws: &[u8] = WS[r.below(WS.len())];
    let mut garbage: &[u8] = GARBAGE[r.below(GARBAGE.len())];
    // 0xFF is Smile's optional end-of-content marker, and a digit after a JSON number just makes
    // another number: neither is "trailing data"
    if (fmt == Fmt::Smile && garbage == b"\xff") || (fmt == Fmt::Json && ep.shape == Shape::Num && garbage == b"1") {
        garbage = b"x";
    }
    let (bytes, class, ok): (Vec<u8>, &'static str, Option<bool>) = match r.below(14) {
        0 | 1 | 2 => (base.clone(), "exact", Some(true)),
        3 if fmt == Fmt::Json => ([&base[..], ws].concat(), "trailing-whitespace", Some(true)),
        4 if fmt == Fmt::Json => ([ws, &base[..]].concat(), "leading-whitespace", Some(true)),
        5 => ([&base[..], garbage].concat(), "trailing-garbage", Some(false)),
        6 if fmt == Fmt::Json => ([&base[..], ws, garbage].concat(), "trailing-garbage-after-space", Some(false)),
        7 => (
            if fmt == Fmt::Json && ep.shape == Shape::Num { [&base[..], b" ", &base[..]].concat() } else { [&base[..], &base[..]].concat() },
            "two-documents",
            Some(false),
        ),
        8 if (ep.shape != Shape::Num || fmt == Fmt::Smile) && base.len() > 1 => {
            let cut = if fmt == Fmt::Smile { 4.max(1 + r.below(base.len() - 1)).min(base.len() - 1) } else { 1 + r.below(base.len() - 1) };
            // Smile: a cut inside the document; whether a prefix happens to be complete is not
            // known by construction, so it is only judged for JSON
            (base[..cut].to_vec(), "truncated", if fmt == Fmt::Json { Some(false) } else { None })
        }
        9 => (vec![], "empty", Some(false)),
        10 if fmt == Fmt::Json => {
            // single-byte corruption, judged only if the result is not JSON at all
            let mut b = base.clone();
            let i = r.below(b.len());
            b[i] = *r.pick(&[b'}', b'x', b'"', b',', 0u8, 0xff, b':', b'[']);
            let still_json = vcore::json::parse(&b).is_ok();
            (b, "corrupted-byte", if still_json { None } else { Some(false) })
        }
        11 if fmt == Fmt::Json && ep.shape == Shape::Obj => {
            let mut t = d.trim_end().to_string();
            t.pop();
            let sep = if t.trim_end().ends_with('{') { "" } else { "," };
            (format!("{}{}\"zzUnknownMember\":{}}}", t, sep, r.pick(&["1", "null", "{\"a\":[]}", "\"x\""])).into_bytes(), "unknown-member", Some(false))
        }
        11 if fmt == Fmt::Smile && ep.shape == Shape::Obj => {
            // the same through the Smile DOM (plain serde_smile re-encodes it faithfully): an undeclared member
            // appended to the top-level object; judged only if the DOM round trip worked
            match smile_with_unknown_member(&base, *r.pick(&["1", "null", "x"])) {
                Some(b) => (b, "unknown-member", Some(false)),
                None => (base.clone(), "exact", Some(true)),
            }
        }
        12 if fmt == Fmt::Json => {
            let wrong = match ep.shape {
                Shape::Str => "17",
                Shape::Arr => "{\"a\":1}",
                Shape::Obj => "[1,2]",
                Shape::Num => "\"12\"",
            };
            (wrong.as_bytes().to_vec(), "wrong-json-kind", Some(false))
        }
        _ => (base.clone(), "exact", Some(true)),
    };
    Body { bytes, class, ok, fmt }
}

#[derive(Clone, Debug)]
struct Ct {
    value: Option<Vec<u8>>,
    class: &'static str,
    /// which registered encoding the header names, if any
    names: Option<Fmt>,
}

fn make_ct(r: &mut Rng, fmt: Fmt) -> Ct {
    let exact: &[u8] = if fmt == Fmt::Json { b"application/json" } else { b"application/x-jackson-smile" };
    match r.below(16) {
        0 => Ct { value: None, class: "absent", names: None },
        1 => Ct { value: Some([exact, b"; charset=utf-8"].concat()), class: "with-parameters", names: Some(fmt) },
        2 => Ct { value: Some(exact.to_ascii_uppercase()), class: "upper-case", names: Some(fmt) },
        3 => Ct {
            value: Some(if fmt == Fmt::Json { b"application/x-jackson-smile".to_vec() } else { b"application/json".to_vec() }),
            class: "other-registered-encoding",
            names: Some(if fmt == Fmt::Json { Fmt::Smile } else { Fmt::Json }),
        },
        4 => Ct { value: Some(b"text/plain".to_vec()), class: "unregistered", names: None },
        5 => Ct { value: Some(b"application/*".to_vec()), class: "wildcard", names: None },
        6 => Ct { value: Some(b"garbage".to_vec()), class: "unparsable", names: None },
        7 => Ct { value: Some([exact, b"\xff"].concat()), class: "non-ascii", names: None },
        8 => Ct { value: Some([exact, &b"+zip"[..]].concat()), class: "registered+suffix", names: None },
        9 => Ct { value: Some(if fmt == Fmt::Json { b"application/problem+json".to_vec() } else { b"application/x-jackson-smile+json".to_vec() }), class: "other+suffix", names: None },
        _ => Ct { value: Some(exact.to_vec()), class: "exact", names: Some(fmt) },
    }
}

struct Delivery {
    result: Result<Result<(), Error>, String>,
    calls: Vec<Call>,
}

fn deliver(ep: &Ep, ct: &Ct, chunks: Chunks, is_async: bool) -> Delivery {
    let rec = Arc::new(Recorder::default());
    let uri: http::Uri = ep.uri.parse().expect("endpoint uri");
    let mut headers = HeaderMap::new();
    for (k, v) in ep.headers {
        headers.insert(http::header::HeaderName::from_static(k), HeaderValue::from_static(v));
    }
    if let Some(v) = &ct.value {
        headers.insert(http::header::CONTENT_TYPE, HeaderValue::from_bytes(v).expect("header bytes"));
    }
    fn mk<B>(ep: &Ep, uri: &http::Uri, headers: &HeaderMap, params: PathParams, body: B) -> Request<B> {
        let mut req = Request::new(body);
        *req.method_mut() = ep.method.clone();
        *req.uri_mut() = uri.clone();
        *req.headers_mut() = headers.clone();
        req.extensions_mut().insert(params);
        req
    }
    let result = if !is_async {
        let endpoints = if ep.hand { hand::sync_endpoints(hand::HandHandler { rec: rec.clone() }) } else { sync_endpoints(Handler { rec: rec.clone() }) };
        let metas: Vec<&(dyn conjure_http::server::Endpoint<Chunks, Vec<u8>> + Sync + Send)> = endpoints.iter().map(|e| &**e).collect();
        let mut routed = route(&metas, &ep.method, uri.path());
        assert_eq!(routed.len(), 1, "route {}", ep.uri);
        let r = routed.pop().unwrap();
        let e = &endpoints[r.index];
        guarded(|| e.handle(mk(ep, &uri, &headers, r.params, chunks), &mut http::Extensions::new()).map(|_| ()))
    } else {
        let endpoints = if ep.hand { hand::async_endpoints(hand::HandHandler { rec: rec.clone() }) } else { async_endpoints(Handler { rec: rec.clone() }) };
        let metas: Vec<&conjure_http::server::BoxAsyncEndpoint<'static, ChunkStream, Vec<u8>>> = endpoints.iter().collect();
        let mut routed = route(&metas, &ep.method, uri.path());
        assert_eq!(routed.len(), 1, "route {}", ep.uri);
        let r = routed.pop().unwrap();
        let e = &endpoints[r.index];
        guarded(|| {
            use conjure_http::server::AsyncEndpoint;
            block_on(async { e.handle(mk(ep, &uri, &headers, r.params, ChunkStream::new(chunks)), &mut http::Extensions::new()).await.map(|_| ()) })
        })
    };
    Delivery { result, calls: rec.take() }
}

#[allow(clippy::too_many_arguments)]
fn judge(rep: &mut Report, sub: &str, seed: u64, ep: &Ep, body: &Body, ct: &Ct, nchunks: usize, fail_at: Option<usize>, is_async: bool, want: &str, d: Delivery) {
    let flavour = if is_async { "async" } else { "blocking" };
    // reference decision, by construction
    let absent_optional = ep.optional && ct.value.is_none();
    let accept: Option<bool> = if absent_optional {
        Some(true)
    } else if ct.names != Some(body.fmt) || fail_at.is_some() || body.bytes.len() > ep.limit {
        Some(false)
    } else {
        body.ok
    };
    let chunk_class = match nchunks {
        0 => "0",
        1 => "1",
        2 => "2",
        _ => "3+",
    };
    rep.evaluations += 1;
    rep.cell(&format!("body/{}/{}", if body.fmt == Fmt::Json { "json" } else { "smile" }, body.class));
    rep.cell(&format!("content-type/{}", ct.class));
    rep.cell(&format!("chunks/{}/{}", flavour, chunk_class));
    if fail_at.is_some() {
        rep.cell(&format!("stream-error/{}/{}", flavour, chunk_class));
    }
    rep.distinct.insert(fnv(&format!("{}|{}|{:?}|{}|{}|{}|{}|{}", ep.name, body.class, body.fmt, ct.class, chunk_class, fail_at.map(|a| a.min(3) as i64).unwrap_or(-1), flavour, body.bytes.len() > ep.limit)));
    let detail = |what: &str, info: String| {
        json!({"endpoint": ep.name, "flavour": flavour, "what": what, "body_class": body.class, "format": format!("{:?}", body.fmt),
               "body": trunc(&String::from_utf8_lossy(&body.bytes)), "body_len": body.bytes.len(), "limit": ep.limit,
               "content_type": ct.value.as_ref().map(|v| String::from_utf8_lossy(v).to_string()), "chunks": nchunks, "stream_error_at": fail_at,
               "expected_value": want, "handler_events": d.calls.iter().map(|c| json!(c.args)).collect::<Vec<_>>(), "info": info})
    };
    let fmt = if body.fmt == Fmt::Json { "json" } else { "smile" };
    let res = match &d.result {
        Err(p) => {
            rep.violation(sub, seed, format!("panic:{}", body.class), detail("panic", p.clone()));
            return;
        }
        Ok(r) => r,
    };
    // a handler event must always carry the value of the document (or None for the absent optional)
    let expected_arg = if absent_optional { "null".to_string() } else { want.to_string() };
    for c in &d.calls {
        let got = c.args.iter().find(|(k, _)| *k == ep.arg).map(|(_, v)| v.as_str());
        if accept != Some(false) && got != Some(expected_arg.as_str()) && body.ok == Some(true) {
            rep.violation(sub, seed, format!("handler-saw-different-value:{}", body.class), detail("value", format!("{:?}", got)));
            return;
        }
    }
    match accept {
        Some(true) => {
            if d.calls.len() != 1 || res.is_err() {
                let info = res.as_ref().err().map(|e| format!("{} / {}", error_class(e), e.cause())).unwrap_or_default();
                rep.violation(sub, seed, format!("rejected-valid:{}:{}:{}", fmt, body.class, ct.class), detail("rejected a valid delivery", info));
            }
        }
        Some(false) => {
            if !d.calls.is_empty() {
                let why = if fail_at.is_some() {
                    "stream-error"
                } else if ct.names != Some(body.fmt) {
                    "content-type"
                } else if body.bytes.len() > ep.limit {
                    "oversize"
                } else {
                    body.class
                };
                rep.violation(sub, seed, format!("accepted:{}:{}", fmt, why), detail("handler invoked for an inadmissible body", String::new()));
                return;
            }
            match res {
                Ok(()) => rep.violation(sub, seed, format!("no-error:{}:{}", fmt, body.class), detail("no handler event but no error either", String::new())),
                Err(e) => {
                    let class = error_class(e);
                    let admissible = class == "service:InvalidArgument" || (fail_at.is_some() && is_injected(e));
                    if !admissible {
                        rep.violation(sub, seed, format!("wrong-error:{}:{}", class, body.class), detail("error is neither INVALID_ARGUMENT nor the stream's own", e.cause().to_string()));
                    }
                }
            }
        }
        None => rep.observed_only(&format!("undecided-by-construction/{}", body.class)),
    }
}

fn random_case(seed: u64, rep: &mut Report) {
    let eps = eps();
    let mut r = Rng::new(seed);
    let ep = r.pick(&eps);
    let d = (ep.gen)(&mut r);
    let (want, smile_bytes) = (ep.canon)(&d);
    let mut body = make_body(&mut r, ep, &d, &smile_bytes);
    // size limit: for limited endpoints aim exact-class bodies at N-1, N, N+1
    if ep.limit < 1000 && body.class == "exact" && body.fmt == Fmt::Json && r.chance(1, 2) {
        let total = (ep.limit as i64 + r.range(-2, 2)).max(2) as usize;
        let s = alnum(&mut r, total - 2);
        body.bytes = format!("\"{}\"", s).into_bytes();
        body.class = "exact-at-limit";
        let ct = make_ct(&mut r, body.fmt);
        let want = j(&s);
        return finish_case(seed, rep, &mut r, ep, body, ct, &want);
    }
    let ct = make_ct(&mut r, body.fmt);
    finish_case(seed, rep, &mut r, ep, body, ct, &want)
}

fn finish_case(seed: u64, rep: &mut Report, r: &mut Rng, ep: &Ep, body: Body, ct: Ct, want: &str) {
    let chunks = random_chunking(r, &body.bytes);
    let n = chunks.len();
    let fail_at = if r.chance(1, 5) { Some(r.below(n + 1)) } else { None };
    let is_async = r.bool();
    let mut c = Chunks::of(chunks);
    if let Some(at) = fail_at {
        c = c.fail_at(at);
    }
    rep.sample(5, || json!({"sub": "random", "case_seed": seed, "endpoint": ep.name, "body": trunc(&String::from_utf8_lossy(&body.bytes)), "class": body.class,
        "content_type": ct.value.as_ref().map(|v| String::from_utf8_lossy(v).to_string()), "chunks": n, "stream_error_at": fail_at, "async": is_async}));
    let d = deliver(ep, &ct, c, is_async);
    judge(rep, "random", seed, ep, &body, &ct, n, fail_at, is_async, want, d);
}

/// Exhaustive part: every chunking (with up to two interleaved empty chunks) of a few small
/// bodies, and a stream error at every chunk index of every chunking with up to one empty chunk.
fn enumerate(rep: &mut Report, thorough: bool) {
    let eps = eps();
    let by_name = |n: &str| eps.iter().find(|e| e.name == n).unwrap();
    let json_ct = Ct { value: Some(b"application/json".to_vec()), class: "exact", names: Some(Fmt::Json) };
    let cases: Vec<(&Ep, &str, &'static str, Option<bool>, String)> = vec![
        (by_name("smallBody"), "\"ab\"", "exact", Some(true), "\"ab\"".into()),
        (by_name("smallBody"), "\"ab\"x", "trailing-garbage", Some(false), "\"ab\"".into()),
        (by_name("smallBody"), "\"ab\" ", "trailing-whitespace", Some(true), "\"ab\"".into()),
        (by_name("smallBody"), "\"ab", "truncated", Some(false), "\"ab\"".into()),
        (by_name("listBody"), "[1,2.5]", "exact", Some(true), "[1.0,2.5]".into()),
        (by_name("listBody"), "[1,2.5]]", "trailing-garbage", Some(false), "[1.0,2.5]".into()),
        (by_name("cookieAuth"), "12", "exact", Some(true), "12".into()),
        (by_name("cookieAuth"), "1 2", "two-documents", Some(false), "1".into()),
        (by_name("strs"), "[\"a\"]", "exact", Some(true), "[\"a\"]".into()),
        (by_name("small16"), "", "empty", Some(false), "\"\"".into()),
    ];
    let mut total = 0u64;
    for (idx, (ep, text, class, ok, want)) in cases.iter().enumerate() {
        let body = Body { bytes: text.as_bytes().to_vec(), class, ok: *ok, fmt: Fmt::Json };
        // long bodies: cap the enumeration at two empties only for <= 8 bytes (quick)
        let max_empty = if text.len() <= 5 || thorough { 2 } else { 1 };
        for is_async in [false, true] {
            for (k, ch) in all_chunkings(&body.bytes, max_empty).into_iter().enumerate() {
                let n = ch.len();
                let d = deliver(ep, &json_ct, Chunks::of(ch.clone()), is_async);
                judge(rep, "enumerated", (idx * 1_000_000 + k) as u64, ep, &body, &json_ct, n, None, is_async, want, d);
                total += 1;
                let empties = ch.iter().filter(|c| c.is_empty()).count();
                if empties <= 1 {
                    for at in 0..=n {
                        let d = deliver(ep, &json_ct, Chunks::of(ch.clone()).fail_at(at), is_async);
                        judge(rep, "enumerated", (idx * 1_000_000 + k) as u64, ep, &body, &json_ct, n, Some(at), is_async, want, d);
                        total += 1;
                    }
                }
            }
        }
    }
    rep.cell_n("exhaustive/chunkings-x-error-positions", total);
}

fn big_case(rep: &mut Report) {
    // the default 50 MiB limit, at N-1, N, N+1 (thorough only)
    let eps = eps();
    let ep = eps.iter().find(|e| e.name == "strs").unwrap();
    let json_ct = Ct { value: Some(b"application/json".to_vec()), class: "exact", names: Some(Fmt::Json) };
    for delta in [-1i64, 0, 1] {
        let total = (DEFAULT_LIMIT as i64 + delta) as usize;
        let s = "a".repeat(total - 4);
        let text = format!("[\"{}\"]", s);
        let want = j(&vec![s]);
        let body = Body { bytes: text.into_bytes(), class: "exact-at-limit", ok: Some(true), fmt: Fmt::Json };
        for is_async in [false, true] {
            let chunks: Vec<Bytes> = body.bytes.chunks(8 * 1024 * 1024).map(Bytes::copy_from_slice).collect();
            let n = chunks.len();
            let d = deliver(ep, &json_ct, Chunks::of(chunks), is_async);
            judge(rep, "default-limit", delta as u64, ep, &body, &json_ct, n, None, is_async, &want, d);
        }
    }
}

pub fn run(ctx: &Ctx, report: &mut Report) {
    ctx.cases(report, "random", ctx.n(100_000, 5_000_000), random_case);
    // runtimes with other registrations than the default (Smile only, custom encodings, several claiming one type): the
    // Content-Type decides through the registry, seen through the blocking and async request deserializers (shared with C11)
    ctx.cases(report, "registry", ctx.n(30_000, 1_000_000), crate::c11::content_type_case);
    let thorough = ctx.thorough;
    ctx.fixed(report, "enumerated", |rep| enumerate(rep, thorough));
    if ctx.thorough {
        ctx.fixed(report, "default-limit", big_case);
    }
    if ctx.replay.is_none() {
        report.floor_cells("json-body-classes", "body/json/", 12);
        report.floor_cells("smile-body-classes", "body/smile/", 5);
        report.floor_cells("content-type-classes", "content-type/", 11);
        report.floor_cells("chunk-paths", "chunks/", 8);
        report.floor_cells("stream-error-paths", "stream-error/", 8);
    }
    report.notes.push("exhaustive part: all chunkings (<= 2 interleaved empty chunks for bodies <= 5 bytes, <= 1 otherwise; 2 everywhere in thorough) of 10 small bodies, and a stream error at every chunk index of every chunking with <= 1 empty chunk, blocking and async".into());
    report.notes.push("distinct = (endpoint, body class, format, content-type class, chunk-path class 0/1/2/3+, error position class, flavour, oversize?)".into());
}

//! C05 – servers reject and clients ignore unknown object fields at every nesting depth.
//!
//! Workload: `Node` trees (and a few root types that place a struct directly below a list,
//! option, map, newtype or another struct). For one struct position per case, one to three
//! members the struct does not declare are injected into the *document* (JSON text or Smile DOM
//! re-encoded with plain serde_smile). Oracle: server deserializers return an error that names an
//! injected member; client deserializers return exactly the value of the uninjected document.
use crate::ctx::{guarded, Ctx};
use crate::node::*;
use conjure_object::DoubleKey;
use conjure_serde::{json, smile};
use serde::de::DeserializeOwned;
use serde::{Deserialize, Serialize};
use serde_json::json;
use serde_smile::value::Value as S;
use std::collections::BTreeMap;
use vcore::json::J;
use vcore::rng::fnv;
use vcore::text::hostile_string;
use vcore::{Report, Rng};

#[derive(Clone, Copy, Debug)]
enum Step {
    /// i-th member of an object (serialization order)
    Member(usize),
    Idx(usize),
}

/// A struct position: DOM path and the chain of container kinds above it.
struct Pos {
    path: Vec<Step>,
    chain: Vec<&'static str>,
}

fn with(prefix: &[Step], more: &[Step]) -> Vec<Step> {
    let mut p = prefix.to_vec();
    p.extend_from_slice(more);
    p
}

/// Collects the DOM paths of every named-struct object inside `n` (whose own DOM sits at
/// `prefix`), mirroring the serde data-model mapping of `Node`.
fn rec_paths(n: &Node, prefix: &[Step], chain: &mut Vec<&'static str>, out: &mut Vec<Pos>) {
    use Step::*;
    let inner = with(prefix, &[Member(0)]); // payload of the externally tagged variant
    chain.push(n.kind());
    match n {
        Node::Opt(Some(c)) => rec_paths(c, &inner, chain, out),
        Node::List(v) | Node::Seeded(SeededList(v)) => {
            for (i, c) in v.iter().enumerate() {
                rec_paths(c, &with(&inner, &[Idx(i)]), chain, out);
            }
        }
        Node::Set(v) => {
            for (i, c) in v.iter().enumerate() {
                rec_paths(c, &with(&inner, &[Idx(i)]), chain, out);
            }
        }
        Node::Struct(r) => rec_at(r, &inner, chain, out),
        Node::Newtype(w) => rec_paths(&w.0, &inner, chain, out),
        Node::TupleStruct(p) => rec_paths(&p.0, &with(&inner, &[Idx(0)]), chain, out),
        Node::Tuple(t) => {
            rec_paths(&t.0, &with(&inner, &[Idx(0)]), chain, out);
            rec_paths(&t.1, &with(&inner, &[Idx(1)]), chain, out);
        }
        Node::TupleVar(a, b) => {
            rec_paths(a, &with(&inner, &[Idx(0)]), chain, out);
            rec_paths(b, &with(&inner, &[Idx(1)]), chain, out);
        }
        Node::StructVar { x, y } => {
            rec_paths(x, &with(&inner, &[Member(0)]), chain, out);
            if let Some(y) = y {
                rec_paths(y, &with(&inner, &[Member(1)]), chain, out);
            }
        }
        Node::MapStr(m) => map_paths(m.values(), &inner, chain, out),
        Node::MapI32(m) => map_paths(m.values(), &inner, chain, out),
        Node::MapI64(m) => map_paths(m.values(), &inner, chain, out),
        Node::MapSafe(m) => map_paths(m.values(), &inner, chain, out),
        Node::MapF64(m) => map_paths(m.values(), &inner, chain, out),
        Node::MapBool(m) => map_paths(m.values(), &inner, chain, out),
        Node::MapUuid(m) => map_paths(m.values(), &inner, chain, out),
        Node::MapRid(m) => map_paths(m.values(), &inner, chain, out),
        Node::MapToken(m) => map_paths(m.values(), &inner, chain, out),
        Node::MapTime(m) => map_paths(m.values(), &inner, chain, out),
        Node::MapBin(m) => map_paths(m.values(), &inner, chain, out),
        Node::MapColor(m) => map_paths(m.values(), &inner, chain, out),
        Node::MapWrapKey(m) => map_paths(m.values(), &inner, chain, out),
        _ => {}
    }
    chain.pop();
}

fn map_paths<'a>(
    vals: impl Iterator<Item = &'a Node>,
    inner: &[Step],
    chain: &mut Vec<&'static str>,
    out: &mut Vec<Pos>,
) {
    for (i, c) in vals.enumerate() {
        rec_paths(c, &with(inner, &[Step::Member(i)]), chain, out);
    }
}

/// `at` is the DOM path of the object of `r` itself.
fn rec_at(r: &Rec, at: &[Step], chain: &mut Vec<&'static str>, out: &mut Vec<Pos>) {
    use Step::*;
    out.push(Pos { path: at.to_vec(), chain: chain.clone() });
    chain.push("Struct.field");
    rec_paths(&r.first, &with(at, &[Member(0)]), chain, out);
    if let Some(o) = &r.opt {
        rec_paths(o, &with(at, &[Member(1)]), chain, out);
    }
    for (i, c) in r.list.iter().enumerate() {
        rec_paths(c, &with(at, &[Member(2), Idx(i)]), chain, out);
    }
    chain.pop();
}

// Root types that put a struct directly below another serde construct (no enum tag between).
#[derive(Serialize, Deserialize, Clone, Debug, PartialEq)]
struct Outer {
    inner: Rec2,
    items: Vec<Rec2>,
    maybe: Option<Rec2>,
    #[serde(rename = "by-key")]
    by_key: BTreeMap<DoubleKey, Rec2>,
    alias: Wrap2,
    /// objects without declared fields (Conjure allows empty objects)
    empty: Empty,
    empties: Vec<Empty>,
    #[serde(rename = "maybe-empty")]
    maybe_empty: Option<Empty>,
    single: Single,
}

#[derive(Serialize, Deserialize, Clone, Debug, PartialEq)]
struct Empty {}

#[derive(Serialize, Deserialize, Clone, Debug, PartialEq)]
struct Single {
    only: Option<Empty>,
}

#[derive(Serialize, Deserialize, Clone, Debug, PartialEq)]
struct Rec2 {
    node: Node,
    #[serde(rename = "type")]
    type_: i32,
}

#[derive(Serialize, Deserialize, Clone, Debug, PartialEq)]
struct Wrap2(Rec2);

fn gen_rec2(r: &mut Rng, depth: usize) -> Rec2 {
    Rec2 { node: gen_node(r, depth), type_: vcore::text::hostile_i32(r) }
}

fn rec2_paths(v: &Rec2, at: &[Step], chain: &mut Vec<&'static str>, out: &mut Vec<Pos>) {
    out.push(Pos { path: at.to_vec(), chain: chain.clone() });
    chain.push("Rec2.field");
    rec_paths(&v.node, &with(at, &[Step::Member(0)]), chain, out);
    chain.pop();
}

fn outer_paths(o: &Outer) -> Vec<Pos> {
    use Step::*;
    let mut out = vec![];
    out.push(Pos { path: vec![], chain: vec!["root"] });
    let mut chain = vec!["Outer.field"];
    rec2_paths(&o.inner, &[Member(0)], &mut chain, &mut out);
    chain = vec!["Outer.list"];
    for (i, r) in o.items.iter().enumerate() {
        rec2_paths(r, &[Member(1), Idx(i)], &mut chain, &mut out);
    }
    if let Some(r) = &o.maybe {
        chain = vec!["Outer.option"];
        rec2_paths(r, &[Member(2)], &mut chain, &mut out);
    }
    chain = vec!["Outer.map"];
    for (i, r) in o.by_key.values().enumerate() {
        rec2_paths(r, &[Member(3), Member(i)], &mut chain, &mut out);
    }
    chain = vec!["Outer.alias"];
    rec2_paths(&o.alias.0, &[Member(4)], &mut chain, &mut out);
    out.push(Pos { path: vec![Member(5)], chain: vec!["Outer.field", "Empty"] });
    for (i, _) in o.empties.iter().enumerate() {
        out.push(Pos { path: vec![Member(6), Idx(i)], chain: vec!["Outer.list", "Empty"] });
    }
    if o.maybe_empty.is_some() {
        out.push(Pos { path: vec![Member(7)], chain: vec!["Outer.option", "Empty"] });
    }
    out.push(Pos { path: vec![Member(8)], chain: vec!["Outer.field", "Single"] });
    if o.single.only.is_some() {
        out.push(Pos { path: vec![Member(8), Member(0)], chain: vec!["Single.option", "Empty"] });
    }
    out
}

// ---- DOM navigation / injection

fn j_at<'a>(j: &'a mut J, path: &[Step]) -> Option<&'a mut Vec<(String, J)>> {
    let mut cur = j;
    for s in path {
        cur = match (s, cur) {
            (Step::Member(i), J::Obj(m)) => &mut m.get_mut(*i)?.1,
            (Step::Idx(i), J::Arr(a)) => a.get_mut(*i)?,
            _ => return None,
        };
    }
    match cur {
        J::Obj(m) => Some(m),
        _ => None,
    }
}

fn s_at<'a>(s: &'a mut S, path: &[Step]) -> Option<&'a mut S> {
    let mut cur = s;
    for st in path {
        cur = match (st, cur) {
            (Step::Member(i), S::Object(m)) => m.get_index_mut(*i)?.1,
            (Step::Idx(i), S::Array(a)) => a.get_mut(*i)?,
            _ => return None,
        };
    }
    Some(cur)
}

fn j_to_s(j: &J) -> S {
    match j {
        J::Null => S::Null,
        J::Bool(b) => S::Boolean(*b),
        J::Num(n) => match n.parse::<i64>() {
            Ok(i) if i32::try_from(i).is_ok() => S::Integer(i as i32),
            Ok(i) => S::Long(i),
            Err(_) => {
                // integers beyond 64 bits travel as Smile BigInteger (two's complement, big endian)
                if let Ok(i) = n.parse::<i128>() {
                    S::BigInteger(serde_smile::value::BigInteger::from_be_bytes(i.to_be_bytes().to_vec()))
                } else if let Ok(u) = n.parse::<u128>() {
                    let mut b = vec![0u8];
                    b.extend_from_slice(&u.to_be_bytes());
                    S::BigInteger(serde_smile::value::BigInteger::from_be_bytes(b))
                } else {
                    S::Double(n.parse().unwrap_or(0.0))
                }
            }
        },
        J::Str(s) => {
            if s == "binary!" {
                S::Binary(vec![0, 0xff, 0x80, 7])
            } else {
                S::String(s.clone())
            }
        }
        J::Arr(a) => S::Array(a.iter().map(j_to_s).collect()),
        J::Obj(m) => S::Object(m.iter().map(|(k, v)| (k.clone(), j_to_s(v))).collect()),
    }
}

fn payload(r: &mut Rng, depth: usize) -> (J, &'static str) {
    match r.below(if depth == 0 { 7 } else { 10 }) {
        0 => (J::Null, "null"),
        1 => (J::Bool(r.bool()), "bool"),
        2 if r.chance(1, 4) => (
            J::Num(r.pick(&["18446744073709551616", "-1267650600228229401496703205376", "340282366920938463463374607431768211455", "9223372036854775808", "-9223372036854775809"]).to_string()),
            "bigint",
        ),
        2 => (J::Num(r.range(-5, 1 << 40).to_string()), "int"),
        3 => (J::Num("-1.5e-7".into()), "float"),
        4 => (J::Str(r.pick(&["NaN", "Infinity", "", "AA==", "binary!", "x"]).to_string()), "string"),
        5 => (J::Str(hostile_string(r, 10)), "string"),
        6 => (J::Arr(vec![]), "array"),
        7 => (J::Arr((0..1 + r.below(3)).map(|_| payload(r, depth - 1).0).collect()), "array"),
        8 => (
            J::Obj(
                (0..r.below(3))
                    .map(|i| (format!("{}{}", r.pick(&["first", "k", "type", "Struct"]), i), payload(r, depth - 1).0))
                    .collect(),
            ),
            "object",
        ),
        // an object that looks like a complete struct of the same type
        _ => (
            J::Obj(vec![("first".into(), J::Str("Unit".into())), ("num".into(), J::Num("1".into()))]),
            "object",
        ),
    }
}

const NAMES: &[&str] = &[
    "zzUnknown", "extra-field", "x", "y", "Struct", "First", "first ", "opt_field", "list", "inner",
    "node", "type_", "0", "null", "__proto__", "fïrst", "by-key", "items", "id ", "NUM",
];

struct Injection {
    names: Vec<String>,
    kinds: Vec<&'static str>,
    where_: &'static str,
}

/// `name` occurs in `msg` delimited by characters that cannot be part of a member name.
fn names_word(msg: &str, name: &str) -> bool {
    let word = |c: char| c.is_alphanumeric() || c == '_' || c == '-';
    let mut from = 0;
    while let Some(i) = msg[from..].find(name) {
        let at = from + i;
        let before = msg[..at].chars().next_back();
        let after = msg[at + name.len()..].chars().next();
        if !before.map(word).unwrap_or(false) && !after.map(word).unwrap_or(false) {
            return true;
        }
        from = at + name.chars().next().map(|c| c.len_utf8()).unwrap_or(1);
    }
    false
}

/// Inserts 1..=3 undeclared members into the object member list, returns what was injected.
fn inject(r: &mut Rng, declared: &[String], members: usize) -> (Vec<(usize, String, J)>, Injection) {
    let count = 1 + r.below(3);
    let mut ins = vec![];
    let mut names = vec![];
    let mut kinds = vec![];
    let where_ = *r.pick(&["first", "middle", "last"]);
    for _ in 0..count {
        let mut name = if r.chance(1, 3) {
            format!("u{}", vcore::text::alnum(r, 6))
        } else {
            r.pick(NAMES).to_string()
        };
        while declared.contains(&name) || names.contains(&name) {
            name.push('_');
        }
        let (p, kind) = payload(r, 2);
        let at = match where_ {
            "first" => 0,
            "last" => members,
            _ => r.below(members + 1),
        };
        ins.push((at, name.clone(), p));
        names.push(name);
        kinds.push(kind);
    }
    (ins, Injection { names, kinds, where_ })
}

struct Env<'a> {
    rep: &'a mut Report,
    sub: &'a str,
    seed: u64,
    chain: String,
    inj: Injection,
    doc: String,
}

impl Env<'_> {
    fn sig_base(&self, cell: &str) -> String {
        format!("{}|{}|{}|{}", cell, self.chain, self.inj.kinds.join("+"), self.inj.where_)
    }

    fn fail(&mut self, cell: &str, what: &str, info: String) {
        self.rep.violation(
            self.sub,
            self.seed,
            format!("{}:{}", cell, what),
            json!({"cell": cell, "what": what, "chain": self.chain, "injected": self.inj.names,
                   "position": self.inj.where_, "document": trunc(&self.doc), "info": trunc(&info)}),
        );
    }

    fn server<T: std::fmt::Debug>(&mut self, cell: &str, f: impl FnOnce() -> Result<T, String>) {
        self.rep.evaluations += 1;
        self.rep.cell(cell);
        self.rep.distinct.insert(fnv(&self.sig_base(cell)));
        match guarded(f) {
            Err(p) => self.fail(cell, "panic", p),
            Ok(Ok(v)) => self.fail(cell, "server-accepted-unknown-field", trunc(&format!("{:?}", v))),
            Ok(Err(msg)) => {
                // the name as a whole word: `abbogus` does not name the field `bogus`
                if !self.inj.names.iter().any(|n| names_word(&msg, n)) {
                    self.fail(cell, "server-error-does-not-name-field", msg);
                }
            }
        }
    }

    fn client<T: PartialEq + std::fmt::Debug>(
        &mut self,
        cell: &str,
        want: &T,
        f: impl FnOnce() -> Result<T, String>,
    ) {
        self.rep.evaluations += 1;
        self.rep.cell(cell);
        self.rep.distinct.insert(fnv(&self.sig_base(cell)));
        match guarded(f) {
            Err(p) => self.fail(cell, "panic", p),
            Ok(Err(e)) => self.fail(cell, "client-rejected-unknown-field", e),
            Ok(Ok(v)) => {
                if v != *want {
                    self.fail(cell, "client-value-differs", trunc(&format!("{:?}", v)));
                }
            }
        }
    }
}

fn run_one<T>(rep: &mut Report, sub: &str, seed: u64, r: &mut Rng, value: &T, positions: Vec<Pos>)
where
    T: Serialize + DeserializeOwned + PartialEq + std::fmt::Debug,
{
    if positions.is_empty() {
        rep.cell("skipped/no-struct-in-tree");
        return;
    }
    let pos = &positions[r.below(positions.len())];
    let chain: Vec<&str> = pos.chain.iter().rev().take(3).rev().cloned().collect();
    let chain = chain.join(">");

    // ---- JSON
    let text = match json::to_string(value) {
        Ok(t) => t,
        Err(e) => {
            rep.violation(sub, seed, "json/encode-error", json!({"info": e.to_string()}));
            return;
        }
    };
    let mut dom = vcore::json::parse(text.as_bytes()).expect("C01 guarantees standard JSON");
    let base: T = match json::client_from_str(&text) {
        Ok(v) => v,
        Err(e) => {
            rep.violation(sub, seed, "json/baseline-decode-error", json!({"doc": trunc(&text), "info": e.to_string()}));
            return;
        }
    };
    let members = match j_at(&mut dom, &pos.path) {
        Some(m) => m,
        None => {
            rep.violation(sub, seed, "harness/path-miss", json!({"doc": trunc(&text)}));
            return;
        }
    };
    let declared: Vec<String> = members.iter().map(|(k, _)| k.clone()).collect();
    let (ins, inj) = inject(r, &declared, members.len());
    for (at, name, p) in &ins {
        let at = (*at).min(members.len());
        members.insert(at, (name.clone(), p.clone()));
    }
    let doc = vcore::json::render(&dom);
    let bytes = doc.clone().into_bytes();
    let mut env = Env { rep, sub, seed, chain, inj, doc: doc.clone() };
    env.rep.sample(4, || json!({"sub": sub, "case_seed": seed, "format": "json", "document": trunc(&doc)}));
    env.server("json/server/str", || json::server_from_str::<T>(&doc).map_err(|e| e.to_string()));
    env.server("json/server/slice", || json::server_from_slice::<T>(&bytes).map_err(|e| e.to_string()));
    env.server("json/server/reader", || json::server_from_reader::<_, T>(&bytes[..]).map_err(|e| e.to_string()));
    env.client("json/client/str", &base, || json::client_from_str::<T>(&doc).map_err(|e| e.to_string()));
    env.client("json/client/slice", &base, || json::client_from_slice::<T>(&bytes).map_err(|e| e.to_string()));
    env.client("json/client/reader", &base, || json::client_from_reader::<_, T>(&bytes[..]).map_err(|e| e.to_string()));

    // ---- Smile: same injection into the Smile DOM, re-encoded with plain serde_smile
    let sbytes = match smile::to_vec(value) {
        Ok(b) => b,
        Err(e) => {
            env.fail("smile/encode", "encode-error", e.to_string());
            return;
        }
    };
    let sbase: T = match smile::client_from_slice(&sbytes) {
        Ok(v) => v,
        Err(e) => {
            env.fail("smile/baseline", "baseline-decode-error", e.to_string());
            return;
        }
    };
    let mut sdom: S = match serde_smile::from_slice(&sbytes) {
        Ok(d) => d,
        Err(e) => {
            env.fail("smile/baseline", "not-smile", e.to_string());
            return;
        }
    };
    match s_at(&mut sdom, &pos.path) {
        Some(S::Object(m)) => {
            for (at, name, p) in &ins {
                let at = (*at).min(m.len());
                m.shift_insert(at, name.clone(), j_to_s(p));
            }
        }
        _ => {
            env.fail("smile/baseline", "harness-path-miss", String::new());
            return;
        }
    }
    let mut out = vec![];
    {
        let mut ser = serde_smile::Serializer::builder().raw_binary(true).build(&mut out);
        if let Err(e) = sdom.serialize(&mut ser) {
            env.rep.observed_only("smile-reencode-failed");
            let _ = e;
            return;
        }
    }
    env.doc = format!("smile:{}", trunc(&format!("{:?}", sdom)));
    env.server("smile/server/slice", || smile::server_from_slice::<T>(&out).map_err(|e| e.to_string()));
    env.server("smile/server/mut_slice", || {
        let mut b = out.clone();
        smile::server_from_mut_slice::<T>(&mut b).map_err(|e| e.to_string())
    });
    env.server("smile/server/reader", || smile::server_from_reader::<_, T>(&out[..]).map_err(|e| e.to_string()));
    env.client("smile/client/slice", &sbase, || smile::client_from_slice::<T>(&out).map_err(|e| e.to_string()));
    env.client("smile/client/mut_slice", &sbase, || {
        let mut b = out.clone();
        smile::client_from_mut_slice::<T>(&mut b).map_err(|e| e.to_string())
    });
    env.client("smile/client/reader", &sbase, || smile::client_from_reader::<_, T>(&out[..]).map_err(|e| e.to_string()));
}

fn gen_outer(r: &mut Rng) -> Outer {
    let d = r.below(4);
    Outer {
        inner: gen_rec2(r, d),
        items: (0..r.below(3)).map(|_| gen_rec2(r, d)).collect(),
        maybe: if r.bool() { Some(gen_rec2(r, d)) } else { None },
        by_key: (0..r.below(3)).map(|_| (DoubleKey(vcore::text::hostile_f64(r)), gen_rec2(r, d))).collect(),
        alias: Wrap2(gen_rec2(r, d)),
        empty: Empty {},
        empties: (0..r.below(3)).map(|_| Empty {}).collect(),
        maybe_empty: if r.bool() { Some(Empty {}) } else { None },
        single: Single { only: if r.bool() { Some(Empty {}) } else { None } },
    }
}

pub fn run(ctx: &Ctx, report: &mut Report) {
    let depth = if ctx.thorough { 8 } else { 6 };
    ctx.cases(report, "trees", ctx.n(40_000, 2_000_000), |seed, rep| {
        let mut r = Rng::new(seed);
        // bias towards trees that contain a struct: wrap a random tree in a struct half the time
        let d = 1 + r.below(depth);
        let mut n = gen_node(&mut r, d);
        if r.bool() {
            n = Node::Struct(Box::new(Rec {
                first: n,
                opt: if r.bool() { Some(gen_node(&mut r, 2)) } else { None },
                list: (0..r.below(3)).map(|_| gen_node(&mut r, 2)).collect(),
                num: vcore::text::hostile_f64(&mut r),
                id: gen_uuid(&mut r),
            }));
            if r.bool() {
                n = match r.below(6) {
                    0 => Node::Opt(Some(Box::new(n))),
                    1 => Node::List(vec![gen_node(&mut r, 1), n]),
                    2 => Node::Set([n].into_iter().collect()),
                    3 => Node::MapF64([(DoubleKey(vcore::text::hostile_f64(&mut r)), n)].into_iter().collect()),
                    4 => Node::Newtype(Box::new(Wrap(n))),
                    _ => Node::StructVar { x: Box::new(n), y: None },
                };
            }
        }
        let mut positions = vec![];
        rec_paths(&n, &[], &mut vec![], &mut positions);
        run_one(rep, "trees", seed, &mut r, &n, positions);
    });
    // ---- the document root itself is an optional / list / map / newtype of the object (no enclosing object)
    ctx.cases(report, "roots", ctx.n(12_000, 600_000), |seed, rep| {
        let mut r = Rng::new(seed);
        let o = gen_outer(&mut r);
        let prefixed = |o: &Outer, prefix: &[Step], root: &'static str| -> Vec<Pos> {
            outer_paths(o)
                .into_iter()
                .map(|p| Pos { path: with(prefix, &p.path), chain: std::iter::once(root).chain(p.chain.into_iter().filter(|c| *c != "root")).collect() })
                .collect()
        };
        match r.below(5) {
            0 => {
                let pos = prefixed(&o, &[], "root-option");
                run_one(rep, "roots", seed, &mut r, &Some(o), pos);
            }
            1 => {
                let pos = prefixed(&o, &[Step::Idx(1)], "root-list");
                let first = gen_outer(&mut r);
                run_one(rep, "roots", seed, &mut r, &vec![first, o], pos);
            }
            2 => {
                let pos = prefixed(&o, &[Step::Member(0)], "root-map");
                let m: std::collections::BTreeMap<String, Outer> = [("k".to_string(), o)].into_iter().collect();
                run_one(rep, "roots", seed, &mut r, &m, pos);
            }
            3 => {
                let pos = prefixed(&o, &[Step::Idx(0)], "root-option-list");
                run_one(rep, "roots", seed, &mut r, &Some(vec![o]), pos);
            }
            _ => {
                let pos = prefixed(&o, &[Step::Member(0)], "root-map-f64");
                let m: std::collections::BTreeMap<DoubleKey, Option<Outer>> = [(DoubleKey(vcore::text::hostile_f64(&mut r)), Some(o))].into_iter().collect();
                run_one(rep, "roots", seed, &mut r, &m, pos);
            }
        }
    });
    ctx.cases(report, "direct", ctx.n(20_000, 1_000_000), |seed, rep| {
        let mut r = Rng::new(seed);
        let o = gen_outer(&mut r);
        let positions = outer_paths(&o);
        run_one(rep, "direct", seed, &mut r, &o, positions);
    });
    if ctx.replay.is_none() {
        report.floor_cells("json-cells", "json/", 6);
        report.floor_cells("smile-cells", "smile/", 6);
        let d = report.distinct.len() as u64;
        report.floor("distinct-contexts", if ctx.scale >= 1.0 { 3000 } else { 50 }, d);
    }
    report.observed_only.entry("struct-variant-and-tuple-positions(not injected)".into()).or_insert(0);
    report.notes.push(
        "distinct = distinct (format/side/source cell, container chain above the struct (last 4), injected payload kinds, position)".into(),
    );
}

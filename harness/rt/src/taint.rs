//! Shared engine of C09 (taint canaries in safe-to-log channels) and C19 (undecodable parameters
//! yield a client error naming the declared argument).
//!
//! Requests are rendered by the harness from a declarative description of each endpoint's wire
//! shape (taken from the definition the endpoints were generated from), every argument carries a
//! fresh canary, any subset of arguments may be corrupted, and the request is delivered straight
//! to the real endpoint. Observed: handler events, the `SafeParams` response extension, and the
//! returned error (kind, code, safe params, cause when flagged safe).
use crate::ctx::{guarded, Ctx};
use crate::hand;
use crate::node::trunc;
use crate::svc::*;
use conjure_error::{Error, ErrorKind};
use conjure_http::PathParams;
use http::{HeaderMap, HeaderName, HeaderValue, Method, Request};
use labrt::{block_on, route, ChunkStream, Chunks};
use serde_json::json;
use std::sync::Arc;
use vcore::json::J;
use vcore::rng::fnv;
use vcore::text::alnum;
use vcore::{Report, Rng};

#[derive(Clone, Copy, PartialEq, Debug)]
pub enum Mode {
    C09,
    C19,
}

#[derive(Clone, Copy, PartialEq, Debug)]
enum Ty {
    Str,
    Int,
    Rid,
    Bool,
    Uuid,
    Enum,
    Dbl,
    Time,
    Long,
    OptInt,
    OptStr,
    OptEnum,
    OptUuid,
    OptTime,
    OptDbl,
    OptToken,
    ListStr,
    ListInt,
    SetStr,
    SetEnum,
    /// JSON bodies
    SafeItem,
    Item,
    IntBody,
}

#[derive(Clone, Copy, PartialEq, Debug)]
enum Loc {
    Path,
    Query(&'static str),
    Header(&'static str),
    Body,
    AuthHeader,
    AuthCookie(&'static str),
}

#[derive(Clone, Copy, Debug)]
struct Arg {
    /// declared name (Conjure argName, or the macro's log_as / argument name)
    name: &'static str,
    loc: Loc,
    ty: Ty,
    safe: bool,
}

struct Ep {
    name: &'static str,
    hand: bool,
    method: Method,
    /// path template; `{}` placeholders are filled with the Path arguments in order
    template: &'static str,
    /// in evaluation (declaration) order
    args: Vec<Arg>,
}

const fn a(name: &'static str, loc: Loc, ty: Ty, safe: bool) -> Arg {
    Arg { name, loc, ty, safe }
}

fn endpoints() -> Vec<Ep> {
    use Loc::*;
    use Ty::*;
    vec![
        Ep { name: "safeMix", hand: false, method: Method::POST, template: "/sink/mix/{}/{}/{}/{}", args: vec![
            a("auth", AuthHeader, Str, false),
            a("safePath", Path, Str, true), a("unsafePath", Path, Str, false), a("dnlPath", Path, Str, false), a("type", Path, Int, true),
            a("legacySafeQuery", Query("legacySafeQuery"), Str, true), a("taggedSafeQuery", Query("taggedSafeQuery"), OptStr, true),
            a("plainQuery", Query("plainQuery"), Str, false), a("safeAliasQuery", Query("safeAliasQuery"), Str, true),
            a("plainAliasQuery", Query("plainAliasQuery"), Str, false), a("enumQuery", Query("enumQuery"), Enum, true),
            a("safeHeader", Header("safe-header"), Str, true), a("unsafeHeader", Header("unsafe-header"), Str, false),
            a("match", Header("match-header"), OptInt, true), a("safeBody", Body, SafeItem, true),
        ]},
        Ep { name: "pathParams", hand: false, method: Method::GET, template: "/sink/path/{}/lit/{}/{}", args: vec![
            a("strArg", Path, Str, false), a("intArg", Path, Int, true), a("ridArg", Path, Rid, false),
        ]},
        Ep { name: "pathMore", hand: false, method: Method::GET, template: "/sink/more/{}/{}/{}/{}/{}/{}/{}", args: vec![
            a("dbl", Path, Dbl, false), a("flag", Path, Bool, false), a("when", Path, Time, false), a("uid", Path, Uuid, false),
            a("flavor", Path, Enum, true), a("name", Path, Str, true), a("long", Path, Long, false),
        ]},
        Ep { name: "queryParams", hand: false, method: Method::GET, template: "/sink/query", args: vec![
            a("text", Query("text"), Str, false), a("maybeNum", Query("maybe-num"), OptInt, false), a("strList", Query("strList"), ListStr, false),
            a("strSet", Query("str_set"), SetStr, false), a("flag", Query("flag"), Bool, true), a("dbl", Query("dbl"), Dbl, false),
            a("uid", Query("uid"), OptUuid, false), a("nums", Query("nums"), ListInt, true), a("flavors", Query("flavors"), SetEnum, true),
            a("aliasOpt", Query("aliasOpt"), OptInt, false), a("aliasList", Query("aliasList"), ListStr, false), a("when", Query("when"), OptTime, false),
        ]},
        Ep { name: "headers", hand: false, method: Method::GET, template: "/sink/headers", args: vec![
            a("strHeader", Header("str-header"), Str, false), a("maybeInt", Header("maybe-int"), OptInt, true), a("ridHeader", Header("rid-header"), Rid, false),
            a("flavorHeader", Header("flavor-header"), OptEnum, true), a("tokenHeader", Header("token-header"), OptToken, false),
            a("aliasHeader", Header("alias-header"), OptInt, false), a("dblHeader", Header("dbl-header"), OptDbl, false),
        ]},
        Ep { name: "headerAuth", hand: false, method: Method::GET, template: "/sink/headerAuth/{}", args: vec![
            a("auth", AuthHeader, Str, false), a("what", Path, Str, false),
        ]},
        Ep { name: "cookieAuth", hand: false, method: Method::POST, template: "/sink/cookieAuth", args: vec![
            a("auth", AuthCookie("SINK_TOKEN"), Str, false), a("body", Body, IntBody, true),
        ]},
        Ep { name: "unsafeBody", hand: false, method: Method::POST, template: "/sink/unsafeBody/{}", args: vec![
            a("auth", AuthCookie("MIX_COOKIE"), Str, false), a("safeId", Path, Int, true), a("secretBody", Body, Item, false),
        ]},
        // macro-declared endpoints: declared name = log_as, or the argument name when none is given
        Ep { name: "paths", hand: true, method: Method::GET, template: "/hand/a%20b/{}/c%25d/{}", args: vec![
            a("firstParam", Path, Str, false), a("second", Path, Int, true),
        ]},
        Ep { name: "query", hand: true, method: Method::GET, template: "/hand/query", args: vec![
            a("a", Query("k&1"), Str, true), a("list", Query("k=2"), ListStr, false), a("unicodeKey", Query("ключ"), Str, false),
        ]},
        Ep { name: "body", hand: true, method: Method::POST, template: "/hand/body/{}", args: vec![
            a("auth", AuthHeader, Str, false), a("id", Path, Str, true), a("customHeader", Header("x-custom"), Str, false), a("theBody", Body, Item, false),
        ]},
    ]
}

/// A generated argument value: wire texts, canaries to look for, expected JSON of the decoded value.
#[derive(Clone, Debug)]
struct Val {
    /// one text per occurrence on the wire (0 = absent optional / empty collection)
    texts: Vec<String>,
    canaries: Vec<String>,
    /// JSON the decoded value serialises to (what SafeParams must hold for a safe argument)
    json: String,
}

fn q(s: &str) -> String {
    let mut o = String::new();
    vcore::json::quote(s, &mut o);
    o
}

fn canary(r: &mut Rng) -> String {
    format!("cnry{}", alnum(r, 12))
}

fn num9(r: &mut Rng) -> i64 {
    r.range(100_000_000, 999_999_999)
}

const FLAVORS: &[&str] = &["SWEET", "SOUR", "DARK_BITTER"];

fn gen_val(r: &mut Rng, ty: Ty) -> Val {
    use Ty::*;
    let one = |t: String, c: Vec<String>, j: String| Val { texts: vec![t], canaries: c, json: j };
    let opt = |r: &mut Rng, inner: Ty| {
        if r.chance(1, 3) {
            Val { texts: vec![], canaries: vec![], json: "null".into() }
        } else {
            gen_val(r, inner)
        }
    };
    match ty {
        Str => {
            // also text with characters that are structure in a URI (they travel percent-encoded and must arrive as they are)
            let c = canary(r);
            let s = if r.chance(1, 3) { format!("{}{}", c, r.pick(&["/x", "/", " y", "%2F", "a+b", "?q", "#f", "&k=v", "/a/b"])) } else { c.clone() };
            one(s.clone(), vec![c], q(&s))
        }
        Int => {
            let n = num9(r);
            one(n.to_string(), vec![n.to_string()], n.to_string())
        }
        Long => {
            let n = r.range(100_000_000_000, 999_999_999_999);
            one(n.to_string(), vec![n.to_string()], n.to_string())
        }
        Rid => {
            let loc = canary(r);
            let s = format!("ri.svc.inst.kind.{}", loc);
            one(s.clone(), vec![loc], q(&s))
        }
        Bool => {
            let b = r.bool();
            one(b.to_string(), vec![], b.to_string())
        }
        Uuid => {
            let u = crate::node::gen_uuid(r).to_string();
            one(u.clone(), vec![u.clone()], q(&u))
        }
        Enum => {
            let f = *r.pick(FLAVORS);
            one(f.to_string(), vec![], q(f))
        }
        Dbl => {
            let n = num9(r);
            one(format!("{}.5", n), vec![n.to_string()], format!("{}.5", n))
        }
        Time => one("2020-02-03T04:05:06Z".into(), vec![], "\"2020-02-03T04:05:06Z\"".into()),
        OptInt => opt(r, Int),
        OptStr => opt(r, Str),
        OptEnum => opt(r, Enum),
        OptUuid => opt(r, Uuid),
        OptTime => opt(r, Time),
        OptDbl => opt(r, Dbl),
        OptToken => {
            // token characters only
            if r.chance(1, 3) {
                Val { texts: vec![], canaries: vec![], json: "null".into() }
            } else {
                let s = canary(r);
                one(s.clone(), vec![s.clone()], q(&s))
            }
        }
        ListStr | SetStr => {
            let mut items: Vec<String> = (0..r.below(4)).map(|_| canary(r)).collect();
            if ty == SetStr {
                items.sort();
            }
            let wire = if ty == SetStr && r.bool() { items.iter().rev().cloned().collect() } else { items.clone() };
            Val { texts: wire, canaries: items.clone(), json: format!("[{}]", items.iter().map(|s| q(s)).collect::<Vec<_>>().join(",")) }
        }
        ListInt => {
            let items: Vec<i64> = (0..r.below(4)).map(|_| num9(r)).collect();
            Val { texts: items.iter().map(|n| n.to_string()).collect(), canaries: items.iter().map(|n| n.to_string()).collect(), json: format!("[{}]", items.iter().map(|n| n.to_string()).collect::<Vec<_>>().join(",")) }
        }
        SetEnum => {
            let mut items: Vec<&str> = FLAVORS.iter().filter(|_| r.bool()).cloned().collect();
            // BTreeSet<Flavor> orders by variant declaration
            items.sort_by_key(|f| FLAVORS.iter().position(|x| x == f));
            Val { texts: items.iter().map(|s| s.to_string()).collect(), canaries: vec![], json: format!("[{}]", items.iter().map(|s| q(s)).collect::<Vec<_>>().join(",")) }
        }
        SafeItem => {
            let n = num9(r);
            let f = *r.pick(FLAVORS);
            let doc = format!("{{\"code\":{},\"flavor\":\"{}\"}}", n, f);
            one(doc.clone(), vec![n.to_string()], doc)
        }
        Item => {
            let l = canary(r);
            let t = canary(r);
            let doc = format!("{{\"label\":{},\"type\":{}}}", q(&l), q(&t));
            one(doc.clone(), vec![l, t], doc)
        }
        IntBody => {
            let n = num9(r);
            one(n.to_string(), vec![n.to_string()], n.to_string())
        }
    }
}

fn single_valued(ty: Ty) -> bool {
    !matches!(ty, Ty::ListStr | Ty::ListInt | Ty::SetStr | Ty::SetEnum)
}

fn optional(ty: Ty) -> bool {
    matches!(ty, Ty::OptInt | Ty::OptStr | Ty::OptEnum | Ty::OptUuid | Ty::OptTime | Ty::OptDbl | Ty::OptToken)
}

/// Types for which some text is not parsable.
fn typed(ty: Ty) -> bool {
    !matches!(ty, Ty::Str | Ty::OptStr | Ty::ListStr | Ty::SetStr)
}

#[derive(Clone, Copy, PartialEq, Debug)]
enum Corruption {
    Absent,
    Repeated,
    Unparsable,
    NotText,
    /// path arguments only: the router hands over a captured value of several segments (`{param:.+}`-style routing)
    ExtraSegment,
    AuthMissing,
    AuthWrongPrefix,
    AuthBadChars,
    AuthNonAscii,
    /// the bare token without any scheme / cookie name
    AuthBare,
    /// the token under another scheme (no space) or another cookie name
    AuthOtherName,
    BodyMalformed,
    BodyUnknownMember,
    BodyWrongType,
    BodyNoContentType,
}

fn corruptions_for(arg: &Arg) -> Vec<Corruption> {
    use Corruption::*;
    match arg.loc {
        Loc::Path => {
            if typed(arg.ty) {
                vec![Unparsable, NotText, ExtraSegment]
            } else {
                vec![NotText, ExtraSegment]
            }
        }
        Loc::Query(_) => {
            let mut v = vec![NotText];
            if single_valued(arg.ty) && !optional(arg.ty) {
                v.push(Absent);
            }
            if single_valued(arg.ty) {
                v.push(Repeated);
            }
            if typed(arg.ty) {
                v.push(Unparsable);
            }
            v
        }
        Loc::Header(_) => {
            let mut v = vec![NotText, Repeated];
            if !optional(arg.ty) {
                v.push(Absent);
            }
            if typed(arg.ty) {
                v.push(Unparsable);
            }
            v
        }
        Loc::AuthHeader | Loc::AuthCookie(_) => vec![AuthMissing, AuthWrongPrefix, AuthBadChars, AuthNonAscii, AuthBare, AuthOtherName],
        Loc::Body => vec![BodyMalformed, BodyUnknownMember, BodyWrongType, BodyNoContentType],
    }
}

/// U+E000 in a value stands for the raw byte 0xFF (percent-encoded as %FF): text that is not valid UTF-8.
const RAW_FF: char = '\u{e000}';

fn pct(s: &str) -> String {
    if s.contains(RAW_FF) {
        return s.split(RAW_FF).map(pct).collect::<Vec<_>>().join("%FF");
    }
    let mut o = String::new();
    for b in s.bytes() {
        if b.is_ascii_alphanumeric() || b"-._~".contains(&b) {
            o.push(b as char);
        } else {
            o.push_str(&format!("%{:02X}", b));
        }
    }
    o
}

struct Rendered {
    uri: String,
    headers: HeaderMap,
    body: Vec<u8>,
    /// canaries of non-safe arguments (and of the token), whatever was sent for them
    tainted: Vec<String>,
    /// (declared name, expected JSON) of safe arguments that were sent uncorrupted
    safe_expected: Vec<(&'static str, String)>,
    /// declared names of corrupted path/query/header arguments, auth corrupted?, body corrupted?
    bad_params: Vec<&'static str>,
    /// untyped (string) path / query arguments given text that is not valid UTF-8: ("path" | "query", name)
    lossy: Vec<(&'static str, &'static str)>,
    /// indices (in path-template order) of path arguments whose captured value gets a further raw segment after routing
    extra_segments: Vec<usize>,
    bad_auth: bool,
    bad_body: bool,
    corruption_sig: String,
}

fn render(r: &mut Rng, ep: &Ep, corrupt: bool) -> Rendered {
    let mut headers = HeaderMap::new();
    let mut path_vals = vec![];
    let mut query = vec![];
    let mut body = vec![];
    let mut out = Rendered { uri: String::new(), headers: HeaderMap::new(), body: vec![], tainted: vec![], safe_expected: vec![], bad_params: vec![], lossy: vec![], extra_segments: vec![], bad_auth: false, bad_body: false, corruption_sig: String::new() };
    // choose which arguments to corrupt: usually one, sometimes several
    let mut chosen: Vec<(usize, Corruption)> = vec![];
    if corrupt {
        let candidates: Vec<(usize, Vec<Corruption>)> = ep.args.iter().enumerate().map(|(i, a)| (i, corruptions_for(a))).filter(|(_, c)| !c.is_empty()).collect();
        let n = if r.chance(1, 4) { 2 + r.below(2) } else { 1 };
        for _ in 0..n.min(candidates.len()) {
            let (i, cs) = r.pick(&candidates);
            if !chosen.iter().any(|(j, _)| j == i) {
                chosen.push((*i, *r.pick(cs)));
            }
        }
    }
    let mut has_body = false;
    for (i, arg) in ep.args.iter().enumerate() {
        let c = chosen.iter().find(|(j, _)| *j == i).map(|(_, c)| *c);
        // '!' makes the text unparsable for every typed parameter (also for bearer tokens)
        let bad = format!("!{}", canary(r));
        let mut note_taint = |out: &mut Rendered, cs: &[String]| {
            if !arg.safe {
                out.tainted.extend(cs.iter().cloned());
            }
        };
        match arg.loc {
            Loc::AuthHeader | Loc::AuthCookie(_) => {
                let tok = canary(r);
                let (name, prefix) = match arg.loc {
                    Loc::AuthCookie(c) => (http::header::COOKIE, format!("{}=", c)),
                    _ => (http::header::AUTHORIZATION, "Bearer ".to_string()),
                };
                out.tainted.push(tok.clone());
                let value: Option<Vec<u8>> = match c {
                    None => Some(format!("{}{}", prefix, tok).into_bytes()),
                    Some(Corruption::AuthMissing) => None,
                    Some(Corruption::AuthWrongPrefix) => Some(format!("Basic {}", tok).into_bytes()),
                    Some(Corruption::AuthBadChars) => Some(format!("{}{} !{}", prefix, tok, bad).into_bytes()),
                    Some(Corruption::AuthBare) => Some(tok.clone().into_bytes()),
                    Some(Corruption::AuthOtherName) => Some(
                        match arg.loc {
                            Loc::AuthCookie(_) => format!("OTHER_COOKIE={}", tok),
                            _ => format!("Token={}", tok),
                        }
                        .into_bytes(),
                    ),
                    _ => Some([format!("{}{}", prefix, tok).as_bytes(), b"\xff\xfe"].concat()),
                };
                if c.is_some() {
                    out.bad_auth = true;
                    out.tainted.push(bad.clone());
                }
                if let Some(v) = value {
                    headers.insert(name, HeaderValue::from_bytes(&v).expect("header bytes"));
                }
            }
            Loc::Path => {
                let v = gen_val(r, arg.ty);
                match c {
                    Some(Corruption::NotText) => {
                        out.bad_params.push(arg.name);
                        if !typed(arg.ty) {
                            out.lossy.push(("path", arg.name));
                        }
                        if typed(arg.ty) || !arg.safe {
                            note_taint(&mut out, &[bad.clone()]);
                        }
                        path_vals.push(format!("{}{}", bad, RAW_FF));
                    }
                    Some(Corruption::ExtraSegment) => {
                        // a valid first segment; the second one is appended to the captured value after routing
                        out.bad_params.push(arg.name);
                        note_taint(&mut out, &v.canaries);
                        out.extra_segments.push(path_vals.len());
                        path_vals.push(v.texts[0].clone());
                    }
                    Some(_) => {
                        out.bad_params.push(arg.name);
                        note_taint(&mut out, &[bad.clone()]);
                        path_vals.push(bad.clone());
                    }
                    None => {
                        note_taint(&mut out, &v.canaries);
                        if arg.safe {
                            out.safe_expected.push((arg.name, v.json.clone()));
                        }
                        path_vals.push(v.texts[0].clone());
                    }
                }
            }
            Loc::Query(key) => {
                let v = gen_val(r, arg.ty);
                note_taint(&mut out, &v.canaries);
                match c {
                    None => {
                        if arg.safe {
                            out.safe_expected.push((arg.name, v.json.clone()));
                        }
                        for t in &v.texts {
                            query.push((key, t.clone()));
                        }
                    }
                    Some(Corruption::Absent) => out.bad_params.push(arg.name),
                    Some(Corruption::Repeated) => {
                        out.bad_params.push(arg.name);
                        let extra = gen_val(r, arg.ty);
                        note_taint(&mut out, &extra.canaries);
                        let first = v.texts.first().cloned().unwrap_or_else(|| "1".into());
                        let second = extra.texts.first().cloned().unwrap_or_else(|| first.clone());
                        query.push((key, first));
                        query.push((key, second));
                    }
                    Some(Corruption::NotText) => {
                        out.bad_params.push(arg.name);
                        if !typed(arg.ty) {
                            out.lossy.push(("query", arg.name));
                        }
                        if typed(arg.ty) || !arg.safe {
                            note_taint(&mut out, &[bad.clone()]);
                        }
                        query.push((key, format!("{}{}", bad, RAW_FF)));
                    }
                    Some(_) => {
                        out.bad_params.push(arg.name);
                        note_taint(&mut out, &[bad.clone()]);
                        query.push((key, bad.clone()));
                    }
                }
            }
            Loc::Header(hname) => {
                let v = gen_val(r, arg.ty);
                note_taint(&mut out, &v.canaries);
                let hn = HeaderName::from_static(hname);
                match c {
                    None => {
                        if arg.safe {
                            out.safe_expected.push((arg.name, v.json.clone()));
                        }
                        for t in &v.texts {
                            headers.append(hn.clone(), HeaderValue::from_str(t).expect("ascii"));
                        }
                    }
                    Some(Corruption::Absent) => out.bad_params.push(arg.name),
                    Some(Corruption::Repeated) => {
                        out.bad_params.push(arg.name);
                        let first = v.texts.first().cloned().unwrap_or_else(|| "1".into());
                        headers.append(hn.clone(), HeaderValue::from_str(&first).expect("ascii"));
                        headers.append(hn.clone(), HeaderValue::from_str(&first).expect("ascii"));
                    }
                    Some(Corruption::NotText) => {
                        out.bad_params.push(arg.name);
                        note_taint(&mut out, &[bad.clone()]);
                        headers.append(hn.clone(), HeaderValue::from_bytes(&[bad.as_bytes(), b"\xff"].concat()).expect("bytes"));
                    }
                    Some(_) => {
                        out.bad_params.push(arg.name);
                        note_taint(&mut out, &[bad.clone()]);
                        headers.append(hn.clone(), HeaderValue::from_str(&bad).expect("ascii"));
                    }
                }
            }
            Loc::Body => {
                has_body = true;
                let v = gen_val(r, arg.ty);
                note_taint(&mut out, &v.canaries);
                let doc = v.texts[0].clone();
                let mut ct = true;
                match c {
                    None => {
                        if arg.safe {
                            out.safe_expected.push((arg.name, v.json.clone()));
                        }
                        body = doc.into_bytes();
                    }
                    Some(Corruption::BodyMalformed) => {
                        out.bad_body = true;
                        note_taint(&mut out, &[bad.clone()]);
                        body = format!("{}{}", &doc[..doc.len() - 1], bad).into_bytes();
                    }
                    Some(Corruption::BodyUnknownMember) if doc.starts_with('{') => {
                        out.bad_body = true;
                        note_taint(&mut out, &[bad.clone()]);
                        body = format!("{},{}:{}}}", &doc[..doc.len() - 1], q(&bad), q(&bad)).into_bytes();
                    }
                    Some(Corruption::BodyNoContentType) => {
                        out.bad_body = true;
                        ct = false;
                        body = doc.into_bytes();
                    }
                    Some(_) => {
                        out.bad_body = true;
                        note_taint(&mut out, &[bad.clone()]);
                        body = if doc.starts_with('{') { q(&bad).into_bytes() } else { format!("{{\"a\":{}}}", q(&bad)).into_bytes() };
                    }
                }
                if ct {
                    headers.insert(http::header::CONTENT_TYPE, HeaderValue::from_static("application/json"));
                }
            }
        }
        if let Some(c) = c {
            out.corruption_sig.push_str(&format!("{:?}@{:?};", c, std::mem::discriminant(&arg.loc)));
        }
    }
    let _ = has_body;
    let mut uri = String::new();
    let mut it = path_vals.iter();
    for part in ep.template.split("{}") {
        uri.push_str(part);
        if let Some(v) = it.next() {
            if uri.ends_with('/') {
                uri.push_str(&pct(v));
            }
        }
    }
    // template.split leaves one extra iteration; values are consumed in order
    if !query.is_empty() {
        uri.push('?');
        uri.push_str(&query.iter().map(|(k, v)| format!("{}={}", pct(k), pct(v))).collect::<Vec<_>>().join("&"));
    }
    out.uri = uri;
    out.headers = headers;
    out.body = body;
    out
}

struct Observed {
    result: Result<Result<(), Error>, String>,
    calls: Vec<Call>,
    safe_params: Vec<(String, String)>,
}

fn deliver(ep: &Ep, rq: &Rendered, chunks: Chunks, is_async: bool) -> Observed {
    let rec = Arc::new(Recorder::default());
    let uri: http::Uri = rq.uri.parse().unwrap_or_else(|e| panic!("harness rendered a bad uri {}: {}", rq.uri, e));
    fn mk<B>(ep: &Ep, uri: &http::Uri, headers: &HeaderMap, params: PathParams, body: B) -> Request<B> {
        let mut req = Request::new(body);
        *req.method_mut() = ep.method.clone();
        *req.uri_mut() = uri.clone();
        *req.headers_mut() = headers.clone();
        req.extensions_mut().insert(params);
        req
    }
    let mut ext = http::Extensions::new();
    let result = if !is_async {
        let endpoints = if ep.hand { hand::sync_endpoints(hand::HandHandler { rec: rec.clone() }) } else { sync_endpoints(Handler { rec: rec.clone() }) };
        let metas: Vec<&(dyn conjure_http::server::Endpoint<Chunks, Vec<u8>> + Sync + Send)> = endpoints.iter().map(|e| &**e).collect();
        let mut routed = route(&metas, &ep.method, uri.path());
        assert_eq!(routed.len(), 1, "route {} {}", ep.name, rq.uri);
        let mut r = routed.pop().unwrap();
        widen_captures(&mut r, &rq.extra_segments);
        let e = &endpoints[r.index];
        guarded(|| e.handle(mk(ep, &uri, &rq.headers, r.params, chunks), &mut ext).map(|_| ()))
    } else {
        let endpoints = if ep.hand { hand::async_endpoints(hand::HandHandler { rec: rec.clone() }) } else { async_endpoints(Handler { rec: rec.clone() }) };
        let metas: Vec<&conjure_http::server::BoxAsyncEndpoint<'static, ChunkStream, Vec<u8>>> = endpoints.iter().collect();
        let mut routed = route(&metas, &ep.method, uri.path());
        assert_eq!(routed.len(), 1, "route {} {}", ep.name, rq.uri);
        let mut r = routed.pop().unwrap();
        widen_captures(&mut r, &rq.extra_segments);
        let e = &endpoints[r.index];
        guarded(|| {
            use conjure_http::server::AsyncEndpoint;
            block_on(async { e.handle(mk(ep, &uri, &rq.headers, r.params, ChunkStream::new(chunks)), &mut ext).await.map(|_| ()) })
        })
    };
    Observed { result, calls: rec.take(), safe_params: labrt::loopback::safe_params_vec(&ext) }
}

/// What a router with multi-segment captures would hand over: a further raw segment after the captured value.
fn widen_captures(r: &mut labrt::Routed, which: &[usize]) {
    for i in which {
        if let Some((name, raw)) = r.captured.get(*i).cloned() {
            r.params.insert(name, format!("{}/zz", raw));
        }
    }
}

fn cause_chain(e: &Error) -> String {
    let mut s = e.cause().to_string();
    let mut src = e.cause().source();
    while let Some(x) = src {
        s.push_str(" / ");
        s.push_str(&x.to_string());
        src = x.source();
    }
    s
}

fn case(seed: u64, rep: &mut Report, mode: Mode) {
    let eps = endpoints();
    let mut r = Rng::new(seed);
    let ep = r.pick(&eps);
    let corrupt = r.chance(2, 3);
    let rq = render(&mut r, ep, corrupt);
    let is_async = r.bool();
    let chunks = Chunks::of(labrt::random_chunking(&mut r, &rq.body));
    let sub = if mode == Mode::C09 { "canaries" } else { "corruptions" };
    let o = deliver(ep, &rq, chunks, is_async);
    let flavour = if is_async { "async" } else { "blocking" };
    let corrupted = !rq.bad_params.is_empty() || rq.bad_auth || rq.bad_body;
    rep.evaluations += 1;
    rep.cell(&format!("{}/{}/{}", flavour, ep.name, if corrupted { "corrupted" } else { "valid" }));
    rep.distinct.insert(fnv(&format!("{}|{}|{}|{}", mode as u8, flavour, ep.name, rq.corruption_sig)));
    let hdrs: Vec<(String, String)> = rq.headers.iter().map(|(k, v)| (k.to_string(), String::from_utf8_lossy(v.as_bytes()).to_string())).collect();
    let detail = |what: &str, info: serde_json::Value| {
        json!({"endpoint": ep.name, "flavour": flavour, "what": what, "uri": rq.uri, "headers": hdrs, "body": trunc(&String::from_utf8_lossy(&rq.body)),
               "corrupted_params": rq.bad_params, "auth_corrupted": rq.bad_auth, "body_corrupted": rq.bad_body, "corruptions": rq.corruption_sig,
               "safe_params": o.safe_params, "handler_events": o.calls.len(), "info": info})
    };
    rep.sample(6, || json!({"sub": sub, "case_seed": seed, "case": detail("sample", json!(null))}));
    let res = match &o.result {
        Err(p) => {
            rep.violation(sub, seed, format!("{}:panic", ep.name), detail("panic", json!(p)));
            return;
        }
        Ok(x) => x,
    };
    match mode {
        Mode::C09 => {
            // ---- negative half: no canary of a non-safe argument (or of the token) in a safe channel
            let mut channels: Vec<(&str, String)> = vec![("SafeParams", o.safe_params.iter().map(|(k, v)| format!("{}={}", k, v)).collect::<Vec<_>>().join("\u{1}"))];
            if let Err(e) = res {
                let sp: Vec<String> = e.safe_params().iter().map(|(k, v)| format!("{}={}", k, j(v))).collect();
                channels.push(("error.safe_params", sp.join("\u{1}")));
                if e.cause_safe() {
                    channels.push(("error.cause(safe)", cause_chain(e)));
                }
            }
            for (chan, text) in &channels {
                rep.cell(&format!("channel/{}", chan));
                for c in &rq.tainted {
                    if text.contains(c.as_str()) {
                        rep.violation(sub, seed, format!("leak:{}:{}", ep.name, chan), detail("non-safe data in a safe channel", json!({"channel": chan, "canary": c, "text": trunc(text)})));
                        return;
                    }
                }
            }
            // ---- SafeParams may only hold declared-safe arguments, with their values
            for (k, v) in &o.safe_params {
                match ep.args.iter().find(|a| a.name == k.as_str()) {
                    Some(a) if a.safe => {
                        if let Some((_, want)) = rq.safe_expected.iter().find(|(n, _)| n == k) {
                            let same = match (vcore::json::parse(v.as_bytes()), vcore::json::parse(want.as_bytes())) {
                                (Ok(x), Ok(y)) => vcore::json::equiv(&x, &y) || set_equiv(&x, &y),
                                _ => false,
                            };
                            if !same {
                                rep.violation(sub, seed, format!("safe-param-value-differs:{}:{}", ep.name, k), detail("value", json!({"name": k, "got": v, "want": want})));
                                return;
                            }
                        }
                    }
                    _ => {
                        rep.violation(sub, seed, format!("safe-param-not-declared-safe:{}:{}", ep.name, k), detail("undeclared", json!(k)));
                        return;
                    }
                }
            }
            // ---- decode failures: arguments are decoded one after the other, so of two declared-safe arguments A and B at
            // least one direction holds: B is recorded when only A fails, or A is recorded when only B fails. The
            // observations are collected per (endpoint, flavour) and confronted after the run (see `run`).
            if res.is_err() && rq.bad_params.len() == 1 && !rq.bad_auth && !rq.bad_body && o.calls.is_empty() {
                let x = rq.bad_params[0];
                if ep.args.iter().any(|a| a.name == x && a.safe) {
                    for (n, _) in &rq.safe_expected {
                        let present = o.safe_params.iter().any(|(k, _)| k == n);
                        rep.cell(&format!("order/{}/{}/{}/{}/{}", flavour, ep.name, x, n, if present { "present" } else { "absent" }));
                    }
                }
            }
            // ---- positive half: on success every safe argument is there under its declared name
            if res.is_ok() && !corrupted {
                for (n, _) in &rq.safe_expected {
                    if !o.safe_params.iter().any(|(k, _)| k == n) {
                        rep.violation(sub, seed, format!("safe-param-missing:{}:{}", ep.name, n), detail("missing", json!(n)));
                        return;
                    }
                }
                rep.cell("positive/all-safe-args-present");
            }
        }
        Mode::C19 => {
            if !corrupted {
                if res.is_err() || o.calls.len() != 1 {
                    let info = res.as_ref().err().map(|e| format!("{} / {}", labrt::error_class(e), e.cause())).unwrap_or_default();
                    rep.violation(sub, seed, format!("{}:valid-request-rejected", ep.name), detail("error without corruption", json!(info)));
                }
                return;
            }
            if !o.calls.is_empty() {
                let only_lossy = !rq.bad_auth && !rq.bad_body && rq.bad_params.iter().all(|p| rq.lossy.iter().any(|(_, n)| n == p));
                if only_lossy {
                    // one signature per location kind: string arguments whose text is not valid UTF-8 are decoded lossily
                    let mut kinds: Vec<&str> = rq.lossy.iter().map(|(k, _)| *k).collect();
                    kinds.sort();
                    kinds.dedup();
                    rep.violation(sub, seed, format!("handler-invoked:string-argument-not-valid-text:{}", kinds.join("+")),
                        detail("handler ran with a lossily decoded (U+FFFD) string argument although its text is not valid UTF-8", json!(null)));
                    return;
                }
                rep.violation(sub, seed, format!("{}:handler-invoked:{}", ep.name, rq.corruption_sig), detail("handler ran although an argument is undecodable", json!(null)));
                return;
            }
            let e = match res {
                Ok(()) => {
                    rep.violation(sub, seed, format!("{}:no-error", ep.name), detail("no error", json!(null)));
                    return;
                }
                Err(e) => e,
            };
            let code = match e.kind() {
                ErrorKind::Service(s) => format!("{:?}", s.error_code()),
                _ => {
                    rep.violation(sub, seed, format!("{}:not-a-service-error", ep.name), detail("kind", json!(labrt::error_class(e))));
                    return;
                }
            };
            let param: Option<String> = e.safe_params().iter().find(|(k, _)| *k == "param").map(|(_, v)| j(v));
            let param_ok = rq.bad_params.iter().any(|p| param.as_deref() == Some(q(p).as_str()));
            // which failure classes could legitimately have been reported first
            let mut admissible = vec![];
            if !rq.bad_params.is_empty() {
                admissible.push("InvalidArgument+param");
            }
            if rq.bad_auth {
                admissible.push("PermissionDenied");
            }
            if rq.bad_body {
                admissible.push("InvalidArgument(body)");
            }
            let ok = match code.as_str() {
                "PermissionDenied" => rq.bad_auth,
                "InvalidArgument" => param_ok || (rq.bad_body && (param.is_none() || param_is_body(ep, &param))),
                _ => false,
            };
            rep.cell(&format!("code/{}", code));
            if !ok {
                let kind = if code == "InvalidArgument" && !rq.bad_params.is_empty() { "wrong-param-name" } else { "wrong-code" };
                let loc = ep.args.iter().find(|a| rq.bad_params.contains(&a.name)).map(|a| match a.loc {
                    Loc::Path => "path",
                    Loc::Query(_) => "query",
                    Loc::Header(_) => "header",
                    _ => "other",
                }).unwrap_or("none");
                rep.violation(sub, seed, format!("{}:{}:{}", if ep.hand { "macro" } else { "generated" }, kind, loc),
                    detail(kind, json!({"code": code, "param": param, "admissible": admissible, "cause": e.cause().to_string()})));
            }
        }
    }
}

/// The body argument's failure also carries a `param` (its log_as); accept it when the body is
/// what was corrupted.
fn param_is_body(ep: &Ep, param: &Option<String>) -> bool {
    ep.args.iter().any(|a| a.loc == Loc::Body && param.as_deref() == Some(q(a.name).as_str()))
}

/// Sets serialise in the decoded type's order; compare arrays of scalars as multisets.
fn set_equiv(a: &J, b: &J) -> bool {
    match (a, b) {
        (J::Arr(x), J::Arr(y)) if x.len() == y.len() => {
            let mut xs: Vec<String> = x.iter().map(vcore::json::render).collect();
            let mut ys: Vec<String> = y.iter().map(vcore::json::render).collect();
            xs.sort();
            ys.sort();
            xs == ys
        }
        _ => false,
    }
}

pub fn run(ctx: &Ctx, report: &mut Report, mode: Mode) {
    let sub = if mode == Mode::C09 { "canaries" } else { "corruptions" };
    ctx.cases(report, sub, ctx.n(60_000, 3_000_000), |seed, rep| case(seed, rep, mode));
    if mode == Mode::C09 {
        ctx.cases(report, "token-debug", ctx.n(20_000, 200_000), |seed, rep| {
            let mut r = Rng::new(seed);
            let t = crate::node::gen_token(&mut r);
            let d = format!("{:?} {:#?}", t, t);
            rep.evaluations += 1;
            rep.cell("token-debug");
            if t.as_str().len() >= 4 && d.contains(t.as_str()) {
                rep.violation("token-debug", seed, "token-debug-leaks", json!({"debug": d}));
            }
        });
    }
    if mode == Mode::C09 && ctx.replay.is_none() {
        // cells order/<flavour>/<endpoint>/<failing safe arg>/<other safe arg>/<present|absent>
        let cells: Vec<Vec<String>> = report.matrix.keys().filter(|k| k.starts_with("order/")).map(|k| k.split('/').map(|s| s.to_string()).collect()).collect();
        let absent = |fl: &str, ep: &str, a: &str, b: &str| cells.iter().any(|c| c.len() == 6 && c[1] == fl && c[2] == ep && c[3] == a && c[4] == b && c[5] == "absent");
        let mut reported = std::collections::BTreeSet::new();
        let mut pairs = 0u64;
        for c in &cells {
            if c.len() != 6 || c[5] != "absent" || c[3] >= c[4] {
                continue;
            }
            pairs += 1;
            if absent(&c[1], &c[2], &c[4], &c[3]) && reported.insert((c[1].clone(), c[2].clone())) {
                report.violation("canaries", 0, format!("safe-args-dropped-on-decode-failure:{}", c[2]),
                    json!({"endpoint": c[2], "flavour": c[1], "what": format!("`{}` is not recorded when only `{}` fails to decode, and `{}` is not recorded when only `{}` fails: no decoding order explains both", c[4], c[3], c[3], c[4])}));
            }
        }
        report.cell_n("order/pairs-confronted", pairs.max(1));
    }
    if ctx.replay.is_none() {
        report.floor_cells("endpoint-cells", "blocking/", 20);
        report.floor_cells("async-endpoint-cells", "async/", 20);
        let d = report.distinct.len() as u64;
        report.floor("distinct-corruption-patterns", if ctx.scale >= 1.0 { 300 } else { 30 }, d);
    }
    report.notes.push("distinct = (flavour, endpoint, set of (corruption kind, parameter location))".into());
}

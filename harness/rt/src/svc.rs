//! The services Bed A drives: the *generated* `SinkService` (real conjure-codegen output for
//! `sink-ir.json`, see build.rs) with recording handlers, plus request generation and invocation
//! through the generated blocking and async clients.
#![allow(clippy::too_many_arguments)]
use crate::gen::sink::*;
use crate::node::{gen_rid, gen_time, gen_token, gen_uuid, gen_safelong};
use conjure_error::Error;
use conjure_http::server::{AsyncWriteBody, RequestContext};
use conjure_object::{BearerToken, DateTime, DoubleKey, ResourceIdentifier, SafeLong, Utc, Uuid};
use conjure_serde::json;
use labrt::{AsyncLoopback, ChunkStream, Chunks, Loopback};
use serde::Serialize;
use std::collections::{BTreeMap, BTreeSet};
use std::pin::Pin;
use std::sync::{Arc, Mutex};
use vcore::text::*;
use vcore::Rng;

pub fn j<T: Serialize + ?Sized>(v: &T) -> String {
    json::to_string(v).unwrap_or_else(|e| format!("<unserializable: {}>", e))
}

pub fn hex(b: &[u8]) -> String {
    b.iter().map(|x| format!("{:02x}", x)).collect()
}

#[derive(Debug, Clone, PartialEq)]
pub struct Call {
    pub endpoint: &'static str,
    /// (declared argument name, Conjure JSON of the value; hex for binary)
    pub args: Vec<(&'static str, String)>,
    /// what the handler returned (Conjure JSON; hex for binary; "<error>" for errors)
    pub ret: String,
}

#[derive(Default)]
pub struct Recorder {
    pub calls: Mutex<Vec<Call>>,
}

impl Recorder {
    fn push(&self, endpoint: &'static str, args: Vec<(&'static str, String)>, ret: String) {
        self.calls.lock().unwrap().push(Call { endpoint, args, ret });
    }
    pub fn take(&self) -> Vec<Call> {
        std::mem::take(&mut *self.calls.lock().unwrap())
    }
}

#[derive(Clone)]
pub struct Handler {
    pub rec: Arc<Recorder>,
}

pub struct AsyncBytes(pub Vec<u8>);

impl AsyncWriteBody<Vec<u8>> for AsyncBytes {
    async fn write_body(self, mut w: Pin<&mut Vec<u8>>) -> Result<(), Error> {
        w.extend_from_slice(&self.0);
        Ok(())
    }
}

// ---- pure result functions shared by the blocking and the async handler
fn r_path_more(dbl: f64, flag: bool, when: &DateTime<Utc>, uid: &Uuid, flavor: &Flavor, name: &SafeName, long: SafeLong) -> String {
    format!("{}|{}|{}|{}|{}|{}|{}", j(&dbl), flag, j(when), uid, flavor, name.0, long)
}
fn r_query(text: &str, str_list: &[String], nums: &[i32]) -> Vec<String> {
    let mut v: Vec<String> = str_list.to_vec();
    if nums.len() % 2 == 1 {
        v.push(text.to_string());
    }
    v
}
fn r_headers(s: &str, maybe_int: Option<i32>, dbl: Option<f64>) -> BTreeMap<String, String> {
    let mut m = BTreeMap::new();
    if let Some(i) = maybe_int {
        m.insert("i".to_string(), i.to_string());
        m.insert("s".to_string(), s.to_string());
    }
    if let Some(d) = dbl {
        m.insert("d".to_string(), j(&d));
    }
    m
}
fn r_map(n: i32) -> BTreeMap<String, f64> {
    (0..n.rem_euclid(4)).map(|i| (format!("k{}", i), if i == 2 { f64::NAN } else { i as f64 / 3.0 })).collect()
}
fn r_opt(n: i32) -> Option<String> {
    if n % 2 == 0 {
        None
    } else {
        Some(format!("v{}", n))
    }
}

macro_rules! args {
    ($($name:expr => $v:expr),* $(,)?) => { vec![$(($name, j(&$v))),*] };
}

macro_rules! handler_impl {
    ($trait_:ident, $body_ty:ty, $bin_ty:ty, $mkbin:expr, [$($async_:tt)?], [$($await_:tt)*], $collect:expr) => {
        impl $trait_<$body_ty, Vec<u8>> for Handler {
            type BinaryBodyBody = $bin_ty;
            type AliasBinaryBodyBody = $bin_ty;
            type OptBinaryReturnBody = $bin_ty;

            $($async_)? fn path_params(&self, str_arg: String, int_arg: i32, rid_arg: ResourceIdentifier) -> Result<(), Error> {
                self.rec.push("pathParams", args!["strArg" => str_arg, "intArg" => int_arg, "ridArg" => rid_arg], j(&()));
                Ok(())
            }
            $($async_)? fn path_more(&self, dbl: f64, flag: bool, when: DateTime<Utc>, uid: Uuid, flavor: Flavor, name: SafeName, long: SafeLong) -> Result<String, Error> {
                let ret = r_path_more(dbl, flag, &when, &uid, &flavor, &name, long);
                self.rec.push("pathMore", args!["dbl" => dbl, "flag" => flag, "when" => when, "uid" => uid, "flavor" => flavor, "name" => name, "long" => long], j(&ret));
                Ok(ret)
            }
            $($async_)? fn query_params(&self, text: String, maybe_num: Option<i32>, str_list: Vec<String>, str_set: BTreeSet<String>, flag: bool, dbl: f64,
                uid: Option<Uuid>, nums: Vec<i32>, flavors: BTreeSet<Flavor>, alias_opt: MaybeCount, alias_list: Names, when: Option<DateTime<Utc>>) -> Result<Vec<String>, Error> {
                let ret = r_query(&text, &str_list, &nums);
                self.rec.push("queryParams", args!["text" => text, "maybeNum" => maybe_num, "strList" => str_list, "strSet" => str_set, "flag" => flag, "dbl" => dbl,
                    "uid" => uid, "nums" => nums, "flavors" => flavors, "aliasOpt" => alias_opt, "aliasList" => alias_list, "when" => when], j(&ret));
                Ok(ret)
            }
            $($async_)? fn headers(&self, str_header: String, maybe_int: Option<i32>, rid_header: ResourceIdentifier, flavor_header: Option<Flavor>,
                token_header: Option<BearerToken>, alias_header: MaybeCount, dbl_header: Option<f64>) -> Result<BTreeMap<String, String>, Error> {
                let ret = r_headers(&str_header, maybe_int, dbl_header);
                self.rec.push("headers", args!["strHeader" => str_header, "maybeInt" => maybe_int, "ridHeader" => rid_header, "flavorHeader" => flavor_header,
                    "tokenHeader" => token_header, "aliasHeader" => alias_header, "dblHeader" => dbl_header], j(&ret));
                Ok(ret)
            }
            $($async_)? fn json_body(&self, body: Payload) -> Result<Payload, Error> {
                self.rec.push("jsonBody", args!["body" => body], j(&body));
                Ok(body)
            }
            $($async_)? fn opt_body(&self, body: Option<Item>) -> Result<Option<Item>, Error> {
                self.rec.push("optBody", args!["body" => body], j(&body));
                Ok(body)
            }
            $($async_)? fn list_body(&self, items: Vec<f64>) -> Result<BTreeSet<DoubleKey>, Error> {
                let ret: BTreeSet<DoubleKey> = items.iter().map(|d| DoubleKey(*d)).collect();
                self.rec.push("listBody", args!["items" => items], j(&ret));
                Ok(ret)
            }
            $($async_)? fn choice_body(&self, choice: Choice) -> Result<Choice, Error> {
                self.rec.push("choiceBody", args!["choice" => choice], j(&choice));
                Ok(choice)
            }
            $($async_)? fn small_body(&self, text: String) -> Result<String, Error> {
                self.rec.push("smallBody", args!["text" => text], j(&text));
                Ok(text)
            }
            $($async_)? fn binary_body(&self, data: $body_ty) -> Result<Self::BinaryBodyBody, Error> {
                let collect = $collect;
                match collect(data)$($await_)* {
                    Ok(bytes) => {
                        self.rec.push("binaryBody", vec![("data", hex(&bytes))], hex(&bytes));
                        Ok($mkbin(bytes))
                    }
                    Err(e) => {
                        self.rec.push("binaryBody", vec![("data", "<stream-error>".into())], "<error>".into());
                        Err(e)
                    }
                }
            }
            $($async_)? fn alias_binary_body(&self, data: $body_ty) -> Result<Option<Self::AliasBinaryBodyBody>, Error> {
                let collect = $collect;
                match collect(data)$($await_)* {
                    Ok(bytes) => {
                        let ret = if bytes.len() % 2 == 0 { None } else { Some(bytes.clone()) };
                        self.rec.push("aliasBinaryBody", vec![("data", hex(&bytes))], ret.as_ref().map(|b| hex(b)).unwrap_or_else(|| "<absent>".into()));
                        Ok(ret.map($mkbin))
                    }
                    Err(e) => {
                        self.rec.push("aliasBinaryBody", vec![("data", "<stream-error>".into())], "<error>".into());
                        Err(e)
                    }
                }
            }
            $($async_)? fn opt_binary_return(&self, present: bool) -> Result<Option<Self::OptBinaryReturnBody>, Error> {
                let ret = if present { Some(b"\x00\xffpresent".to_vec()) } else { None };
                self.rec.push("optBinaryReturn", args!["present" => present], ret.as_ref().map(|b| hex(b)).unwrap_or_else(|| "<absent>".into()));
                Ok(ret.map($mkbin))
            }
            $($async_)? fn map_return(&self, n: i32) -> Result<BTreeMap<String, f64>, Error> {
                let ret = r_map(n);
                self.rec.push("mapReturn", args!["n" => n], j(&ret));
                Ok(ret)
            }
            $($async_)? fn unit_return(&self, n: i32) -> Result<(), Error> {
                self.rec.push("unitReturn", args!["n" => n], j(&()));
                Ok(())
            }
            $($async_)? fn opt_return(&self, n: i32) -> Result<Option<String>, Error> {
                let ret = r_opt(n);
                self.rec.push("optReturn", args!["n" => n], j(&ret));
                Ok(ret)
            }
            $($async_)? fn alias_opt_return(&self, n: i32) -> Result<MaybeCount, Error> {
                let ret = MaybeCount(if n % 3 == 0 { None } else { Some(n) });
                self.rec.push("aliasOptReturn", args!["n" => n], j(&ret));
                Ok(ret)
            }
            $($async_)? fn header_auth(&self, auth_: BearerToken, what: String) -> Result<String, Error> {
                let ret = format!("{}:{}", what, auth_.as_str().len());
                self.rec.push("headerAuth", args!["auth" => auth_, "what" => what], j(&ret));
                Ok(ret)
            }
            $($async_)? fn cookie_auth(&self, auth_: BearerToken, body: i32) -> Result<i32, Error> {
                let ret = body.wrapping_add(1);
                self.rec.push("cookieAuth", args!["auth" => auth_, "body" => body], j(&ret));
                Ok(ret)
            }
            $($async_)? fn safe_mix(&self, auth_: BearerToken, safe_path: String, unsafe_path: String, dnl_path: String, type_: i32, legacy_safe_query: String,
                tagged_safe_query: Option<String>, plain_query: String, safe_alias_query: SafeName, plain_alias_query: PlainName, enum_query: Flavor,
                safe_header: String, unsafe_header: String, match_: Option<i32>, safe_body: SafeItem) -> Result<String, Error> {
                let ret = "mixed".to_string();
                self.rec.push("safeMix", args!["auth" => auth_, "safePath" => safe_path, "unsafePath" => unsafe_path, "dnlPath" => dnl_path, "type" => type_,
                    "legacySafeQuery" => legacy_safe_query, "taggedSafeQuery" => tagged_safe_query, "plainQuery" => plain_query, "safeAliasQuery" => safe_alias_query,
                    "plainAliasQuery" => plain_alias_query, "enumQuery" => enum_query, "safeHeader" => safe_header, "unsafeHeader" => unsafe_header,
                    "match" => match_, "safeBody" => safe_body], j(&ret));
                Ok(ret)
            }
            $($async_)? fn unsafe_body(&self, auth_: BearerToken, safe_id: i32, secret_body: Item) -> Result<(), Error> {
                self.rec.push("unsafeBody", args!["auth" => auth_, "safeId" => safe_id, "secretBody" => secret_body], j(&()));
                Ok(())
            }
            $($async_)? fn context_endpoint(&self, maybe: Option<String>, request_context_: RequestContext<'_>) -> Result<(), Error> {
                let _ = request_context_.request_uri();
                self.rec.push("contextEndpoint", args!["maybe" => maybe], j(&()));
                Ok(())
            }
            $($async_)? fn fails(&self, n: i32) -> Result<i32, Error> {
                self.rec.push("fails", args!["n" => n], "<error>".into());
                let err = SinkFailure::builder()
                    .safe_count(n)
                    .flavor(Flavor::Sour)
                    .secret(format!("secret{}", n))
                    .ratio(0.5)
                    .items(vec!["x".to_string()])
                    .build();
                Err(Error::service_safe("handler failed", err))
            }
        }
    };
}

handler_impl!(SinkService, Chunks, Vec<u8>, |b: Vec<u8>| b, [], [], |c: Chunks| c.collect_bytes());
handler_impl!(AsyncSinkService, ChunkStream, AsyncBytes, AsyncBytes, [async], [.await], |c: ChunkStream| c.collect_bytes());

// ---------------------------------------------------------------------------------------------
// Requests

#[derive(Debug, Clone)]
pub enum Req {
    PathParams { s: String, i: i32, rid: ResourceIdentifier },
    PathMore { dbl: f64, flag: bool, when: DateTime<Utc>, uid: Uuid, flavor: Flavor, name: SafeName, long: SafeLong },
    QueryParams {
        text: String, maybe_num: Option<i32>, str_list: Vec<String>, str_set: BTreeSet<String>, flag: bool, dbl: f64, uid: Option<Uuid>,
        nums: Vec<i32>, flavors: BTreeSet<Flavor>, alias_opt: MaybeCount, alias_list: Names, when: Option<DateTime<Utc>>,
    },
    Headers { s: String, maybe_int: Option<i32>, rid: ResourceIdentifier, flavor: Option<Flavor>, token: Option<BearerToken>, alias: MaybeCount, dbl: Option<f64> },
    JsonBody(Box<Payload>),
    OptBody(Option<Item>),
    ListBody(Vec<f64>),
    ChoiceBody(Choice),
    SmallBody(String),
    BinaryBody(Vec<u8>),
    AliasBinaryBody(Vec<u8>),
    OptBinaryReturn(bool),
    MapReturn(i32),
    UnitReturn(i32),
    OptReturn(i32),
    AliasOptReturn(i32),
    HeaderAuth { token: BearerToken, what: String },
    CookieAuth { token: BearerToken, body: i32 },
    SafeMix(Box<Mix>),
    UnsafeBody { token: BearerToken, safe_id: i32, secret: Item },
    Context(Option<String>),
    Fails(i32),
}

#[derive(Debug, Clone)]
pub struct Mix {
    pub token: BearerToken,
    pub safe_path: String,
    pub unsafe_path: String,
    pub dnl_path: String,
    pub type_: i32,
    pub legacy_safe_query: String,
    pub tagged_safe_query: Option<String>,
    pub plain_query: String,
    pub safe_alias_query: SafeName,
    pub plain_alias_query: PlainName,
    pub enum_query: Flavor,
    pub safe_header: String,
    pub unsafe_header: String,
    pub match_: Option<i32>,
    pub safe_body: SafeItem,
}

pub fn gen_flavor(r: &mut Rng) -> Flavor {
    match r.below(3) {
        0 => Flavor::Sweet,
        1 => Flavor::Sour,
        _ => Flavor::DarkBitter,
    }
}

/// Header text that HTTP can carry as text: visible ASCII (0x21..=0x7e), non-empty.
pub fn visible_ascii(s: &str) -> bool {
    !s.is_empty() && s.bytes().all(|b| (0x21..=0x7e).contains(&b))
}

pub fn gen_header_text(r: &mut Rng) -> String {
    match r.below(10) {
        0 => hostile_string(r, 10),
        1 => format!("a{}b", *r.pick(&[" ", "\t", "\n", "\r\n", "\u{7f}", "é", "\u{0}", "  "])),
        2 => String::new(),
        _ => {
            let n = 1 + r.below(16);
            (0..n).map(|_| (0x21 + r.below(0x7e - 0x21 + 1) as u8) as char).collect()
        }
    }
}

fn jstr(s: &str) -> String {
    let mut o = String::new();
    vcore::json::quote(s, &mut o);
    o
}

fn gen_f64_json(r: &mut Rng) -> String {
    j(&hostile_f64(r))
}

pub fn gen_item_json(r: &mut Rng) -> String {
    let mut m = vec![format!("\"label\":{}", jstr(&hostile_string(r, 8)))];
    if r.bool() {
        m.push(format!("\"weight\":{}", gen_f64_json(r)));
    }
    if r.chance(1, 3) {
        m.push(format!("\"type\":{}", jstr(&hostile_string(r, 5))));
    }
    format!("{{{}}}", m.join(","))
}

pub fn gen_item(r: &mut Rng) -> Item {
    json::client_from_str(&gen_item_json(r)).expect("valid Item document")
}

pub fn gen_payload_json(r: &mut Rng, depth: usize) -> String {
    let mut m = vec![
        format!("\"name\":{}", jstr(&hostile_string(r, 10))),
        format!("\"count\":{}", hostile_i32(r)),
        format!("\"ratio\":{}", gen_f64_json(r)),
        format!("\"flavor\":\"{}\"", gen_flavor(r)),
        format!("\"blob\":\"{}\"", vcore::models::b64_encode(&hostile_bytes(r, 12))),
        format!("\"big\":{}", *gen_safelong(r)),
        format!("\"when\":{}", j(&gen_time(r))),
        format!("\"id\":\"{}\"", gen_uuid(r)),
    ];
    if r.bool() {
        m.push(format!("\"maybe\":{}", jstr(&hostile_string(r, 6))));
    }
    let items: Vec<String> = (0..r.below(3)).map(|_| gen_item_json(r)).collect();
    if !items.is_empty() || r.bool() {
        m.push(format!("\"items\":[{}]", items.join(",")));
    }
    let mut keys = BTreeMap::new();
    for _ in 0..r.below(3) {
        keys.insert(j(&hostile_f64(r)).trim_matches('"').to_string(), jstr(&hostile_string(r, 4)));
    }
    if !keys.is_empty() {
        let kv: Vec<String> = keys.iter().map(|(k, v)| format!("{}:{}", jstr(k), v)).collect();
        m.push(format!("\"byKey\":{{{}}}", kv.join(",")));
    }
    if depth > 0 && r.chance(1, 3) {
        m.push(format!("\"nested-thing\":{}", gen_payload_json(r, depth - 1)));
    }
    if r.chance(1, 3) {
        m.push(format!("\"anything\":{}", r.pick(&["1", "\"NaN\"", "[1,{\"a\":null}]", "{\"x\":[true]}", "-0.5"])));
    }
    r.shuffle(&mut m);
    format!("{{{}}}", m.join(","))
}

pub fn gen_payload(r: &mut Rng) -> Payload {
    let doc = gen_payload_json(r, 2);
    json::client_from_str(&doc).unwrap_or_else(|e| panic!("valid Payload document {}: {}", doc, e))
}

pub fn gen_choice(r: &mut Rng) -> Choice {
    let doc = match r.below(5) {
        0 => format!("{{\"type\":\"text\",\"text\":{}}}", jstr(&hostile_string(r, 8))),
        1 => format!("{{\"type\":\"num\",\"num\":{}}}", gen_f64_json(r)),
        2 => format!("{{\"item\":{},\"type\":\"item\"}}", gen_item_json(r)),
        3 => format!("{{\"type\":\"many\",\"many\":[{}]}}", (0..r.below(4)).map(|_| hostile_i32(r).to_string()).collect::<Vec<_>>().join(",")),
        _ => format!("{{\"type\":\"mystery\",\"mystery\":{}}}", r.pick(&["1", "null", "{\"a\":[1,2]}", "\"NaN\""])),
    };
    json::client_from_str(&doc).unwrap_or_else(|e| panic!("valid Choice document {}: {}", doc, e))
}

impl Req {
    pub fn gen(r: &mut Rng) -> Req {
        let strs = |r: &mut Rng, n: usize| (0..r.below(n + 1)).map(|_| hostile_string(r, 8)).collect::<Vec<_>>();
        match r.below(24) {
            0 => Req::PathParams { s: hostile_string(r, 12), i: hostile_i32(r), rid: gen_rid(r) },
            1 => Req::PathMore { dbl: hostile_f64(r), flag: r.bool(), when: gen_time(r), uid: gen_uuid(r), flavor: gen_flavor(r), name: SafeName(hostile_string(r, 8)), long: gen_safelong(r) },
            2 | 3 => Req::QueryParams {
                text: hostile_string(r, 12),
                maybe_num: if r.bool() { Some(hostile_i32(r)) } else { None },
                str_list: strs(r, 3),
                str_set: strs(r, 3).into_iter().collect(),
                flag: r.bool(),
                dbl: hostile_f64(r),
                uid: if r.bool() { Some(gen_uuid(r)) } else { None },
                nums: (0..r.below(4)).map(|_| hostile_i32(r)).collect(),
                flavors: (0..r.below(3)).map(|_| gen_flavor(r)).collect(),
                alias_opt: MaybeCount(if r.bool() { Some(hostile_i32(r)) } else { None }),
                alias_list: Names(strs(r, 2)),
                when: if r.bool() { Some(gen_time(r)) } else { None },
            },
            4 | 5 => Req::Headers {
                s: gen_header_text(r),
                maybe_int: if r.bool() { Some(hostile_i32(r)) } else { None },
                rid: gen_rid(r),
                flavor: if r.bool() { Some(gen_flavor(r)) } else { None },
                token: if r.bool() { Some(gen_token(r)) } else { None },
                alias: MaybeCount(if r.bool() { Some(hostile_i32(r)) } else { None }),
                dbl: if r.bool() { Some(hostile_f64(r)) } else { None },
            },
            6 | 7 => Req::JsonBody(Box::new(gen_payload(r))),
            8 => Req::OptBody(if r.chance(2, 3) { Some(gen_item(r)) } else { None }),
            9 => Req::ListBody((0..r.below(5)).map(|_| hostile_f64(r)).collect()),
            10 => Req::ChoiceBody(gen_choice(r)),
            11 => {
                let n = r.below(29);
                Req::SmallBody(alnum(r, n))
            }
            12 => Req::BinaryBody(hostile_bytes(r, 300)),
            13 => Req::AliasBinaryBody(hostile_bytes(r, 40)),
            14 => Req::OptBinaryReturn(r.bool()),
            15 => Req::MapReturn(r.range(-3, 9) as i32),
            16 => Req::UnitReturn(hostile_i32(r)),
            17 => Req::OptReturn(r.range(-3, 9) as i32),
            18 => Req::AliasOptReturn(r.range(-3, 9) as i32),
            19 => Req::HeaderAuth { token: gen_token(r), what: hostile_string(r, 10) },
            20 => Req::CookieAuth { token: gen_token(r), body: hostile_i32(r) },
            21 => Req::SafeMix(Box::new(Mix {
                token: gen_token(r),
                safe_path: hostile_string(r, 8),
                unsafe_path: hostile_string(r, 8),
                dnl_path: hostile_string(r, 8),
                type_: hostile_i32(r),
                legacy_safe_query: hostile_string(r, 8),
                tagged_safe_query: if r.bool() { Some(hostile_string(r, 8)) } else { None },
                plain_query: hostile_string(r, 8),
                safe_alias_query: SafeName(hostile_string(r, 8)),
                plain_alias_query: PlainName(hostile_string(r, 8)),
                enum_query: gen_flavor(r),
                safe_header: gen_header_text(r),
                unsafe_header: gen_header_text(r),
                match_: if r.bool() { Some(hostile_i32(r)) } else { None },
                safe_body: json::client_from_str(&format!("{{\"code\":{},\"flavor\":\"{}\"}}", hostile_i32(r), gen_flavor(r))).expect("SafeItem"),
            })),
            22 => Req::UnsafeBody { token: gen_token(r), safe_id: hostile_i32(r), secret: gen_item(r) },
            _ => {
                if r.bool() {
                    Req::Context(if r.bool() { Some(hostile_string(r, 8)) } else { None })
                } else {
                    Req::Fails(hostile_i32(r))
                }
            }
        }
    }

    pub fn endpoint(&self) -> &'static str {
        match self {
            Req::PathParams { .. } => "pathParams",
            Req::PathMore { .. } => "pathMore",
            Req::QueryParams { .. } => "queryParams",
            Req::Headers { .. } => "headers",
            Req::JsonBody(_) => "jsonBody",
            Req::OptBody(_) => "optBody",
            Req::ListBody(_) => "listBody",
            Req::ChoiceBody(_) => "choiceBody",
            Req::SmallBody(_) => "smallBody",
            Req::BinaryBody(_) => "binaryBody",
            Req::AliasBinaryBody(_) => "aliasBinaryBody",
            Req::OptBinaryReturn(_) => "optBinaryReturn",
            Req::MapReturn(_) => "mapReturn",
            Req::UnitReturn(_) => "unitReturn",
            Req::OptReturn(_) => "optReturn",
            Req::AliasOptReturn(_) => "aliasOptReturn",
            Req::HeaderAuth { .. } => "headerAuth",
            Req::CookieAuth { .. } => "cookieAuth",
            Req::SafeMix(_) => "safeMix",
            Req::UnsafeBody { .. } => "unsafeBody",
            Req::Context(_) => "contextEndpoint",
            Req::Fails(_) => "fails",
        }
    }

    /// The arguments as the handler is expected to record them.
    pub fn args(&self) -> Vec<(&'static str, String)> {
        match self {
            Req::PathParams { s, i, rid } => args!["strArg" => s, "intArg" => i, "ridArg" => rid],
            Req::PathMore { dbl, flag, when, uid, flavor, name, long } => {
                args!["dbl" => dbl, "flag" => flag, "when" => when, "uid" => uid, "flavor" => flavor, "name" => name, "long" => long]
            }
            Req::QueryParams { text, maybe_num, str_list, str_set, flag, dbl, uid, nums, flavors, alias_opt, alias_list, when } => {
                args!["text" => text, "maybeNum" => maybe_num, "strList" => str_list, "strSet" => str_set, "flag" => flag, "dbl" => dbl,
                    "uid" => uid, "nums" => nums, "flavors" => flavors, "aliasOpt" => alias_opt, "aliasList" => alias_list, "when" => when]
            }
            Req::Headers { s, maybe_int, rid, flavor, token, alias, dbl } => {
                args!["strHeader" => s, "maybeInt" => maybe_int, "ridHeader" => rid, "flavorHeader" => flavor, "tokenHeader" => token, "aliasHeader" => alias, "dblHeader" => dbl]
            }
            Req::JsonBody(p) => args!["body" => p],
            Req::OptBody(b) => args!["body" => b],
            Req::ListBody(v) => args!["items" => v],
            Req::ChoiceBody(c) => args!["choice" => c],
            Req::SmallBody(s) => args!["text" => s],
            Req::BinaryBody(b) | Req::AliasBinaryBody(b) => vec![("data", hex(b))],
            Req::OptBinaryReturn(p) => args!["present" => p],
            Req::MapReturn(n) | Req::UnitReturn(n) | Req::OptReturn(n) | Req::AliasOptReturn(n) | Req::Fails(n) => args!["n" => n],
            Req::HeaderAuth { token, what } => args!["auth" => token, "what" => what],
            Req::CookieAuth { token, body } => args!["auth" => token, "body" => body],
            Req::SafeMix(m) => args!["auth" => m.token, "safePath" => m.safe_path, "unsafePath" => m.unsafe_path, "dnlPath" => m.dnl_path, "type" => m.type_,
                "legacySafeQuery" => m.legacy_safe_query, "taggedSafeQuery" => m.tagged_safe_query, "plainQuery" => m.plain_query, "safeAliasQuery" => m.safe_alias_query,
                "plainAliasQuery" => m.plain_alias_query, "enumQuery" => m.enum_query, "safeHeader" => m.safe_header, "unsafeHeader" => m.unsafe_header,
                "match" => m.match_, "safeBody" => m.safe_body],
            Req::UnsafeBody { token, safe_id, secret } => args!["auth" => token, "safeId" => safe_id, "secretBody" => secret],
            Req::Context(m) => args!["maybe" => m],
        }
    }

    /// Header-carried string values of the request (the ones HTTP may be unable to carry).
    pub fn header_texts(&self) -> Vec<&str> {
        match self {
            Req::Headers { s, .. } => vec![s],
            Req::SafeMix(m) => vec![&m.safe_header, &m.unsafe_header],
            _ => vec![],
        }
    }
}

/// Client-side streaming body.
pub struct Upload(pub Vec<u8>);

impl conjure_http::client::WriteBody<Vec<u8>> for Upload {
    fn write_body(&mut self, w: &mut Vec<u8>) -> Result<(), Error> {
        // written in two pieces on purpose
        let mid = self.0.len() / 2;
        w.extend_from_slice(&self.0[..mid]);
        w.extend_from_slice(&self.0[mid..]);
        Ok(())
    }
    fn reset(&mut self) -> bool {
        true
    }
}

impl conjure_http::client::AsyncWriteBody<Vec<u8>> for Upload {
    async fn write_body(self: Pin<&mut Self>, mut w: Pin<&mut Vec<u8>>) -> Result<(), Error> {
        w.extend_from_slice(&self.0);
        Ok(())
    }
    async fn reset(self: Pin<&mut Self>) -> bool {
        true
    }
}

fn opt_hex(r: Option<Vec<u8>>) -> String {
    r.map(|b| hex(&b)).unwrap_or_else(|| "<absent>".into())
}

macro_rules! invoke_impl {
    ($fname:ident, $client:ty, [$($async_:tt)?], [$($await_:tt)*], $collect:expr) => {
        /// Calls the generated client method for `req`; the result is rendered like `Call::ret`.
        pub $($async_)? fn $fname(c: &$client, req: &Req) -> Result<String, Error> {
            let collect = $collect;
            Ok(match req {
                Req::PathParams { s, i, rid } => j(&c.path_params(s, *i, rid)$($await_)*?),
                Req::PathMore { dbl, flag, when, uid, flavor, name, long } => j(&c.path_more(*dbl, *flag, *when, *uid, flavor, name, *long)$($await_)*?),
                Req::QueryParams { text, maybe_num, str_list, str_set, flag, dbl, uid, nums, flavors, alias_opt, alias_list, when } => {
                    j(&c.query_params(text, *maybe_num, str_list, str_set, *flag, *dbl, *uid, nums, flavors, alias_opt.clone(), alias_list, *when)$($await_)*?)
                }
                Req::Headers { s, maybe_int, rid, flavor, token, alias, dbl } => {
                    j(&c.headers(s, *maybe_int, rid, flavor.as_ref(), token.as_ref(), alias.clone(), *dbl)$($await_)*?)
                }
                Req::JsonBody(p) => j(&c.json_body(p)$($await_)*?),
                Req::OptBody(b) => j(&c.opt_body(b.as_ref())$($await_)*?),
                Req::ListBody(v) => j(&c.list_body(v)$($await_)*?),
                Req::ChoiceBody(ch) => j(&c.choice_body(ch)$($await_)*?),
                Req::SmallBody(s) => j(&c.small_body(s)$($await_)*?),
                Req::BinaryBody(b) => {
                    let body = c.binary_body(Upload(b.clone()))$($await_)*?;
                    hex(&collect(body)$($await_)*?)
                }
                Req::AliasBinaryBody(b) => match c.alias_binary_body(Upload(b.clone()))$($await_)*? {
                    Some(body) => opt_hex(Some(collect(body)$($await_)*?)),
                    None => opt_hex(None),
                },
                Req::OptBinaryReturn(p) => match c.opt_binary_return(*p)$($await_)*? {
                    Some(body) => opt_hex(Some(collect(body)$($await_)*?)),
                    None => opt_hex(None),
                },
                Req::MapReturn(n) => j(&c.map_return(*n)$($await_)*?),
                Req::UnitReturn(n) => j(&c.unit_return(*n)$($await_)*?),
                Req::OptReturn(n) => j(&c.opt_return(*n)$($await_)*?),
                Req::AliasOptReturn(n) => j(&c.alias_opt_return(*n)$($await_)*?),
                Req::HeaderAuth { token, what } => j(&c.header_auth(token, what)$($await_)*?),
                Req::CookieAuth { token, body } => j(&c.cookie_auth(token, *body)$($await_)*?),
                Req::SafeMix(m) => j(&c.safe_mix(&m.token, &m.safe_path, &m.unsafe_path, &m.dnl_path, m.type_, &m.legacy_safe_query, m.tagged_safe_query.as_deref(),
                    &m.plain_query, &m.safe_alias_query, &m.plain_alias_query, &m.enum_query, &m.safe_header, &m.unsafe_header, m.match_, &m.safe_body)$($await_)*?),
                Req::UnsafeBody { token, safe_id, secret } => j(&c.unsafe_body(token, *safe_id, secret)$($await_)*?),
                Req::Context(m) => j(&c.context_endpoint(m.as_deref())$($await_)*?),
                Req::Fails(n) => j(&c.fails(*n)$($await_)*?),
            })
        }
    };
}

invoke_impl!(invoke_sync, SinkServiceClient<&Loopback>, [], [], |c: Chunks| c.collect_bytes());
invoke_impl!(invoke_async, SinkServiceAsyncClient<&AsyncLoopback>, [async], [.await], |c: ChunkStream| c.collect_bytes());

pub fn sync_endpoints(h: Handler) -> Vec<Box<dyn conjure_http::server::Endpoint<Chunks, Vec<u8>> + Sync + Send>> {
    use conjure_http::server::Service;
    let runtime = Arc::new(conjure_http::server::ConjureRuntime::new());
    SinkServiceEndpoints::new(h).endpoints(&runtime)
}

pub fn async_endpoints(h: Handler) -> Vec<conjure_http::server::BoxAsyncEndpoint<'static, ChunkStream, Vec<u8>>> {
    use conjure_http::server::AsyncService;
    let runtime = Arc::new(conjure_http::server::ConjureRuntime::new());
    AsyncSinkServiceEndpoints::new(h).endpoints(&runtime)
}

//! C15 – No path ever produces a safelong outside the 53-bit safe range.
//!
//! Invariant oracle over every construction / conversion / parsing / deserialization route:
//! `Ok(s) => |*s| <= 2^53-1 and *s == input`; canonical in-range input => `Ok`; out-of-range
//! input => `Err`; never a panic. Non-canonical text (`+5`, `05`, `1.0`, `1e3`, ...) only has to
//! satisfy the first implication.
use crate::ctx::{guarded, Ctx};
use conjure_http::server::conjure::FromPlainDecoder;
use conjure_http::server::{ConjureRuntime, DecodeHeader, DecodeParam};
use conjure_object::{Any, FromPlain, SafeLong};
use conjure_serde::{json, smile};
use http::HeaderValue;
use serde_json::json;
use std::collections::BTreeMap;
use std::convert::TryFrom;
use std::str::FromStr;
use vcore::rng::fnv;
use vcore::{Report, Rng};

const SAFE_MAX: u128 = (1 << 53) - 1;
/// Number of distinct routes below; the `From<small width>` ones (direct and through `Any`) cannot reject.
const ROUTES: u64 = 44;
const INFALLIBLE: u64 = 12;

/// An integer in [-2^127, 2^128-1]: the union of the i128 and u128 domains.
#[derive(Clone, Copy, Debug, PartialEq, Eq)]
struct Big {
    neg: bool,
    mag: u128,
}

impl Big {
    fn pos(mag: u128) -> Big {
        Big { neg: false, mag }
    }
    fn of(v: i128) -> Big {
        Big { neg: v < 0, mag: v.unsigned_abs() }
    }
    /// `anchor + delta`, `None` if it leaves the domain.
    fn offset(self, delta: i64) -> Option<Big> {
        match self.i128() {
            Some(v) => match v.checked_add(delta as i128) {
                Some(w) => Some(Big::of(w)),
                // above i128::MAX the domain continues up to u128::MAX; below i128::MIN it ends
                None if delta > 0 => Some(Big::pos(v as u128 + delta as u128)),
                None => None,
            },
            None if delta >= 0 => self.mag.checked_add(delta as u128).map(Big::pos),
            None => Some(Big::pos(self.mag - delta.unsigned_abs() as u128)),
        }
    }
    fn norm(self) -> Option<Big> {
        if self.mag == 0 {
            return Some(Big { neg: false, mag: 0 });
        }
        if self.neg && self.mag > 1u128 << 127 {
            return None;
        }
        Some(self)
    }
    fn dec(&self) -> String {
        format!("{}{}", if self.neg { "-" } else { "" }, self.mag)
    }
    fn in_range(&self) -> bool {
        self.mag <= SAFE_MAX
    }
    fn i128(&self) -> Option<i128> {
        if self.neg {
            if self.mag == 1u128 << 127 {
                Some(i128::MIN)
            } else {
                Some(-(self.mag as i128))
            }
        } else {
            i128::try_from(self.mag).ok()
        }
    }
    fn u128(&self) -> Option<u128> {
        if self.neg {
            None
        } else {
            Some(self.mag)
        }
    }
    fn fit<T: TryFrom<i128>>(&self) -> Option<T> {
        self.i128().and_then(|v| T::try_from(v).ok())
    }
    fn u64(&self) -> Option<u64> {
        self.u128().and_then(|v| u64::try_from(v).ok())
    }
    fn bitlen(&self) -> u32 {
        128 - self.mag.leading_zeros()
    }
    fn class(&self) -> &'static str {
        let m = self.mag;
        if m == 0 {
            "zero"
        } else if m < SAFE_MAX {
            "inside"
        } else if m == SAFE_MAX {
            "limit"
        } else if m == SAFE_MAX + 1 {
            "limit+1"
        } else if m < (1u128 << 63) - 1 {
            "fits-i64"
        } else if m == (1u128 << 63) - 1 {
            "i64-max-magnitude"
        } else if m == 1u128 << 63 {
            if self.neg { "i64-min" } else { "fits-u64" }
        } else if m <= u64::MAX as u128 {
            if self.neg { "fits-i128" } else { "fits-u64" }
        } else if m < 1u128 << 127 || (self.neg && m == 1u128 << 127) {
            "fits-i128"
        } else {
            "fits-u128"
        }
    }
}

enum Out {
    Ok(i64),
    Err(String),
    Panic(String),
}

fn call<E: std::fmt::Display>(f: impl FnOnce() -> Result<SafeLong, E>) -> Out {
    match guarded(|| f().map(|s| *s).map_err(|e| e.to_string())) {
        Ok(Ok(v)) => Out::Ok(v),
        Ok(Err(e)) => Out::Err(e),
        Err(p) => Out::Panic(p),
    }
}

/// Deserializes a one-entry map and hands back its key.
fn key_of<E: std::fmt::Display>(f: impl FnOnce() -> Result<BTreeMap<SafeLong, bool>, E>) -> Out {
    match guarded(|| f().map_err(|e| e.to_string())) {
        Ok(Ok(m)) => match (m.len(), m.iter().next()) {
            (1, Some((k, true))) => Out::Ok(**k),
            _ => Out::Err(format!("map of {} entries", m.len())),
        },
        Ok(Err(e)) => Out::Err(e),
        Err(p) => Out::Panic(p),
    }
}

struct Env<'a> {
    rep: &'a mut Report,
    sub: &'a str,
    seed: u64,
    runtime: &'a ConjureRuntime,
}

impl Env<'_> {
    /// The oracle. `denotes` is the integer the input stands for (`None`: the text denotes no
    /// integer, only the range half of the first implication applies).
    fn judge(&mut self, route: &str, input: &str, denotes: Option<Big>, canonical: bool, out: Out) {
        self.rep.evaluations += 1;
        let (sign, class, bits) = match denotes {
            Some(x) => (if x.neg { "-" } else { "+" }, x.class(), x.bitlen()),
            None => ("", "not-an-integer", 0),
        };
        self.rep.distinct.insert(fnv(&format!(
            "{}|{}|{}{}|{}",
            route,
            if canonical { "canonical" } else { "non-canonical" },
            sign,
            class,
            bits
        )));
        let outcome = match &out {
            Out::Ok(_) => "ok",
            Out::Err(_) => "err",
            Out::Panic(_) => "panic",
        };
        self.rep.cell(&format!("outcome/{}/{}", route, outcome));
        if canonical {
            self.rep.cell(&format!("range/{}{}", sign, class));
            let inside = denotes.map(|x| x.in_range()).unwrap_or(false);
            self.rep.cell(&format!("route/{}/{}", route, if inside { "in-range-input" } else { "out-of-range-input" }));
        } else {
            self.rep.cell(&format!("route/{}/non-canonical-input", route));
        }
        let mut fail = |what: &str, observed: String, expected: &str| {
            self.rep.violation(
                self.sub,
                self.seed,
                format!("{}:{}", route, what),
                json!({"route": route, "input": input, "canonical": canonical, "observed": observed, "expected": expected}),
            );
        };
        match out {
            Out::Panic(p) => fail("panic", p, "Ok or Err"),
            Out::Ok(v) => {
                if v.unsigned_abs() as u128 > SAFE_MAX {
                    fail("out-of-range-safelong-produced", format!("Ok({})", v), "a value within +-(2^53-1), or Err");
                } else if let Some(x) = denotes {
                    if !x.in_range() {
                        fail("accepts-out-of-range", format!("Ok({})", v), "Err");
                    } else if x.i128() != Some(v as i128) {
                        fail("value-changed", format!("Ok({})", v), "the input value");
                    }
                }
            }
            Out::Err(e) => {
                if canonical && denotes.map(|x| x.in_range()).unwrap_or(false) {
                    if route == "any_i128" {
                        // An `Any` built from a 128-bit integer and read back as a 64-bit type is
                        // a cross-width view of the dynamic value; the property lists conversion
                        // "from any integer width" for the checked conversions, not for `Any`.
                        // Only the range invariant (first implication) is judged on this route.
                        self.rep.observed_only("any-built-from-i128-read-as-safelong-rejected");
                    } else {
                        fail("rejects-in-range", format!("Err({})", e), "Ok(input)");
                    }
                }
            }
        }
    }

    /// Routes whose input is a typed integer.
    fn int_routes(&mut self, x: Big) {
        let shown = x.dec();
        macro_rules! go {
            ($name:expr, $out:expr) => {{
                let out = $out;
                self.judge($name, &shown, Some(x), true, out);
            }};
        }
        if let Some(v) = x.fit::<i64>() {
            go!("new", call(|| SafeLong::new(v)));
            go!("try_from_i64", call(|| SafeLong::try_from(v)));
            go!("smile_i64/client", call(|| smile::client_from_slice::<SafeLong>(&smile::to_vec(&v).map_err(|e| e.to_string())?).map_err(|e| e.to_string())));
            go!("smile_i64/server", call(|| smile::server_from_slice::<SafeLong>(&smile::to_vec(&v).map_err(|e| e.to_string())?).map_err(|e| e.to_string())));
            go!("smile_i64/reader", call(|| smile::server_from_reader::<_, SafeLong>(&smile::to_vec(&v).map_err(|e| e.to_string())?[..]).map_err(|e| e.to_string())));
            let m: BTreeMap<i64, bool> = [(v, true)].into_iter().collect();
            go!("smile_key/client", key_of(|| smile::client_from_slice(&smile::to_vec(&m).map_err(|e| e.to_string())?).map_err(|e| e.to_string())));
            go!("smile_key/server", key_of(|| smile::server_from_slice(&smile::to_vec(&m).map_err(|e| e.to_string())?).map_err(|e| e.to_string())));
            go!("any_i64", call(|| Any::new(v)?.deserialize_into::<SafeLong>()));
            go!("any_key_i64", key_of(|| Any::new(&m)?.deserialize_into()));
        }
        if let Some(v) = x.u64() {
            go!("try_from_u64", call(|| SafeLong::try_from(v)));
            go!("any_u64", call(|| Any::new(v)?.deserialize_into::<SafeLong>()));
            go!("smile_u64/client", call(|| smile::client_from_slice::<SafeLong>(&smile::to_vec(&v).map_err(|e| e.to_string())?).map_err(|e| e.to_string())));
        }
        if let Some(v) = x.i128() {
            go!("try_from_i128", call(|| SafeLong::try_from(v)));
            go!("any_i128", call(|| Any::new(v)?.deserialize_into::<SafeLong>()));
            go!("smile_i128/server", call(|| smile::server_from_slice::<SafeLong>(&smile::to_vec(&v).map_err(|e| e.to_string())?).map_err(|e| e.to_string())));
        }
        if let Some(v) = x.u128() {
            go!("try_from_u128", call(|| SafeLong::try_from(v)));
        }
        if let Some(v) = x.fit::<isize>() {
            go!("try_from_isize", call(|| SafeLong::try_from(v)));
        }
        if let Some(v) = x.u64().and_then(|v| usize::try_from(v).ok()) {
            go!("try_from_usize", call(|| SafeLong::try_from(v)));
        }
        macro_rules! small {
            ($($t:ty, $from:expr, $any:expr);*) => {$(
                if let Some(v) = x.fit::<$t>() {
                    go!($from, call(|| Ok::<_, String>(SafeLong::from(v))));
                    go!($any, call(|| Any::new(v)?.deserialize_into::<SafeLong>()));
                }
            )*};
        }
        small!(u8, "from_u8", "any_u8"; i8, "from_i8", "any_i8"; u16, "from_u16", "any_u16";
               i16, "from_i16", "any_i16"; u32, "from_u32", "any_u32"; i32, "from_i32", "any_i32");
    }

    /// Routes whose input is text. `decoders`: also run the HTTP parameter decoders (their error
    /// path captures a backtrace, so they are run on a subset).
    fn text_routes(&mut self, text: &str, denotes: Option<Big>, canonical: bool, decoders: bool) {
        macro_rules! go {
            ($name:expr, $out:expr) => {{
                let out = $out;
                self.judge($name, text, denotes, canonical, out);
            }};
        }
        go!("from_str", call(|| SafeLong::from_str(text)));
        go!("from_plain", call(|| SafeLong::from_plain(text)));
        if decoders {
            let rt = self.runtime;
            go!("decoder/param", call(|| <FromPlainDecoder as DecodeParam<SafeLong>>::decode(rt, [text]).map_err(|e| e.cause().to_string())));
            if let Ok(h) = HeaderValue::from_str(text) {
                go!("decoder/header", call(|| <FromPlainDecoder as DecodeHeader<SafeLong>>::decode(rt, [&h]).map_err(|e| e.cause().to_string())));
            }
        }
        go!("json_value/client", call(|| json::client_from_str::<SafeLong>(text)));
        go!("json_value/server", call(|| json::server_from_str::<SafeLong>(text)));
        go!("json_value/server-slice", call(|| json::server_from_slice::<SafeLong>(text.as_bytes())));
        go!("json_value/client-reader", call(|| json::client_from_reader::<_, SafeLong>(text.as_bytes())));
        go!("any_doc/client", call(|| {
            json::client_from_str::<Any>(text).map_err(|e| e.to_string())?.deserialize_into::<SafeLong>().map_err(|e| e.to_string())
        }));
        go!("any_doc/server", call(|| {
            json::server_from_str::<Any>(text).map_err(|e| e.to_string())?.deserialize_into::<SafeLong>().map_err(|e| e.to_string())
        }));
        let mut doc = String::from("{");
        vcore::json::quote(text, &mut doc);
        doc.push_str(":true}");
        go!("json_key/client", key_of(|| json::client_from_str(&doc)));
        go!("json_key/server", key_of(|| json::server_from_str(&doc)));
        go!("json_key/server-reader", key_of(|| json::server_from_reader(doc.as_bytes())));
        go!("any_doc_key/client", key_of(|| {
            json::client_from_str::<Any>(&doc).map_err(|e| e.to_string())?.deserialize_into().map_err(|e| e.to_string())
        }));
    }

    fn integer(&mut self, x: Big, decoders: bool) {
        self.int_routes(x);
        self.text_routes(&x.dec(), Some(x), true, decoders);
    }

    /// Non-canonical spellings of `x` (all denote exactly `x`) and neighbours that denote no
    /// integer at all.
    fn non_canonical(&mut self, x: Big, decoders: bool) {
        let sign = if x.neg { "-" } else { "" };
        let digits = x.mag.to_string();
        let dec = x.dec();
        let mut forms: Vec<(String, Option<Big>)> = vec![
            (format!("{}0{}", sign, digits), Some(x)),
            (format!("{}00000000000000000000{}", sign, digits), Some(x)),
            (format!("{}.0", dec), Some(x)),
            (format!("{}.000000000000000000000", dec), Some(x)),
            (format!("{}e0", dec), Some(x)),
            (format!("{}E+0", dec), Some(x)),
            (format!("{}0e-1", dec), Some(x)),
            (format!(" {}", dec), Some(x)),
            (format!("{} ", dec), Some(x)),
            (format!("{}\n", dec), Some(x)),
            (format!("\t{}", dec), Some(x)),
            (format!("\"{}\"", dec), Some(x)),
            (format!("{}.5", dec), None),
            (format!("{}.999999999999", dec), None),
            (format!("{}e-1", dec), if x.mag % 10 == 0 { Big { neg: x.neg, mag: x.mag / 10 }.norm() } else { None }),
            (format!("{}_0", dec), None),
            (format!("0x{:x}", x.mag), None),
            (format!("{}L", dec), None),
            (format!("[{}]", dec), None),
        ];
        if !x.neg {
            forms.push((format!("+{}", digits), Some(x)));
            forms.push((format!("+0{}", digits), Some(x)));
        }
        if x.mag == 0 {
            forms.push(("-0".into(), Some(x)));
            forms.push(("-0.0".into(), Some(x)));
            forms.push(("+0".into(), Some(x)));
            forms.push(("-00".into(), Some(x)));
        }
        if x.mag > 0 {
            // d.ddd e(n-1): the same integer in scientific notation
            let (head, tail) = digits.split_at(1);
            let frac = if tail.is_empty() { String::new() } else { format!(".{}", tail) };
            forms.push((format!("{}{}{}e{}", sign, head, frac, tail.len()), Some(x)));
            forms.push((format!("{}{}{}E+{}", sign, head, frac, tail.len()), Some(x)));
            if x.mag % 10 == 0 {
                forms.push((format!("{}{}e1", sign, x.mag / 10), Some(x)));
            }
            // full-width digits
            let wide: String = digits.chars().map(|c| char::from_u32(0xFF10 + c.to_digit(10).unwrap()).unwrap()).collect();
            forms.push((format!("{}{}", sign, wide), Some(x)));
        }
        for (text, denotes) in forms {
            self.text_routes(&text, denotes, false, decoders);
        }
    }
}

// ---------------------------------------------------------------------------------------------
// workload

/// Centres of the exhaustively enumerated neighbourhoods.
fn anchors() -> Vec<(&'static str, Big)> {
    let p = |k: u32| 1u128 << k;
    vec![
        ("0", Big::pos(0)),
        ("2^53-1", Big::pos(SAFE_MAX)),
        ("-(2^53-1)", Big { neg: true, mag: SAFE_MAX }),
        ("2^53", Big::pos(p(53))),
        ("-2^53", Big { neg: true, mag: p(53) }),
        ("i64::MAX", Big::of(i64::MAX as i128)),
        ("i64::MIN", Big::of(i64::MIN as i128)),
        ("u64::MAX", Big::pos(u64::MAX as u128)),
        ("-u64::MAX", Big { neg: true, mag: u64::MAX as u128 }),
        ("i128::MAX", Big::of(i128::MAX)),
        ("i128::MIN", Big::of(i128::MIN)),
        ("u128::MAX", Big::pos(u128::MAX)),
        ("i32::MAX", Big::of(i32::MAX as i128)),
        ("i32::MIN", Big::of(i32::MIN as i128)),
        ("u32::MAX", Big::pos(u32::MAX as u128)),
        ("i16::MAX", Big::of(i16::MAX as i128)),
        ("i16::MIN", Big::of(i16::MIN as i128)),
        ("u16::MAX", Big::pos(u16::MAX as u128)),
        // f64 rounding edges seen by JSON parsers that fall back to floating point
        ("2^64+2^11", Big::pos(p(64) + p(11))),
        ("10^16", Big::pos(10u128.pow(16))),
    ]
}

fn powers() -> Vec<Big> {
    let mut v = vec![];
    for k in 0..=128u32 {
        let b = if k == 128 { None } else { Some(1u128 << k) };
        for neg in [false, true] {
            let mut mags = vec![];
            match b {
                Some(b) => {
                    mags.extend([Some(b), b.checked_sub(1), b.checked_add(1)]);
                }
                None => mags.push(Some(u128::MAX)),
            }
            for m in mags.into_iter().flatten() {
                if let Some(x) = (Big { neg, mag: m }).norm() {
                    v.push(x);
                }
            }
        }
    }
    for k in 0..=38u32 {
        let t = 10u128.pow(k);
        for neg in [false, true] {
            for m in [t, t - 1, t + 1] {
                if let Some(x) = (Big { neg, mag: m }).norm() {
                    v.push(x);
                }
            }
        }
    }
    v
}

fn gen_big(r: &mut Rng) -> Big {
    let x = match r.below(10) {
        0 => {
            let a = anchors();
            let (_, c) = a[r.below(a.len())];
            c.offset(r.range(-5000, 5000))
        }
        1 => {
            let k = r.below(129) as u32;
            let b = if k == 128 { u128::MAX } else { 1u128 << k };
            Big { neg: r.bool(), mag: b }.offset(r.range(-3, 3))
        }
        2 => Big { neg: r.bool(), mag: r.range(0, SAFE_MAX as i64) as u128 }.norm(),
        3 => Big { neg: r.bool(), mag: (1u128 << 53) + (r.u64() as u128 & ((1 << (r.below(12) as u32 + 1)) - 1)) }.norm(),
        _ => {
            // uniform over bit patterns of a random width
            let w = match r.below(8) {
                0 => 1 + r.below(128) as u32,
                1 => 53,
                2 => 54,
                3 => 63,
                4 => 64,
                5 => 65,
                6 => 127,
                _ => 128,
            };
            let m = if w == 128 { r.u128() } else { r.u128() & ((1u128 << w) - 1) };
            Big { neg: r.bool(), mag: m }.norm()
        }
    };
    x.unwrap_or(Big::pos(0))
}

pub fn run(ctx: &Ctx, report: &mut Report) {
    let runtime = ConjureRuntime::new();
    let runtime = &runtime;
    let radius: i64 = if ctx.scale < 0.5 { 128 } else { 1024 };

    // Exhaustive neighbourhoods, one thread per anchor. case_seed = anchor index * 2^32 + (delta + 4096).
    ctx.fixed(report, "neighbourhoods", |rep| {
        let list = anchors();
        let only = ctx.replay.as_ref().map(|(_, s)| *s);
        let parts: Vec<Report> = std::thread::scope(|s| {
            let handles: Vec<_> = list
                .iter()
                .enumerate()
                .map(|(ai, (name, centre))| {
                    let property = rep.property.clone();
                    s.spawn(move || {
                        let mut r = Report::new(&property);
                        let mut n = 0u64;
                        for delta in -radius..=radius {
                            let seed = ((ai as u64) << 32) | (delta + 4096) as u64;
                            if only.map(|o| o != seed).unwrap_or(false) {
                                continue;
                            }
                            let Some(x) = centre.offset(delta) else { continue };
                            n += 1;
                            let mut env = Env { rep: &mut r, sub: "neighbourhoods", seed, runtime };
                            // the decoders' error path is slow: every value near the centre, every 16th beyond
                            env.integer(x, delta.abs() <= 40 || delta % 16 == 0);
                            if delta.abs() <= 2 {
                                env.non_canonical(x, true);
                            }
                        }
                        r.cell_n(&format!("neighbourhood/{}", name), n);
                        r
                    })
                })
                .collect();
            handles.into_iter().map(|h| h.join().expect("monitor thread")).collect()
        });
        for p in parts {
            rep.merge(p);
        }
    });

    ctx.fixed(report, "powers", |rep| {
        let only = ctx.replay.as_ref().map(|(_, s)| *s);
        for (i, x) in powers().into_iter().enumerate() {
            if only.map(|o| o != i as u64).unwrap_or(false) {
                continue;
            }
            let mut env = Env { rep, sub: "powers", seed: i as u64, runtime };
            env.integer(x, true);
            env.non_canonical(x, i % 8 == 0);
            rep.cell("powers/enumerated");
        }
    });

    ctx.cases(report, "random", ctx.n(12_500, 625_000), |seed, rep| {
        let mut r = Rng::new(seed);
        let mut env = Env { rep, sub: "random", seed, runtime };
        for i in 0..16 {
            let x = gen_big(&mut r);
            env.rep.sample(2, || json!({"sub": "random", "case_seed": seed, "integer": x.dec(), "class": x.class()}));
            env.integer(x, i == 0);
        }
    });

    ctx.cases(report, "non-canonical", ctx.n(4_000, 200_000), |seed, rep| {
        let mut r = Rng::new(seed);
        let mut env = Env { rep, sub: "non-canonical", seed, runtime };
        let x = gen_big(&mut r);
        env.non_canonical(x, r.chance(1, 8));
    });

    if ctx.replay.is_none() {
        let n_anchor = anchors().len() as u64;
        report.floor_cells("neighbourhoods-enumerated", "neighbourhood/", n_anchor);
        let full: u64 = report
            .matrix
            .iter()
            .filter(|(k, v)| k.starts_with("neighbourhood/") && **v == 2 * radius as u64 + 1)
            .count() as u64;
        // the neighbourhoods of i128::MIN and u128::MAX are cut by the edge of the domain
        report.floor("neighbourhoods-complete", n_anchor - 2, full);
        let p = report.matrix.get("powers/enumerated").copied().unwrap_or(0);
        report.floor("powers-enumerated", powers().len() as u64, p);
        // every route must have been fed in-range and (except the small widths, which have none) out-of-range input
        let routes: std::collections::BTreeSet<String> = report
            .matrix
            .keys()
            .filter_map(|k| k.strip_prefix("route/"))
            .map(|k| k.rsplit_once('/').unwrap().0.to_string())
            .collect();
        report.floor("routes", ROUTES, routes.len() as u64);
        let ok = routes.iter().filter(|r| report.matrix.contains_key(&format!("route/{}/in-range-input", r))).count() as u64;
        let err = routes.iter().filter(|r| report.matrix.contains_key(&format!("route/{}/out-of-range-input", r))).count() as u64;
        report.floor("routes-given-in-range-input", ROUTES, ok);
        report.floor("routes-given-out-of-range-input", ROUTES - INFALLIBLE, err);
        report.floor_cells("range-classes", "range/", 16);
        let d = report.distinct.len() as u64;
        report.floor("distinct-route-x-class", if ctx.scale >= 1.0 { 6_000 } else { 3_000 }, d);
    }
    report.notes.push(format!(
        "exhaustive: all integers within +-{} of {} anchors (0, +-(2^53-1), +-2^53, i64/u64/i128/u128 extremes, small-width extremes) \
         through every applicable route; +-2^k, +-2^k+-1 for k = 0..=128 and 10^k+-1; the rest sampled by bit-pattern width",
        radius,
        anchors().len()
    ));
    report.notes.push(
        "distinct = route x canonical? x sign x range class x bit length. Non-canonical text (+5, 05, 1.0, 1e3, padded, quoted, \
         full-width, ...) is judged on `Ok(s) => in range and s == denoted integer` only; text that denotes no integer on the range half only"
            .into(),
    );
}

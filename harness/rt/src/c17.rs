//! C17 (bed A) – errors encode faithfully; their parameters are partitioned by declared safety.
//!
//! Sub-monitors
//! * `status`  – the `ErrorCode::status_code` table, exhaustively, against the Conjure spec.
//! * `builtin` – the eight parameterless error types shipped by conjure-error.
//! * `errors`  – a `DynError` (arbitrary code, name, *sorted* safe-arg list, fields of every
//!   parameter class, instance id supplied in every possible way or not at all) through
//!   `encode`, the JSON round trip of the result, `Error::service`, `service_safe`,
//!   `propagated_service`, `propagated_service_safe`.
//!
//! The expectation of the parameter map is the model `stringify` below, written from the
//! property text only. Parameters whose encoding the property leaves open (non-finite doubles,
//! datetime / bearer token / safelong / any) are observed, not judged, beyond "if present it is
//! the JSON string form".
use crate::ctx::{guarded, Ctx};
use crate::node::*;
use conjure_error::{encode, Error, ErrorCode, ErrorKind, ErrorType, SerializableError};
use conjure_object::{Any, BearerToken, DateTime, ResourceIdentifier, SafeLong, Utc, Uuid};
use conjure_serde::json;
use serde::ser::SerializeStruct;
use serde::{Serialize, Serializer};
use serde_bytes::ByteBuf;
use serde_json::json;
use std::collections::{BTreeMap, BTreeSet};
use std::sync::OnceLock;
use vcore::json::J;
use vcore::rng::fnv;
use vcore::text::*;
use vcore::{Report, Rng};

// ---------------------------------------------------------------------------------------------
// Static pools (`ErrorType::safe_args` and serde's struct field names must be 'static)

/// Sorted (byte order) pool of parameter names.
const FIELDS: &[&str] = &[
    "", "0", "UPPER", "a", "b-dash", "errorCode", "fooBar", "foo_bar", "parameters", "safeArg", "type", "unsafeArg",
    "with space", "with.dot", "z", "ünï",
];

const STRUCT_NAMES: &[&str] = &["DynError", "", "Default:Internal", "x"];

const NAMESPACES: &[&str] = &["Default", "Conjure", "MyService", "a", "Ünï", ""];
const NAMES: &[&str] = &["NotFound", "InvalidArgument", "DatasetNotFound", "x", "With Space", "A:B", ""];

/// 64 sorted sub-lists of `FIELDS`, the first two being the empty and the full list.
fn safe_lists() -> &'static Vec<&'static [&'static str]> {
    static LISTS: OnceLock<Vec<&'static [&'static str]>> = OnceLock::new();
    LISTS.get_or_init(|| {
        let mut r = Rng::new(0x5afe_a495);
        let mut out: Vec<&'static [&'static str]> = vec![&[], FIELDS];
        while out.len() < 64 {
            let density = 1 + r.below(7) as u32;
            let list: Vec<&'static str> = FIELDS.iter().copied().filter(|_| r.chance(density, 8)).collect();
            debug_assert!(list.windows(2).all(|w| w[0] < w[1]));
            out.push(Box::leak(list.into_boxed_slice()));
        }
        out
    })
}

const CODES: &[(&str, u16)] = &[
    ("PERMISSION_DENIED", 403),
    ("INVALID_ARGUMENT", 400),
    ("NOT_FOUND", 404),
    ("CONFLICT", 409),
    ("REQUEST_ENTITY_TOO_LARGE", 413),
    ("FAILED_PRECONDITION", 500),
    ("INTERNAL", 500),
    ("TIMEOUT", 500),
    ("CUSTOM_CLIENT", 400),
    ("CUSTOM_SERVER", 500),
];

/// Exhaustive (no wildcard: a new variant breaks the build) mapping variant -> spec name.
fn spec_name(c: &ErrorCode) -> &'static str {
    match c {
        ErrorCode::PermissionDenied => "PERMISSION_DENIED",
        ErrorCode::InvalidArgument => "INVALID_ARGUMENT",
        ErrorCode::NotFound => "NOT_FOUND",
        ErrorCode::Conflict => "CONFLICT",
        ErrorCode::RequestEntityTooLarge => "REQUEST_ENTITY_TOO_LARGE",
        ErrorCode::FailedPrecondition => "FAILED_PRECONDITION",
        ErrorCode::Internal => "INTERNAL",
        ErrorCode::Timeout => "TIMEOUT",
        ErrorCode::CustomClient => "CUSTOM_CLIENT",
        ErrorCode::CustomServer => "CUSTOM_SERVER",
    }
}

const ALL_CODES: [ErrorCode; 10] = [
    ErrorCode::PermissionDenied,
    ErrorCode::InvalidArgument,
    ErrorCode::NotFound,
    ErrorCode::Conflict,
    ErrorCode::RequestEntityTooLarge,
    ErrorCode::FailedPrecondition,
    ErrorCode::Internal,
    ErrorCode::Timeout,
    ErrorCode::CustomClient,
    ErrorCode::CustomServer,
];

// ---------------------------------------------------------------------------------------------
// Parameters

#[derive(Clone, Debug)]
enum P {
    Str(String),
    Uuid(Uuid),
    Rid(ResourceIdentifier),
    Enum(Color),
    Bool(bool),
    I32(i32),
    /// a 64-bit integer outside the safelong range is still an integer
    I64(i64),
    Safe(SafeLong),
    F64(f64),
    List(Vec<Node>),
    StrList(Vec<String>),
    Set(BTreeSet<Node>),
    Map(BTreeMap<String, Node>),
    IntMap(BTreeMap<i32, String>),
    Obj(Box<Rec>),
    EmptyObj,
    Bin(ByteBuf),
    Opt(Option<Box<P>>),
    Time(DateTime<Utc>),
    Token(BearerToken),
    /// the dynamic value and, where the property's reading is clear (string / boolean / integer
    /// content), its JSON string form
    Any(Any, Option<String>),
    /// alias of another type (a newtype struct on the serde level)
    Alias(Box<P>),
}

impl Serialize for P {
    fn serialize<S: Serializer>(&self, s: S) -> Result<S::Ok, S::Error> {
        match self {
            P::Str(v) => v.serialize(s),
            P::Uuid(v) => v.serialize(s),
            P::Rid(v) => v.serialize(s),
            P::Enum(v) => v.serialize(s),
            P::Bool(v) => v.serialize(s),
            P::I32(v) => v.serialize(s),
            P::I64(v) => v.serialize(s),
            P::Safe(v) => v.serialize(s),
            P::F64(v) => v.serialize(s),
            P::List(v) => v.serialize(s),
            P::StrList(v) => v.serialize(s),
            P::Set(v) => v.serialize(s),
            P::Map(v) => v.serialize(s),
            P::IntMap(v) => v.serialize(s),
            P::Obj(v) => v.serialize(s),
            P::EmptyObj => s.serialize_struct("Empty", 0)?.end(),
            P::Bin(v) => v.serialize(s),
            P::Opt(None) => s.serialize_none(),
            P::Opt(Some(v)) => s.serialize_some(&**v),
            P::Time(v) => v.serialize(s),
            P::Token(v) => v.serialize(s),
            P::Any(v, _) => v.serialize(s),
            P::Alias(v) => s.serialize_newtype_struct("Alias", &**v),
        }
    }
}

fn gen_scalar(r: &mut Rng) -> P {
    match r.below(13) {
        0 | 1 => P::Str(hostile_string(r, 12)),
        2 => P::Uuid(gen_uuid(r)),
        3 => P::Rid(gen_rid(r)),
        4 => P::Enum(gen_color(r)),
        5 => P::Bool(r.bool()),
        6 => P::I32(hostile_i32(r)),
        7 => P::I64(hostile_i64(r)),
        8 => P::Safe(gen_safelong(r)),
        9 | 10 => P::F64(hostile_f64(r)),
        11 => P::Time(gen_time(r)),
        _ => P::Token(gen_token(r)),
    }
}

fn gen_any(r: &mut Rng) -> P {
    fn any<T: Serialize>(v: T) -> Any {
        Any::new(v).expect("harness value converts to Any")
    }
    match r.below(8) {
        0 => {
            let s = hostile_string(r, 8);
            P::Any(any(&s), Some(s))
        }
        1 => {
            let b = r.bool();
            P::Any(any(b), Some(b.to_string()))
        }
        2 => {
            let v = hostile_i64(r);
            P::Any(any(v), Some(v.to_string()))
        }
        3 => {
            let v = r.u64();
            P::Any(any(v), Some(v.to_string()))
        }
        // doubles (finite or not), null and containers inside an `any`: left open
        4 => P::Any(any(hostile_f64(r)), None),
        5 => P::Any(any(()), None),
        6 => P::Any(any(vec![1, 2, 3]), None),
        _ => P::Any(any(gen_node(r, 1)), None),
    }
}

fn gen_param(r: &mut Rng, depth: usize) -> P {
    match r.below(20) {
        0..=8 => gen_scalar(r),
        9 => P::List((0..r.below(3)).map(|_| gen_node(r, 1)).collect()),
        10 => P::StrList((0..r.below(3)).map(|_| hostile_string(r, 5)).collect()),
        11 => P::Set((0..r.below(3)).map(|_| gen_node(r, 1)).collect()),
        12 => match r.below(2) {
            0 => P::Map((0..r.below(3)).map(|_| (hostile_string(r, 5), gen_node(r, 1))).collect()),
            _ => P::IntMap((0..r.below(3)).map(|_| (hostile_i32(r), hostile_string(r, 5))).collect()),
        },
        13 => match r.below(2) {
            0 => P::EmptyObj,
            _ => P::Obj(Box::new(Rec {
                first: gen_node(r, 1),
                opt: None,
                list: vec![],
                num: hostile_f64(r),
                id: gen_uuid(r),
            })),
        },
        14 => P::Bin(ByteBuf::from(hostile_bytes(r, 12))),
        15 => P::Opt(None),
        16 | 17 if depth > 0 => P::Opt(Some(Box::new(gen_param(r, depth - 1)))),
        18 if depth > 0 => P::Alias(Box::new(gen_param(r, depth - 1))),
        19 => gen_any(r),
        _ => gen_scalar(r),
    }
}

/// What the property says about the string entry of one parameter.
#[derive(Debug)]
enum Want {
    /// present with exactly this text
    Exact(String),
    /// present with any text that parses back to this (finite) number
    Number(f64),
    /// no entry
    Omitted,
    /// left open: if an entry is present and a JSON string form is known it must equal it
    Open(Option<String>),
}

/// The JSON string form of a value: the content of the JSON string, or the token of a
/// number / boolean.
fn json_form<T: Serialize>(v: &T) -> Option<String> {
    let text = json::to_string(v).ok()?;
    match vcore::json::parse(text.as_bytes()).ok()? {
        J::Str(s) => Some(s),
        J::Bool(b) => Some(b.to_string()),
        J::Num(n) if n.bytes().all(|c| c == b'-' || c.is_ascii_digit()) => Some(n),
        _ => None,
    }
}

/// Model of the parameter stringification, and the parameter's class.
fn stringify(p: &P) -> (Want, String) {
    match p {
        P::Str(s) => (Want::Exact(s.clone()), "string".into()),
        P::Uuid(u) => (Want::Exact(u.hyphenated().to_string()), "uuid".into()),
        P::Rid(r) => (Want::Exact(r.as_str().to_string()), "rid".into()),
        P::Enum(c) => (Want::Exact(c.as_str().to_string()), "enum".into()),
        P::Bool(b) => (Want::Exact(if *b { "true" } else { "false" }.to_string()), "boolean".into()),
        P::I32(v) => (Want::Exact(v.to_string()), "integer".into()),
        P::I64(v) => (Want::Exact(v.to_string()), "integer64".into()),
        P::F64(v) if v.is_finite() => (Want::Number(*v), "double".into()),
        // non-finite: whatever the spelling (Rust's inf / NaN or Conjure's Infinity / NaN), it must parse back to the same number
        P::F64(v) => (Want::Number(*v), "double-nonfinite".into()),
        P::Safe(v) => (Want::Open(Some((**v).to_string())), "safelong".into()),
        P::Time(t) => (Want::Open(json_form(t)), "datetime".into()),
        P::Token(t) => (Want::Open(Some(t.as_str().to_string())), "bearertoken".into()),
        P::Any(_, form) => (Want::Open(form.clone()), "any".into()),
        P::List(_) | P::StrList(_) => (Want::Omitted, "list".into()),
        P::Set(_) => (Want::Omitted, "set".into()),
        P::Map(_) | P::IntMap(_) => (Want::Omitted, "map".into()),
        P::Obj(_) => (Want::Omitted, "object".into()),
        P::EmptyObj => (Want::Omitted, "object-empty".into()),
        P::Bin(_) => (Want::Omitted, "binary".into()),
        P::Opt(None) => (Want::Omitted, "optional-absent".into()),
        P::Opt(Some(inner)) => {
            let (w, c) = stringify(inner);
            (w, format!("optional<{}>", c))
        }
        P::Alias(inner) => {
            let (w, c) = stringify(inner);
            (w, format!("alias<{}>", c))
        }
    }
}

// ---------------------------------------------------------------------------------------------

#[derive(Clone, Debug)]
struct DynError {
    code: ErrorCode,
    name: String,
    instance: Option<Uuid>,
    safe: &'static [&'static str],
    struct_name: &'static str,
    fields: Vec<(&'static str, P)>,
}

impl ErrorType for DynError {
    fn code(&self) -> ErrorCode {
        self.code.clone()
    }
    fn name(&self) -> &str {
        &self.name
    }
    fn instance_id(&self) -> Option<Uuid> {
        self.instance
    }
    fn safe_args(&self) -> &'static [&'static str] {
        self.safe
    }
}

impl Serialize for DynError {
    fn serialize<S: Serializer>(&self, s: S) -> Result<S::Ok, S::Error> {
        let mut st = s.serialize_struct(self.struct_name, self.fields.len())?;
        for (k, v) in &self.fields {
            st.serialize_field(k, v)?;
        }
        st.end()
    }
}

fn gen_error(r: &mut Rng) -> DynError {
    let mut names: Vec<&'static str> = FIELDS.to_vec();
    r.shuffle(&mut names);
    let n = match r.below(6) {
        0 => 0,
        1 => 1,
        _ => 1 + r.below(8),
    };
    names.truncate(n);
    let lists = safe_lists();
    DynError {
        code: ALL_CODES[r.below(10)].clone(),
        name: format!("{}:{}", r.pick(NAMESPACES), r.pick(NAMES)),
        instance: if r.chance(1, 3) { Some(gen_uuid(r)) } else { None },
        safe: lists[r.below(lists.len())],
        struct_name: *r.pick(STRUCT_NAMES),
        fields: names.into_iter().map(|k| (k, gen_param(r, 2))).collect(),
    }
}

struct Probe<'a> {
    rep: &'a mut Report,
    sub: &'a str,
    seed: u64,
    shown: String,
}

impl Probe<'_> {
    fn fail(&mut self, sig: String, info: serde_json::Value) {
        self.rep.violation(self.sub, self.seed, sig, json!({"error": self.shown, "info": info}));
    }
}

fn v4_well_formed(u: &Uuid) -> bool {
    let b = u.as_bytes();
    b[6] >> 4 == 4 && b[8] >> 6 == 0b10
}

/// `route`: who produced `se` ("encode", "service", ...); `id`: the instance id that was supplied.
fn check_encoded(p: &mut Probe, route: &str, e: &DynError, id: Option<Uuid>, se: &SerializableError) {
    p.rep.evaluations += 3;
    if se.error_code() != &e.code {
        p.fail(format!("{}:code", route), json!({"got": se.error_code().as_str(), "want": spec_name(&e.code)}));
    }
    if se.error_name() != e.name {
        p.fail(format!("{}:name", route), json!({"got": se.error_name(), "want": e.name}));
    }
    match id {
        Some(id) => {
            if se.error_instance_id() != id {
                p.fail(
                    format!("{}:instance-id-not-the-supplied-one", route),
                    json!({"got": se.error_instance_id().to_string(), "want": id.to_string()}),
                );
            }
        }
        None => {
            if !v4_well_formed(&se.error_instance_id()) {
                p.fail(format!("{}:instance-id-not-v4", route), json!({"got": se.error_instance_id().to_string()}));
            }
        }
    }
    let params = se.parameters();
    for (name, value) in &e.fields {
        let (want, class) = stringify(value);
        let got = params.get(*name);
        p.rep.evaluations += 1;
        p.rep.cell(&format!("param/{}", class.split('<').next().unwrap_or("")));
        // signature class: outermost wrapper (if any) around the innermost class; deeper nesting
        // is collapsed so that the set of signatures stays small and stable
        let inner = class.rsplit('<').next().unwrap_or("").trim_end_matches('>');
        let sig_class = match class.split_once('<') {
            Some((outer, _)) => format!("{}<{}>", outer, inner),
            None => class.clone(),
        };
        let bad = |what: &str, p: &mut Probe| {
            p.fail(
                format!("{}:param-{}:{}", route, sig_class, what),
                json!({"parameter": name, "class": class, "value": trunc(&format!("{:?}", value)), "entry": got, "expected": format!("{:?}", want)}),
            );
        };
        match (&want, got) {
            (Want::Exact(s), Some(g)) if g == s => {}
            (Want::Exact(_), Some(_)) => bad("wrong-text", p),
            (Want::Exact(_), None) => bad("missing", p),
            (Want::Number(d), Some(g)) => {
                // independent parsers: Rust's, plus the Conjure spellings of the special values
                let back = match g.as_str() {
                    "Infinity" => Some(f64::INFINITY),
                    "-Infinity" => Some(f64::NEG_INFINITY),
                    t => t.parse::<f64>().ok(),
                };
                let same = match back {
                    Some(b) => b == *d || (b.is_nan() && d.is_nan()),
                    None => false,
                };
                if !same {
                    bad("does-not-parse-back", p);
                }
                if !d.is_finite() {
                    p.rep.observed_only(&format!("param-double-nonfinite:text={}", g));
                }
            }
            (Want::Number(_), None) => bad("missing", p),
            (Want::Omitted, None) => {}
            (Want::Omitted, Some(_)) => bad("not-omitted", p),
            (Want::Open(form), got) => {
                let state = match (form, got) {
                    (_, None) => "absent".to_string(),
                    (Some(f), Some(g)) if f == g => "json-form".to_string(),
                    (Some(_), Some(_)) => {
                        bad("differs-from-json-form", p);
                        "other".to_string()
                    }
                    (None, Some(g)) if class.contains("double-nonfinite") => format!("text={}", g),
                    (None, Some(_)) => "present".to_string(),
                };
                p.rep.observed_only(&format!("param-{}:{}", inner, state));
            }
        }
    }
    // exactly one entry per scalar parameter: nothing else in the map
    p.rep.evaluations += 1;
    for k in params.keys() {
        if !e.fields.iter().any(|(n, _)| n == k) {
            p.fail(format!("{}:parameter-not-declared", route), json!({"key": k}));
        }
    }
}

fn check_json_roundtrip(p: &mut Probe, se: &SerializableError) {
    p.rep.evaluations += 2;
    p.rep.cell("json-roundtrip");
    let text = match guarded(|| json::to_string(se)) {
        Ok(Ok(t)) => t,
        Ok(Err(e)) => return p.fail("json:serialize-error".into(), json!(e.to_string())),
        Err(e) => return p.fail("json:serialize-panic".into(), json!(e)),
    };
    type Parse = fn(&str) -> Result<SerializableError, String>;
    let routes: [(&str, Parse); 2] = [
        ("client", |s| json::client_from_str(s).map_err(|e| e.to_string())),
        ("server", |s| json::server_from_str(s).map_err(|e| e.to_string())),
    ];
    for (route, parse) in routes {
        match guarded(|| parse(&text)) {
            Ok(Ok(back)) => {
                if back != *se {
                    p.fail(format!("json:{}:not-identity", route), json!({"document": trunc(&text), "got": trunc(&format!("{:?}", back))}));
                }
            }
            Ok(Err(e)) => p.fail(format!("json:{}:parse-error", route), json!({"document": trunc(&text), "error": e})),
            Err(e) => p.fail(format!("json:{}:parse-panic", route), json!({"document": trunc(&text), "error": e})),
        }
    }
}

/// The safe / unsafe partition of `err` against the encoded parameters and the declared list.
fn check_partition(p: &mut Probe, route: &str, err: &Error, se: &SerializableError, safe_args: &[&str]) {
    let safe: BTreeMap<&str, &Any> = err.safe_params().iter().collect();
    let unsafe_: BTreeMap<&str, &Any> = err.unsafe_params().iter().collect();
    p.rep.evaluations += 2;
    if safe.len() != err.safe_params().len() || unsafe_.len() != err.unsafe_params().len() {
        p.fail(format!("{}:params-len-disagrees-with-iter", route), json!(null));
    }
    for (k, v) in se.parameters() {
        p.rep.evaluations += 1;
        let declared = safe_args.contains(&k.as_str());
        p.rep.cell(if declared { "partition/declared-safe" } else { "partition/not-declared-safe" });
        let (s, u) = (safe.get(k.as_str()), unsafe_.get(k.as_str()));
        let info = || json!({"key": k, "declared_safe": declared, "in_safe": s.is_some(), "in_unsafe": u.is_some()});
        match (s, u) {
            (Some(_), Some(_)) => p.fail(format!("{}:param-in-both-sets", route), info()),
            (None, None) => p.fail(format!("{}:param-in-neither-set", route), info()),
            (Some(_), None) if !declared => p.fail(format!("{}:undeclared-param-is-safe", route), info()),
            (None, Some(_)) if declared => p.fail(format!("{}:declared-safe-param-is-unsafe", route), info()),
            _ => {}
        }
        if let Some(a) = s.or(u) {
            match guarded(|| (*a).clone().deserialize_into::<String>()) {
                Ok(Ok(t)) if t == *v => {}
                other => p.fail(
                    format!("{}:exposed-value-differs", route),
                    json!({"key": k, "encoded": v, "exposed": trunc(&format!("{:?}", other))}),
                ),
            }
        }
    }
    p.rep.evaluations += 1;
    for k in safe.keys().chain(unsafe_.keys()) {
        if !se.parameters().contains_key(*k) {
            p.fail(format!("{}:exposed-param-not-encoded", route), json!({"key": k}));
        }
    }
}

fn error_case(rep: &mut Report, sub: &str, seed: u64) {
    let mut rng = Rng::new(seed);
    let r = &mut rng;
    let e = gen_error(r);
    // how the instance id is supplied: 0 not at all / by the type only, 1 by `with_instance_id`
    let wrap = if r.chance(1, 3) { Some(gen_uuid(r)) } else { None };
    let supplied = wrap.or(e.instance);
    let idmode = match (wrap, e.instance) {
        (None, None) => "fresh",
        (None, Some(_)) => "by-type",
        (Some(_), None) => "with-instance-id",
        (Some(_), Some(_)) => "with-instance-id-over-type",
    };
    rep.sample(3, || json!({"sub": sub, "case_seed": seed, "error": trunc(&format!("{:?}", e))}));
    let mut p = Probe { rep, sub, seed, shown: trunc(&format!("{:?} idmode={}", e, idmode)) };
    let mark = |p: &mut Probe, ctor: &str| {
        p.rep.cell(&format!("ctor/{}/{}", ctor, idmode));
        p.rep.distinct.insert(fnv(&format!("{}|{}|{}|n{}", ctor, idmode, spec_name(&e.code), e.fields.len().min(4))));
        for (name, v) in &e.fields {
            let (_, class) = stringify(v);
            let safe = e.safe.contains(name);
            p.rep.distinct.insert(fnv(&format!("{}|{}|{}|{}", ctor, idmode, class, safe)));
        }
    };

    // ---- encode
    let enc = |e: &DynError| match wrap {
        Some(id) => guarded(|| encode(&e.with_instance_id(id))),
        None => guarded(|| encode(e)),
    };
    mark(&mut p, "encode");
    let se = match enc(&e) {
        Ok(se) => se,
        Err(panic) => return p.fail("encode:panic".into(), json!(panic)),
    };
    check_encoded(&mut p, "encode", &e, supplied, &se);
    if supplied.is_none() {
        p.rep.evaluations += 1;
        match enc(&e) {
            Ok(se2) if se2.error_instance_id() == se.error_instance_id() => {
                p.fail("encode:fresh-instance-id-repeats".into(), json!(se.error_instance_id().to_string()))
            }
            _ => {}
        }
    }
    check_json_roundtrip(&mut p, &se);

    // ---- Error::service / service_safe
    for (ctor, safe_cause) in [("service", false), ("service_safe", true)] {
        mark(&mut p, ctor);
        let made = guarded(|| match (wrap, safe_cause) {
            (Some(id), false) => Error::service("cause", (&e).with_instance_id(id)),
            (Some(id), true) => Error::service_safe("cause", (&e).with_instance_id(id)),
            (None, false) => Error::service("cause", &e),
            (None, true) => Error::service_safe("cause", &e),
        });
        let err = match made {
            Ok(err) => err,
            Err(panic) => {
                p.fail(format!("{}:panic", ctor), json!(panic));
                continue;
            }
        };
        match err.kind() {
            ErrorKind::Service(inner) => {
                check_encoded(&mut p, ctor, &e, supplied, inner);
                check_partition(&mut p, ctor, &err, inner, e.safe);
            }
            other => p.fail(format!("{}:kind-not-service", ctor), json!(format!("{:?}", other))),
        }
    }

    // ---- Error::propagated_service / propagated_service_safe: a description received from a
    // remote service; possibly with parameters the local type never declared
    let mut remote = se.clone();
    if r.chance(1, 3) {
        let mut b = SerializableError::builder()
            .error_code(ALL_CODES[r.below(10)].clone())
            .error_name(format!("{}:{}", r.pick(NAMESPACES), r.pick(NAMES)))
            .error_instance_id(gen_uuid(r));
        for _ in 0..r.below(6) {
            let k = if r.bool() { r.pick(FIELDS).to_string() } else { hostile_string(r, 8) };
            b = b.insert_parameters(k, hostile_string(r, 8));
        }
        remote = b.build();
        check_json_roundtrip(&mut p, &remote);
    }
    for (ctor, safe_cause) in [("propagated_service", false), ("propagated_service_safe", true)] {
        mark(&mut p, ctor);
        let made = guarded(|| {
            if safe_cause {
                Error::propagated_service_safe("cause", remote.clone())
            } else {
                Error::propagated_service("cause", remote.clone())
            }
        });
        let err = match made {
            Ok(err) => err,
            Err(panic) => {
                p.fail(format!("{}:panic", ctor), json!(panic));
                continue;
            }
        };
        match err.kind() {
            ErrorKind::Service(inner) => {
                p.rep.evaluations += 1;
                if *inner != remote {
                    p.fail(format!("{}:description-changed", ctor), json!(trunc(&format!("{:?}", inner))));
                }
                // propagated: nothing is declared safe
                check_partition(&mut p, ctor, &err, &remote, &[]);
                p.rep.evaluations += 1;
                if !err.safe_params().is_empty() {
                    p.fail(format!("{}:has-safe-params", ctor), json!(err.safe_params().len()));
                }
            }
            other => p.fail(format!("{}:kind-not-service", ctor), json!(format!("{:?}", other))),
        }
    }
}

fn status_table(rep: &mut Report) {
    use std::str::FromStr;
    for (i, code) in ALL_CODES.iter().enumerate() {
        let name = spec_name(code);
        let want = CODES.iter().find(|(n, _)| *n == name).map(|(_, s)| *s);
        rep.evaluations += 1;
        rep.cell(&format!("status/{}", name));
        rep.distinct.insert(fnv(&format!("status|{}", name)));
        let got = guarded(|| code.status_code());
        if got.as_ref().ok().copied() != want {
            rep.violation(
                "status",
                i as u64,
                format!("status-code:{}", name),
                json!({"code": name, "got": format!("{:?}", got), "expected": want}),
            );
        }
    }
    // the same through the names of the specification (variant <-> name binding)
    for (i, (name, status)) in CODES.iter().enumerate() {
        rep.evaluations += 2;
        let by_name = guarded(|| ErrorCode::from_str(name).ok().map(|c| c.status_code()));
        let by_json = guarded(|| json::client_from_str::<ErrorCode>(&format!("\"{}\"", name)).ok().map(|c| c.status_code()));
        for (route, got) in [("from_str", by_name), ("json", by_json)] {
            if got != Ok(Some(*status)) {
                rep.violation(
                    "status",
                    i as u64,
                    format!("status-code:{}:{}", name, route),
                    json!({"code": name, "got": format!("{:?}", got), "expected": status}),
                );
            }
        }
    }
}

fn builtin(rep: &mut Report) {
    fn one<T: ErrorType + Serialize>(rep: &mut Report, i: u64, e: T, code: ErrorCode, name: &str) {
        rep.evaluations += 1;
        rep.cell(&format!("builtin/{}", name));
        rep.distinct.insert(fnv(&format!("builtin|{}", name)));
        let mut bad = |what: &str, info: String| {
            rep.violation("builtin", i, format!("builtin:{}:{}", name, what), json!({"type": name, "info": info}));
        };
        if !e.safe_args().windows(2).all(|w| w[0] < w[1]) {
            bad("safe-args-unsorted", format!("{:?}", e.safe_args()));
        }
        match (guarded(|| encode(&e)), guarded(|| encode(&e))) {
            (Ok(a), Ok(b)) => {
                if a.error_code() != &code {
                    bad("code", a.error_code().as_str().to_string());
                }
                if a.error_name() != format!("Default:{}", name) {
                    bad("name", a.error_name().to_string());
                }
                if !a.parameters().is_empty() {
                    bad("parameters", format!("{:?}", a.parameters()));
                }
                if !v4_well_formed(&a.error_instance_id()) || a.error_instance_id() == b.error_instance_id() {
                    bad("instance-id", a.error_instance_id().to_string());
                }
            }
            (a, _) => bad("panic", format!("{:?}", a.err())),
        }
    }
    use conjure_error::*;
    one(rep, 0, PermissionDenied::new(), ErrorCode::PermissionDenied, "PermissionDenied");
    one(rep, 1, InvalidArgument::new(), ErrorCode::InvalidArgument, "InvalidArgument");
    one(rep, 2, NotFound::new(), ErrorCode::NotFound, "NotFound");
    one(rep, 3, Conflict::new(), ErrorCode::Conflict, "Conflict");
    one(rep, 4, RequestEntityTooLarge::new(), ErrorCode::RequestEntityTooLarge, "RequestEntityTooLarge");
    one(rep, 5, FailedPrecondition::new(), ErrorCode::FailedPrecondition, "FailedPrecondition");
    one(rep, 6, Internal::new(), ErrorCode::Internal, "Internal");
    one(rep, 7, Timeout::new(), ErrorCode::Timeout, "Timeout");
}

pub fn run(ctx: &Ctx, report: &mut Report) {
    ctx.fixed(report, "status", status_table);
    ctx.fixed(report, "builtin", builtin);
    ctx.cases(report, "errors", ctx.n(50_000, 3_000_000), |seed, rep| {
        error_case(rep, "errors", seed);
    });
    if ctx.replay.is_none() {
        report.floor_cells("status-codes", "status/", 10);
        report.floor_cells("builtin-errors", "builtin/", 8);
        // 5 constructors x 4 ways of (not) supplying the instance id
        report.floor_cells("constructor-x-idmode", "ctor/", 20);
        // string uuid rid enum boolean integer integer64 safelong double double-nonfinite datetime
        // bearertoken any list set map object object-empty binary optional-absent optional alias
        report.floor_cells("parameter-classes", "param/", 22);
        report.floor_cells("partition-sides", "partition/", 2);
        let d = report.distinct.len() as u64;
        report.floor("distinct-classes", if ctx.scale >= 1.0 { 1500 } else { 500 }, d);
    }
    report.notes.push(
        "distinct = (constructor, instance-id mode, parameter class incl. optional/alias nesting, declared safe?) + (constructor, id mode, code, field count)".into(),
    );
}

//! Shared core of the runtime-monitoring harness: PRNG, report/event types, reference models.
pub mod json;
pub mod models;
pub mod report;
pub mod rng;
pub mod text;

pub use report::{Report, Violation};
pub use rng::Rng;

//! Hostile text and number generators.
use crate::Rng;

pub const RESERVED: &[char] = &[
    '%', '+', '/', '?', '#', '&', '=', ';', ':', '@', ' ', '\\', '"', '<', '>', '[', ']', '{', '}',
    '|', '^', '`', '\'', ',', '$', '!', '*', '(', ')', '~', '.', '-', '_',
];

const LOOKALIKES: &[&str] = &[
    "NaN", "Infinity", "-Infinity", "true", "false", "null", "AA==", "0", "-0", "1e3", "", " ",
    "%2F", "%", "%%", "%zz", "..", ".", "a/b", "a b", "a+b", "a&b=c", "x#y", "?", "é", "日本語",
    "😀", "\u{0}", "\n", "\t", "\u{7f}", "\u{80}", "\u{ffff}", "\u{10ffff}", "\"", "\\", "\\u0000",
    "ri.a.b.c.d", "00000000-0000-0000-0000-000000000000", "1970-01-01T00:00:00Z", "type",
];

/// Arbitrary Unicode string biased to characters that matter to encoders.
pub fn hostile_string(r: &mut Rng, max_len: usize) -> String {
    match r.below(10) {
        0 => LOOKALIKES[r.below(LOOKALIKES.len())].to_string(),
        1 => {
            let a = LOOKALIKES[r.below(LOOKALIKES.len())];
            let b = LOOKALIKES[r.below(LOOKALIKES.len())];
            format!("{}{}", a, b)
        }
        _ => {
            let n = r.below(max_len + 1);
            let mut s = String::new();
            for _ in 0..n {
                s.push(hostile_char(r));
            }
            s
        }
    }
}

pub fn hostile_char(r: &mut Rng) -> char {
    match r.below(8) {
        0 | 1 => (b'a' + r.below(26) as u8) as char,
        2 => RESERVED[r.below(RESERVED.len())],
        3 => (r.below(128) as u8) as char,
        4 => char::from_u32(0x80 + r.below(0x780) as u32).unwrap_or('é'),
        5 => char::from_u32(0x800 + r.below(0xD000) as u32).unwrap_or('€'),
        6 => char::from_u32(0x10000 + r.below(0x100000) as u32).unwrap_or('😀'),
        _ => (b'0' + r.below(10) as u8) as char,
    }
}

pub fn alnum(r: &mut Rng, n: usize) -> String {
    const A: &[u8] = b"abcdefghijklmnopqrstuvwxyzABCDEFGHIJKLMNOPQRSTUVWXYZ0123456789";
    (0..n).map(|_| A[r.below(A.len())] as char).collect()
}

/// f64 by bit-pattern class.
pub fn hostile_f64(r: &mut Rng) -> f64 {
    match r.below(16) {
        0 => f64::NAN,
        1 => f64::from_bits(0x7ff8_0000_0000_0000 | (r.u64() & 0x0007_ffff_ffff_ffff)),
        2 => f64::from_bits(0xfff8_0000_0000_0000 | (r.u64() & 0x0007_ffff_ffff_ffff)),
        3 => f64::INFINITY,
        4 => f64::NEG_INFINITY,
        5 => 0.0,
        6 => -0.0,
        7 => f64::from_bits(r.u64() & 0x800f_ffff_ffff_ffff), // subnormal
        8 => *r.pick(&[f64::MAX, f64::MIN, f64::MIN_POSITIVE, f64::EPSILON, 5e-324, 1e308, -1e-308]),
        9 => r.range(-1000, 1000) as f64,
        10 => r.range(-(1 << 53), 1 << 53) as f64,
        11 => 10f64.powi(r.range(-320, 308) as i32),
        12 => r.range(-100000, 100000) as f64 / 1000.0,
        _ => {
            // every exponent reachable: random exponent, random mantissa (finite)
            let e = r.below(0x7ff) as u64;
            f64::from_bits((r.u64() & 0x800f_ffff_ffff_ffff) | (e << 52))
        }
    }
}

pub fn hostile_i64(r: &mut Rng) -> i64 {
    match r.below(8) {
        0 => *r.pick(&[0, 1, -1, i64::MAX, i64::MIN, i32::MAX as i64, i32::MIN as i64]),
        1 => {
            let k = r.below(63) as u32;
            let b = 1i64 << k;
            *r.pick(&[b, b - 1, b.wrapping_add(1), -b, -b + 1, -b - 1])
        }
        2 => r.range(-1024, 1024),
        3 => (1i64 << 53) + r.range(-1024, 1024),
        4 => -(1i64 << 53) + r.range(-1024, 1024),
        _ => r.u64() as i64,
    }
}

pub fn hostile_i32(r: &mut Rng) -> i32 {
    match r.below(6) {
        0 => *r.pick(&[0, 1, -1, i32::MAX, i32::MIN, i32::MAX - 1, i32::MIN + 1]),
        1 => {
            let k = r.below(31) as u32;
            let b = 1i32 << k;
            *r.pick(&[b, b - 1, -b, -b + 1])
        }
        2 => r.range(-300, 300) as i32,
        _ => r.u64() as i32,
    }
}

pub fn hostile_bytes(r: &mut Rng, max: usize) -> Vec<u8> {
    let n = match r.below(6) {
        0 => 0,
        1 => 1 + r.below(3),
        _ => r.below(max + 1),
    };
    match r.below(4) {
        0 => vec![*r.pick(&[0u8, 0xff, 0x3e, 0x3f, 0xfb, 0xfc]); n],
        _ => r.bytes(n),
    }
}

//! What a monitor run reports. Verdicts are three-valued: a non-empty `violations` list means
//! *violated*; unmet `floors` mean *inconclusive*; otherwise *held on what was observed*.
use crate::rng::fnv;
use serde::{Deserialize, Serialize};
use serde_json::Value;
use std::collections::{BTreeMap, BTreeSet};

#[derive(Serialize, Deserialize, Clone, Debug)]
pub struct Violation {
    /// Exact machine signature; known findings are matched on this and nothing else.
    pub sig: String,
    /// Sub-monitor that observed it.
    pub sub: String,
    /// Seed of the case: `rt <prop> --replay` re-executes `sub` with exactly this seed.
    pub case_seed: u64,
    /// Human readable witness: input, observed, expected.
    pub detail: Value,
}

#[derive(Serialize, Deserialize, Default, Debug)]
pub struct Report {
    pub property: String,
    pub evaluations: u64,
    /// 64-bit hashes of the distinct non-trivial case signatures seen.
    pub distinct: BTreeSet<u64>,
    /// Readable histogram of coarse case classes (matrix cells, rules, paths).
    pub matrix: BTreeMap<String, u64>,
    /// Cases the property leaves open: counted, never judged.
    pub observed_only: BTreeMap<String, u64>,
    pub samples: Vec<Value>,
    pub violations: Vec<Violation>,
    /// Coverage floors: name -> (required, seen). Unmet floor => inconclusive.
    pub floors: BTreeMap<String, (u64, u64)>,
    /// Ids of pinned known-finding witnesses that were re-executed and still fail, with their sig.
    pub pinned: BTreeMap<String, String>,
    pub notes: Vec<String>,
}

impl Report {
    pub fn new(property: &str) -> Report {
        Report {
            property: property.to_string(),
            ..Default::default()
        }
    }

    /// Record one oracle evaluation with its distinctness signature and matrix cell.
    pub fn eval(&mut self, sig: &str) {
        self.evaluations += 1;
        self.distinct.insert(fnv(sig));
    }

    pub fn cell(&mut self, cell: &str) {
        *self.matrix.entry(cell.to_string()).or_insert(0) += 1;
    }

    pub fn cell_n(&mut self, cell: &str, n: u64) {
        *self.matrix.entry(cell.to_string()).or_insert(0) += n;
    }

    pub fn observed_only(&mut self, class: &str) {
        *self.observed_only.entry(class.to_string()).or_insert(0) += 1;
    }

    pub fn sample(&mut self, cap: usize, v: impl FnOnce() -> Value) {
        if self.samples.len() < cap {
            self.samples.push(v());
        }
    }

    pub fn violation(&mut self, sub: &str, case_seed: u64, sig: impl Into<String>, detail: Value) {
        // keep the report bounded: at most 40 witnesses per signature are kept
        let sig = sig.into();
        let n = self.violations.iter().filter(|v| v.sig == sig).count();
        if n < 40 {
            self.violations.push(Violation {
                sig,
                sub: sub.to_string(),
                case_seed,
                detail,
            });
        }
    }

    pub fn floor(&mut self, name: &str, required: u64, seen: u64) {
        self.floors.insert(name.to_string(), (required, seen));
    }

    /// Floor on the number of matrix cells with the given prefix that were hit at least once.
    pub fn floor_cells(&mut self, name: &str, prefix: &str, required: u64) {
        let seen = self.matrix.keys().filter(|k| k.starts_with(prefix)).count() as u64;
        self.floor(name, required, seen);
    }

    pub fn merge(&mut self, other: Report) {
        self.evaluations += other.evaluations;
        self.distinct.extend(other.distinct);
        for (k, v) in other.matrix {
            *self.matrix.entry(k).or_insert(0) += v;
        }
        for (k, v) in other.observed_only {
            *self.observed_only.entry(k).or_insert(0) += v;
        }
        for s in other.samples {
            if self.samples.len() < 24 {
                self.samples.push(s);
            }
        }
        self.violations.extend(other.violations);
        for (k, (r, s)) in other.floors {
            let e = self.floors.entry(k).or_insert((r, 0));
            e.1 = e.1.max(s);
        }
        self.pinned.extend(other.pinned);
        self.notes.extend(other.notes);
    }
}

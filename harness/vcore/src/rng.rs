//! Deterministic PRNG (splitmix64 seeding, xoshiro256**). No external crates so every case is
//! replayable from a 64-bit case seed.
#[derive(Clone, Debug)]
pub struct Rng {
    s: [u64; 4],
}

pub fn splitmix(x: &mut u64) -> u64 {
    *x = x.wrapping_add(0x9E37_79B9_7F4A_7C15);
    let mut z = *x;
    z = (z ^ (z >> 30)).wrapping_mul(0xBF58_476D_1CE4_E5B9);
    z = (z ^ (z >> 27)).wrapping_mul(0x94D0_49BB_1331_11EB);
    z ^ (z >> 31)
}

/// FNV-1a, used for deriving sub-seeds from names and for signature hashes.
pub fn fnv(s: &str) -> u64 {
    let mut h: u64 = 0xcbf2_9ce4_8422_2325;
    for b in s.as_bytes() {
        h ^= *b as u64;
        h = h.wrapping_mul(0x0100_0000_01b3);
    }
    h
}

/// Derives the seed of case `index` of sub-monitor `sub` under the run seed.
pub fn case_seed(seed: u64, sub: &str, index: u64) -> u64 {
    let mut x = seed ^ fnv(sub).rotate_left(17) ^ index.wrapping_mul(0xD6E8_FEB8_6659_FD93);
    splitmix(&mut x)
}

impl Rng {
    pub fn new(seed: u64) -> Rng {
        let mut x = seed;
        Rng {
            s: [
                splitmix(&mut x),
                splitmix(&mut x),
                splitmix(&mut x),
                splitmix(&mut x),
            ],
        }
    }

    pub fn u64(&mut self) -> u64 {
        let r = self.s[1].wrapping_mul(5).rotate_left(7).wrapping_mul(9);
        let t = self.s[1] << 17;
        self.s[2] ^= self.s[0];
        self.s[3] ^= self.s[1];
        self.s[1] ^= self.s[2];
        self.s[0] ^= self.s[3];
        self.s[2] ^= t;
        self.s[3] = self.s[3].rotate_left(45);
        r
    }

    pub fn u128(&mut self) -> u128 {
        ((self.u64() as u128) << 64) | self.u64() as u128
    }

    /// Uniform in `0..n` (n > 0).
    pub fn below(&mut self, n: usize) -> usize {
        (self.u64() % n as u64) as usize
    }

    /// Uniform in `lo..=hi`.
    pub fn range(&mut self, lo: i64, hi: i64) -> i64 {
        let span = (hi as i128 - lo as i128 + 1) as u128;
        (lo as i128 + (self.u128() % span) as i128) as i64
    }

    pub fn bool(&mut self) -> bool {
        self.u64() & 1 == 1
    }

    /// True with probability num/den.
    pub fn chance(&mut self, num: u32, den: u32) -> bool {
        (self.u64() % den as u64) < num as u64
    }

    pub fn pick<'a, T>(&mut self, xs: &'a [T]) -> &'a T {
        &xs[self.below(xs.len())]
    }

    pub fn shuffle<T>(&mut self, xs: &mut [T]) {
        for i in (1..xs.len()).rev() {
            let j = self.below(i + 1);
            xs.swap(i, j);
        }
    }

    pub fn bytes(&mut self, n: usize) -> Vec<u8> {
        (0..n).map(|_| self.u64() as u8).collect()
    }

    pub fn fork(&mut self) -> Rng {
        Rng::new(self.u64())
    }
}

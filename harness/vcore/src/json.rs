//! A strict RFC 8259 parser that keeps number text, member order and duplicate members. It is the
//! harness's definition of "standard JSON" and shares nothing with serde_json.
#[derive(Clone, Debug, PartialEq)]
pub enum J {
    Null,
    Bool(bool),
    /// Raw number text as written.
    Num(String),
    Str(String),
    Arr(Vec<J>),
    Obj(Vec<(String, J)>),
}

pub fn parse(text: &[u8]) -> Result<J, String> {
    let s = std::str::from_utf8(text).map_err(|e| format!("not UTF-8: {}", e))?;
    let mut p = P { b: s.as_bytes(), s, i: 0, depth: 0 };
    p.ws();
    let v = p.value()?;
    p.ws();
    if p.i != p.b.len() {
        return Err(format!("trailing data at byte {}", p.i));
    }
    Ok(v)
}

struct P<'a> {
    b: &'a [u8],
    s: &'a str,
    i: usize,
    depth: usize,
}

impl P<'_> {
    fn ws(&mut self) {
        while self.i < self.b.len() && matches!(self.b[self.i], b' ' | b'\t' | b'\n' | b'\r') {
            self.i += 1;
        }
    }

    fn peek(&self) -> Option<u8> {
        self.b.get(self.i).copied()
    }

    fn lit(&mut self, w: &str, v: J) -> Result<J, String> {
        if self.s[self.i..].starts_with(w) {
            self.i += w.len();
            Ok(v)
        } else {
            Err(format!("bad literal at byte {}", self.i))
        }
    }

    fn value(&mut self) -> Result<J, String> {
        self.depth += 1;
        if self.depth > 2000 {
            return Err("too deep".into());
        }
        let r = match self.peek() {
            None => Err("unexpected end".to_string()),
            Some(b'n') => self.lit("null", J::Null),
            Some(b't') => self.lit("true", J::Bool(true)),
            Some(b'f') => self.lit("false", J::Bool(false)),
            Some(b'"') => self.string().map(J::Str),
            Some(b'[') => {
                self.i += 1;
                let mut v = vec![];
                self.ws();
                if self.peek() == Some(b']') {
                    self.i += 1;
                } else {
                    loop {
                        self.ws();
                        v.push(self.value()?);
                        self.ws();
                        match self.peek() {
                            Some(b',') => self.i += 1,
                            Some(b']') => {
                                self.i += 1;
                                break;
                            }
                            _ => return Err(format!("expected , or ] at byte {}", self.i)),
                        }
                    }
                }
                Ok(J::Arr(v))
            }
            Some(b'{') => {
                self.i += 1;
                let mut v = vec![];
                self.ws();
                if self.peek() == Some(b'}') {
                    self.i += 1;
                } else {
                    loop {
                        self.ws();
                        if self.peek() != Some(b'"') {
                            return Err(format!("expected member name at byte {}", self.i));
                        }
                        let k = self.string()?;
                        self.ws();
                        if self.peek() != Some(b':') {
                            return Err(format!("expected : at byte {}", self.i));
                        }
                        self.i += 1;
                        self.ws();
                        let val = self.value()?;
                        v.push((k, val));
                        self.ws();
                        match self.peek() {
                            Some(b',') => self.i += 1,
                            Some(b'}') => {
                                self.i += 1;
                                break;
                            }
                            _ => return Err(format!("expected , or }} at byte {}", self.i)),
                        }
                    }
                }
                Ok(J::Obj(v))
            }
            Some(c) if c == b'-' || c.is_ascii_digit() => self.number(),
            Some(c) => Err(format!("unexpected byte 0x{:02x} at {}", c, self.i)),
        };
        self.depth -= 1;
        r
    }

    fn number(&mut self) -> Result<J, String> {
        let start = self.i;
        if self.peek() == Some(b'-') {
            self.i += 1;
        }
        match self.peek() {
            Some(b'0') => self.i += 1,
            Some(c) if c.is_ascii_digit() => {
                while matches!(self.peek(), Some(c) if c.is_ascii_digit()) {
                    self.i += 1;
                }
            }
            _ => return Err(format!("bad number at byte {}", start)),
        }
        if self.peek() == Some(b'.') {
            self.i += 1;
            if !matches!(self.peek(), Some(c) if c.is_ascii_digit()) {
                return Err(format!("bad fraction at byte {}", start));
            }
            while matches!(self.peek(), Some(c) if c.is_ascii_digit()) {
                self.i += 1;
            }
        }
        if matches!(self.peek(), Some(b'e') | Some(b'E')) {
            self.i += 1;
            if matches!(self.peek(), Some(b'+') | Some(b'-')) {
                self.i += 1;
            }
            if !matches!(self.peek(), Some(c) if c.is_ascii_digit()) {
                return Err(format!("bad exponent at byte {}", start));
            }
            while matches!(self.peek(), Some(c) if c.is_ascii_digit()) {
                self.i += 1;
            }
        }
        Ok(J::Num(self.s[start..self.i].to_string()))
    }

    fn hex4(&mut self) -> Result<u32, String> {
        if self.i + 4 > self.b.len() {
            return Err("short \\u escape".into());
        }
        let h = &self.s.get(self.i..self.i + 4).ok_or("bad \\u escape")?;
        let v = u32::from_str_radix(h, 16).map_err(|_| "bad \\u escape".to_string())?;
        if !h.bytes().all(|c| c.is_ascii_hexdigit()) {
            return Err("bad \\u escape".into());
        }
        self.i += 4;
        Ok(v)
    }

    fn string(&mut self) -> Result<String, String> {
        self.i += 1; // opening quote
        let mut out = String::new();
        loop {
            let c = self.peek().ok_or("unterminated string")?;
            match c {
                b'"' => {
                    self.i += 1;
                    return Ok(out);
                }
                b'\\' => {
                    self.i += 1;
                    let e = self.peek().ok_or("unterminated escape")?;
                    self.i += 1;
                    match e {
                        b'"' => out.push('"'),
                        b'\\' => out.push('\\'),
                        b'/' => out.push('/'),
                        b'b' => out.push('\u{8}'),
                        b'f' => out.push('\u{c}'),
                        b'n' => out.push('\n'),
                        b'r' => out.push('\r'),
                        b't' => out.push('\t'),
                        b'u' => {
                            let hi = self.hex4()?;
                            let cp = if (0xD800..0xDC00).contains(&hi) {
                                if self.peek() == Some(b'\\') && self.b.get(self.i + 1) == Some(&b'u') {
                                    self.i += 2;
                                    let lo = self.hex4()?;
                                    if !(0xDC00..0xE000).contains(&lo) {
                                        return Err("bad low surrogate".into());
                                    }
                                    0x10000 + ((hi - 0xD800) << 10) + (lo - 0xDC00)
                                } else {
                                    return Err("lone high surrogate".into());
                                }
                            } else if (0xDC00..0xE000).contains(&hi) {
                                return Err("lone low surrogate".into());
                            } else {
                                hi
                            };
                            out.push(char::from_u32(cp).ok_or("bad code point")?);
                        }
                        _ => return Err(format!("bad escape \\{}", e as char)),
                    }
                }
                c if c < 0x20 => return Err(format!("raw control byte 0x{:02x} in string", c)),
                _ => {
                    // copy one UTF-8 scalar
                    let ch = self.s[self.i..].chars().next().unwrap();
                    out.push(ch);
                    self.i += ch.len_utf8();
                }
            }
        }
    }
}

/// Numeric value of a JSON number text: exact integer if it is integral text within i128, and the
/// correctly rounded f64 in any case.
pub fn num_value(text: &str) -> (Option<i128>, f64) {
    (text.parse::<i128>().ok(), text.parse::<f64>().unwrap_or(f64::NAN))
}

/// Equivalence of two documents: objects by member set (duplicates make documents different
/// unless identical lists), arrays by position, numbers by value, the rest exactly.
pub fn equiv(a: &J, b: &J) -> bool {
    match (a, b) {
        (J::Num(x), J::Num(y)) => {
            let (xi, xf) = num_value(x);
            let (yi, yf) = num_value(y);
            match (xi, yi) {
                (Some(p), Some(q)) => p == q,
                _ => xf == yf,
            }
        }
        (J::Arr(x), J::Arr(y)) => x.len() == y.len() && x.iter().zip(y).all(|(p, q)| equiv(p, q)),
        (J::Obj(x), J::Obj(y)) => {
            x.len() == y.len()
                && x.iter().all(|(k, v)| {
                    let mut it = y.iter().filter(|(k2, _)| k2 == k);
                    match (it.next(), it.next()) {
                        (Some((_, w)), None) => equiv(v, w),
                        _ => false,
                    }
                })
        }
        _ => a == b,
    }
}

/// Serialises a `J` (used by generators of documents).
pub fn render(j: &J) -> String {
    let mut s = String::new();
    write(j, &mut s);
    s
}

pub fn quote(s: &str, out: &mut String) {
    out.push('"');
    for c in s.chars() {
        match c {
            '"' => out.push_str("\\\""),
            '\\' => out.push_str("\\\\"),
            '\n' => out.push_str("\\n"),
            '\r' => out.push_str("\\r"),
            '\t' => out.push_str("\\t"),
            c if (c as u32) < 0x20 => out.push_str(&format!("\\u{:04x}", c as u32)),
            c => out.push(c),
        }
    }
    out.push('"');
}

fn write(j: &J, out: &mut String) {
    match j {
        J::Null => out.push_str("null"),
        J::Bool(b) => out.push_str(if *b { "true" } else { "false" }),
        J::Num(n) => out.push_str(n),
        J::Str(s) => quote(s, out),
        J::Arr(v) => {
            out.push('[');
            for (i, x) in v.iter().enumerate() {
                if i > 0 {
                    out.push(',');
                }
                write(x, out);
            }
            out.push(']');
        }
        J::Obj(v) => {
            out.push('{');
            for (i, (k, x)) in v.iter().enumerate() {
                if i > 0 {
                    out.push(',');
                }
                quote(k, out);
                out.push(':');
                write(x, out);
            }
            out.push('}');
        }
    }
}

#[cfg(test)]
mod test {
    use super::*;

    #[test]
    fn strict() {
        assert!(parse(b"NaN").is_err());
        assert!(parse(b"[1,]").is_err());
        assert!(parse(b"01").is_err());
        assert!(parse(b"1.").is_err());
        assert!(parse(b"\"\x01\"").is_err());
        assert!(parse(b"1 2").is_err());
        assert!(parse(b"{\"a\":1,\"a\":2}").is_ok());
        assert_eq!(parse(b" [1.0e3, \"\\ud83d\\ude00\"] ").unwrap(),
            J::Arr(vec![J::Num("1.0e3".into()), J::Str("😀".into())]));
        assert!(equiv(&parse(b"{\"a\":1.0,\"b\":[2]}").unwrap(), &parse(b"{\"b\":[2.0],\"a\":1}").unwrap()));
        assert!(!equiv(&parse(b"9007199254740993").unwrap(), &parse(b"9007199254740992").unwrap()));
        let d = "{\"k\\n\":[null,true,-1.5e-7,\"x\\\"y\"]}";
        assert_eq!(render(&parse(d.as_bytes()).unwrap()), d);
    }
}

//! Independent reference models written from the Conjure specification / RFCs, deliberately not
//! sharing code with the crates under test.
use serde_json::Value;

const B64: &[u8; 64] = b"ABCDEFGHIJKLMNOPQRSTUVWXYZabcdefghijklmnopqrstuvwxyz0123456789+/";

/// Padded standard-alphabet Base64.
pub fn b64_encode(data: &[u8]) -> String {
    let mut out = String::with_capacity(data.len().div_ceil(3) * 4);
    for chunk in data.chunks(3) {
        let b = [chunk[0], *chunk.get(1).unwrap_or(&0), *chunk.get(2).unwrap_or(&0)];
        let n = ((b[0] as u32) << 16) | ((b[1] as u32) << 8) | b[2] as u32;
        out.push(B64[(n >> 18) as usize & 63] as char);
        out.push(B64[(n >> 12) as usize & 63] as char);
        out.push(if chunk.len() > 1 { B64[(n >> 6) as usize & 63] as char } else { '=' });
        out.push(if chunk.len() > 2 { B64[n as usize & 63] as char } else { '=' });
    }
    out
}

/// Strict decoder for padded standard Base64 (canonical trailing bits required).
pub fn b64_decode(s: &str) -> Option<Vec<u8>> {
    let b = s.as_bytes();
    if b.len() % 4 != 0 {
        return None;
    }
    let mut out = Vec::new();
    let nchunks = b.len() / 4;
    for (i, c) in b.chunks(4).enumerate() {
        let last = i + 1 == nchunks;
        let mut vals = [0u32; 4];
        let mut pad = 0;
        for (j, ch) in c.iter().enumerate() {
            if *ch == b'=' {
                if !last || j < 2 {
                    return None;
                }
                pad += 1;
            } else {
                if pad > 0 {
                    return None;
                }
                vals[j] = B64.iter().position(|x| x == ch)? as u32;
            }
        }
        let n = (vals[0] << 18) | (vals[1] << 12) | (vals[2] << 6) | vals[3];
        out.push((n >> 16) as u8);
        if pad < 2 {
            out.push((n >> 8) as u8);
        } else if n & 0xFFFF != 0 {
            return None;
        }
        if pad < 1 {
            out.push(n as u8);
        } else if pad == 1 && n & 0xFF != 0 {
            return None;
        }
    }
    Some(out)
}

/// True iff `s` has the shape `^[A-Za-z0-9+/]*={0,2}$` with length divisible by four.
pub fn b64_shape(s: &str) -> bool {
    let t = s.trim_end_matches('=');
    s.len() % 4 == 0
        && s.len() - t.len() <= 2
        && t.bytes().all(|c| c.is_ascii_alphanumeric() || c == b'+' || c == b'/')
}

/// JSON equivalence: objects by member set, arrays by position, numbers by numeric value,
/// everything else exactly.
pub fn json_equiv(a: &Value, b: &Value) -> bool {
    match (a, b) {
        (Value::Number(x), Value::Number(y)) => num_eq(x, y),
        (Value::Array(x), Value::Array(y)) => {
            x.len() == y.len() && x.iter().zip(y).all(|(p, q)| json_equiv(p, q))
        }
        (Value::Object(x), Value::Object(y)) => {
            x.len() == y.len()
                && x.iter()
                    .all(|(k, v)| y.get(k).map(|w| json_equiv(v, w)).unwrap_or(false))
        }
        _ => a == b,
    }
}

pub fn num_eq(x: &serde_json::Number, y: &serde_json::Number) -> bool {
    if let (Some(a), Some(b)) = (x.as_i64(), y.as_i64()) {
        return a == b;
    }
    if let (Some(a), Some(b)) = (x.as_u64(), y.as_u64()) {
        return a == b;
    }
    // mixed integer / float or float / float: compare as f64, but integers beyond 2^53 must not
    // be compared lossy against another integer (handled above)
    match (x.as_f64(), y.as_f64()) {
        (Some(a), Some(b)) => a == b,
        _ => false,
    }
}

/// Bearer token grammar `^[A-Za-z0-9\-._~+/]+=*$`.
pub fn is_bearer_token(s: &str) -> bool {
    let body = s.trim_end_matches('=');
    !body.is_empty()
        && body.chars().all(|c| {
            c.is_ascii_alphanumeric() || matches!(c, '-' | '.' | '_' | '~' | '+' | '/')
        })
}

fn rid_service(s: &str) -> bool {
    let mut it = s.chars();
    matches!(it.next(), Some(c) if c.is_ascii_lowercase())
        && it.all(|c| c.is_ascii_lowercase() || c.is_ascii_digit() || c == '-')
}

fn rid_instance(s: &str) -> bool {
    let mut it = s.chars();
    match it.next() {
        None => true,
        Some(c) if c.is_ascii_lowercase() || c.is_ascii_digit() => {
            it.all(|c| c.is_ascii_lowercase() || c.is_ascii_digit() || c == '-')
        }
        _ => false,
    }
}

fn rid_locator(s: &str) -> bool {
    !s.is_empty()
        && s.chars()
            .all(|c| c.is_ascii_alphanumeric() || matches!(c, '_' | '.' | '-'))
}

pub fn rid_component_valid(idx: usize, s: &str) -> bool {
    match idx {
        0 | 2 => rid_service(s),
        1 => rid_instance(s),
        _ => rid_locator(s),
    }
}

/// Splits a resource identifier into (service, instance, type, locator) iff it is valid.
/// Only the locator may contain '.', so the first four dots are the separators.
pub fn rid_split(s: &str) -> Option<[&str; 4]> {
    let rest = s.strip_prefix("ri.")?;
    let mut parts = rest.splitn(4, '.');
    let a = parts.next()?;
    let b = parts.next()?;
    let c = parts.next()?;
    let d = parts.next()?;
    if rid_service(a) && rid_instance(b) && rid_service(c) && rid_locator(d) {
        Some([a, b, c, d])
    } else {
        None
    }
}

/// Percent-decoder (RFC 3986). `None` on malformed escapes or invalid UTF-8.
pub fn pct_decode(s: &str) -> Option<String> {
    let b = s.as_bytes();
    let mut out = Vec::with_capacity(b.len());
    let mut i = 0;
    while i < b.len() {
        if b[i] == b'%' {
            if i + 2 >= b.len() {
                return None;
            }
            let h = (b[i + 1] as char).to_digit(16)?;
            let l = (b[i + 2] as char).to_digit(16)?;
            out.push((h * 16 + l) as u8);
            i += 3;
        } else {
            out.push(b[i]);
            i += 1;
        }
    }
    String::from_utf8(out).ok()
}

/// Splits a request target into (path segments after the leading '/', query pairs), using only
/// RFC 3986 delimiters. Returns None if the target contains a fragment, does not start with '/',
/// or contains a byte that is not legal in a URI at all.
pub struct SplitUri<'a> {
    pub segments: Vec<&'a str>,
    pub query: Option<Vec<(&'a str, Option<&'a str>)>>,
}

pub fn uri_legal_byte(c: u8) -> bool {
    // unreserved / sub-delims / ':' '@' '/' '?' '%'
    c.is_ascii_alphanumeric() || b"-._~!$&'()*+,;=:@/?%".contains(&c)
}

pub fn split_uri(s: &str) -> Result<SplitUri<'_>, String> {
    if s.contains('#') {
        return Err("fragment".into());
    }
    if let Some(c) = s.bytes().find(|c| !uri_legal_byte(*c)) {
        return Err(format!("illegal byte 0x{:02x}", c));
    }
    let (path, query) = match s.find('?') {
        Some(i) => (&s[..i], Some(&s[i + 1..])),
        None => (s, None),
    };
    let path = path.strip_prefix('/').ok_or("no leading slash")?;
    let segments = path.split('/').collect();
    let query = query.map(|q| {
        if q.is_empty() {
            vec![]
        } else {
            q.split('&')
                .map(|p| match p.find('=') {
                    Some(i) => (&p[..i], Some(&p[i + 1..])),
                    None => (p, None),
                })
                .collect()
        }
    });
    Ok(SplitUri { segments, query })
}

#[cfg(test)]
mod test {
    use super::*;

    #[test]
    fn b64() {
        assert_eq!(b64_encode(b""), "");
        assert_eq!(b64_encode(b"f"), "Zg==");
        assert_eq!(b64_encode(b"fo"), "Zm8=");
        assert_eq!(b64_encode(b"foo"), "Zm9v");
        assert_eq!(b64_encode(b"foobar"), "Zm9vYmFy");
        assert_eq!(b64_decode("Zm9vYmE=").unwrap(), b"fooba");
        assert!(b64_decode("Zg=").is_none());
        assert!(b64_decode("Zh==").is_none());
        assert!(b64_decode("Z===").is_none());
        assert!(b64_decode("Zg==Zg==").is_none());
        assert!(b64_shape("Zg==") && !b64_shape("Zg=") && !b64_shape("Z-=="));
    }

    #[test]
    fn rid() {
        assert!(rid_split("ri.a..b.c").is_some());
        assert!(rid_split("ri.a.1-x.b.c.d.e").is_some());
        assert!(rid_split("ri.a.-.b.c").is_none());
        assert!(rid_split("ri.A.x.b.c").is_none());
        assert!(rid_split("ri.a.x.b.").is_none());
        assert!(rid_split("ri.a.x.b.c\n").is_none());
        assert!(is_bearer_token("a=") && !is_bearer_token("=") && !is_bearer_token("a=b"));
        assert!(!is_bearer_token("a\n") && !is_bearer_token(""));
    }

    #[test]
    fn pct() {
        assert_eq!(pct_decode("a%20b").unwrap(), "a b");
        assert!(pct_decode("%2").is_none());
        assert!(pct_decode("%").is_none());
        assert!(pct_decode("%zz").is_none());
        assert_eq!(pct_decode("%E2%82%AC").unwrap(), "€");
    }
}

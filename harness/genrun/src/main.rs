fn main() {}

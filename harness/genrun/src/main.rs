//! Bed B helper around the real generator.
//!
//!   genrun gen <ir.json> <outdir> [--exhaustive] [--serialize-empty] [--strip-prefix P] [--crate NAME VERSION] [--version V]
//!       runs conjure_codegen's *library* entry point; prints one JSON line {"status": "ok"|"error"|"panic", "message": ...}
//!   genrun attrs <dir>
//!       parses every generated .rs file below <dir> with syn and prints, as JSON, each
//!       `#[conjure_endpoints]` trait with its endpoints and the attributes of every argument
//!       (kind, safe?, log_as, name, decoder) -- the observation point of C08 and C19.
//!   genrun items <dir>
//!       lists the public items (structs, enums, traits, type aliases) per file -- used to check
//!       that every declared type is exposed under its package module.
mod attrs;
mod drive;

use std::panic;
use std::path::PathBuf;

fn main() {
    let args: Vec<String> = std::env::args().collect();
    match args.get(1).map(|s| s.as_str()) {
        Some("gen") => gen(&args[2..]),
        Some("attrs") => attrs::attrs(&PathBuf::from(&args[2])),
        Some("items") => attrs::items(&PathBuf::from(&args[2])),
        Some("safe-batch") => safe_batch(&args[2..]),
        Some("drive") => drive::drive(&PathBuf::from(&args[2])),
        _ => {
            eprintln!("usage: genrun gen|attrs|items ...");
            std::process::exit(2);
        }
    }
}

fn gen(args: &[String]) {
    let ir = PathBuf::from(&args[0]);
    let out = PathBuf::from(&args[1]);
    let mut config = conjure_codegen::Config::new();
    let mut i = 2;
    while i < args.len() {
        match args[i].as_str() {
            "--exhaustive" => {
                config.exhaustive(true);
            }
            "--serialize-empty" => {
                config.serialize_empty_collections(true);
            }
            "--strip-prefix" => {
                config.strip_prefix(args[i + 1].clone());
                i += 1;
            }
            "--version" => {
                config.version(args[i + 1].clone());
                i += 1;
            }
            "--crate" => {
                config.build_crate(&args[i + 1], &args[i + 2]);
                i += 2;
            }
            other => {
                eprintln!("unknown flag {}", other);
                std::process::exit(2);
            }
        }
        i += 1;
    }
    panic::set_hook(Box::new(|_| {}));
    let r = panic::catch_unwind(panic::AssertUnwindSafe(|| config.generate_files(&ir, &out)));
    let line = match r {
        Ok(Ok(())) => serde_json::json!({"status": "ok"}),
        Ok(Err(e)) => serde_json::json!({"status": "error", "message": format!("{:?}", e)}),
        Err(p) => {
            let msg = p.downcast_ref::<&str>().map(|s| s.to_string()).or_else(|| p.downcast_ref::<String>().cloned()).unwrap_or_default();
            serde_json::json!({"status": "panic", "message": msg})
        }
    };
    println!("{}", line);
}

/// `genrun safe-batch <listfile> <scratch-dir> [gen flags...]`: for every IR path listed, runs the
/// generator and reports which arguments of which server trait carry `safe` (one JSON line each).
fn safe_batch(args: &[String]) {
    let list = std::fs::read_to_string(&args[0]).expect("list file");
    let scratch = PathBuf::from(&args[1]);
    panic::set_hook(Box::new(|_| {}));
    for (i, line) in list.lines().enumerate() {
        let ir = PathBuf::from(line.trim());
        let out = scratch.join(format!("o{}", i));
        let _ = std::fs::remove_dir_all(&out);
        let mut config = conjure_codegen::Config::new();
        config.strip_prefix("com.verif".to_string());
        let r = panic::catch_unwind(panic::AssertUnwindSafe(|| config.generate_files(&ir, &out)));
        let v = match r {
            Ok(Ok(())) => {
                let a = attrs::attrs_value(&out);
                let mut safe = serde_json::Map::new();
                if let Some(traits) = a["traits"].as_array() {
                    for t in traits {
                        for e in t["endpoints"].as_array().unwrap() {
                            for arg in e["args"].as_array().unwrap() {
                                if ["path", "query", "header", "body"].contains(&arg["kind"].as_str().unwrap_or("")) {
                                    let declared = arg.get("log_as").and_then(|v| v.as_str()).unwrap_or_else(|| arg["ident"].as_str().unwrap());
                                    let key = format!("{}|{}|{}", t["trait"].as_str().unwrap(), e["endpoint"]["name"].as_str().unwrap_or("?"), declared);
                                    safe.insert(key, arg["safe"].clone());
                                }
                            }
                        }
                    }
                }
                serde_json::json!({"ir": line.trim(), "status": a["status"], "safe": safe})
            }
            Ok(Err(e)) => serde_json::json!({"ir": line.trim(), "status": "error", "message": format!("{:?}", e)}),
            Err(_) => serde_json::json!({"ir": line.trim(), "status": "panic"}),
        };
        println!("{}", v);
        let _ = std::fs::remove_dir_all(&out);
    }
}

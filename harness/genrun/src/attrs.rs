use proc_macro2::{TokenStream, TokenTree};
use serde_json::{json, Value};
use std::path::{Path, PathBuf};

fn rs_files(dir: &Path, out: &mut Vec<PathBuf>) {
    let mut entries: Vec<_> = std::fs::read_dir(dir).expect("read_dir").map(|e| e.unwrap().path()).collect();
    entries.sort();
    for p in entries {
        if p.is_dir() {
            rs_files(&p, out);
        } else if p.extension().map(|e| e == "rs").unwrap_or(false) {
            out.push(p);
        }
    }
}

/// Splits the token stream of an attribute's argument list at top-level commas and returns
/// (bare identifiers, key -> value text).
fn parse_list(tokens: TokenStream) -> (Vec<String>, Vec<(String, String)>) {
    let mut flags = vec![];
    let mut pairs = vec![];
    let mut cur: Vec<TokenTree> = vec![];
    let mut flush = |cur: &mut Vec<TokenTree>| {
        if cur.is_empty() {
            return;
        }
        let eq = cur.iter().position(|t| matches!(t, TokenTree::Punct(p) if p.as_char() == '='));
        match eq {
            None => flags.push(cur.iter().map(|t| t.to_string()).collect::<Vec<_>>().join("")),
            Some(i) => {
                let k = cur[..i].iter().map(|t| t.to_string()).collect::<Vec<_>>().join("");
                let v = cur[i + 1..].iter().map(|t| t.to_string()).collect::<Vec<_>>().join(" ");
                pairs.push((k, v));
            }
        }
        cur.clear();
    };
    let mut angle = 0i32;
    for t in tokens {
        match &t {
            TokenTree::Punct(p) if p.as_char() == '<' => {
                angle += 1;
                cur.push(t);
            }
            TokenTree::Punct(p) if p.as_char() == '>' => {
                angle -= 1;
                cur.push(t);
            }
            TokenTree::Punct(p) if p.as_char() == ',' && angle == 0 => flush(&mut cur),
            _ => cur.push(t),
        }
    }
    flush(&mut cur);
    (flags, pairs)
}

fn unquote(s: &str) -> Value {
    match syn::parse_str::<syn::LitStr>(s) {
        Ok(l) => json!(l.value()),
        Err(_) => json!(s),
    }
}

fn attr_json(attr: &syn::Attribute) -> Option<(String, Vec<String>, Vec<(String, String)>)> {
    let name = attr.path().segments.last()?.ident.to_string();
    let (flags, pairs) = match &attr.meta {
        syn::Meta::List(l) => parse_list(l.tokens.clone()),
        _ => (vec![], vec![]),
    };
    Some((name, flags, pairs))
}

pub fn attrs(dir: &Path) {
    println!("{}", attrs_value(dir));
}

pub fn attrs_value(dir: &Path) -> Value {
    let mut files = vec![];
    rs_files(dir, &mut files);
    let mut traits = vec![];
    for f in files {
        let text = std::fs::read_to_string(&f).expect("read");
        let ast = match syn::parse_file(&text) {
            Ok(a) => a,
            Err(e) => {
                return json!({"status": "parse-error", "file": f.display().to_string(), "message": e.to_string()});
            }
        };
        for item in ast.items {
            let syn::Item::Trait(t) = item else { continue };
            let Some(ce) = t.attrs.iter().filter_map(attr_json).find(|(n, _, _)| n == "conjure_endpoints") else { continue };
            let service = ce.2.iter().find(|(k, _)| k == "name").map(|(_, v)| unquote(v)).unwrap_or(Value::Null);
            let mut endpoints = vec![];
            for ti in &t.items {
                let syn::TraitItem::Fn(m) = ti else { continue };
                let ep = m.attrs.iter().filter_map(attr_json).find(|(n, _, _)| n == "endpoint");
                let mut ep_json = serde_json::Map::new();
                if let Some((_, _, pairs)) = &ep {
                    for (k, v) in pairs {
                        ep_json.insert(k.clone(), unquote(v));
                    }
                }
                let mut args = vec![];
                for input in &m.sig.inputs {
                    let syn::FnArg::Typed(pt) = input else { continue };
                    let ident = match &*pt.pat {
                        syn::Pat::Ident(i) => i.ident.to_string(),
                        other => quote::quote!(#other).to_string(),
                    };
                    let ty = &pt.ty;
                    for a in pt.attrs.iter().filter_map(attr_json) {
                        let (kind, flags, pairs) = a;
                        if !["path", "query", "header", "body", "auth", "context"].contains(&kind.as_str()) {
                            continue;
                        }
                        let mut o = serde_json::Map::new();
                        o.insert("ident".into(), json!(ident));
                        o.insert("kind".into(), json!(kind));
                        o.insert("safe".into(), json!(flags.iter().any(|f| f == "safe")));
                        o.insert("type".into(), json!(quote::quote!(#ty).to_string()));
                        for (k, v) in pairs {
                            o.insert(k, unquote(&v));
                        }
                        args.push(Value::Object(o));
                    }
                }
                endpoints.push(json!({"method": m.sig.ident.to_string(), "asyncness": m.sig.asyncness.is_some(), "endpoint": ep_json, "args": args}));
            }
            traits.push(json!({"file": f.strip_prefix(dir).unwrap().display().to_string(), "trait": t.ident.to_string(), "service": service, "endpoints": endpoints}));
        }
    }
    json!({"status": "ok", "traits": traits})
}

pub fn items(dir: &Path) {
    let mut files = vec![];
    rs_files(dir, &mut files);
    let mut out = vec![];
    for f in files {
        let text = std::fs::read_to_string(&f).expect("read");
        let ast = match syn::parse_file(&text) {
            Ok(a) => a,
            Err(e) => {
                println!("{}", json!({"status": "parse-error", "file": f.display().to_string(), "message": e.to_string()}));
                std::process::exit(1);
            }
        };
        let mut names = vec![];
        let mut mods = vec![];
        let mut uses = vec![];
        for item in ast.items {
            match item {
                syn::Item::Struct(s) if matches!(s.vis, syn::Visibility::Public(_)) => names.push(json!({"kind": "struct", "name": s.ident.to_string()})),
                syn::Item::Enum(s) if matches!(s.vis, syn::Visibility::Public(_)) => names.push(json!({"kind": "enum", "name": s.ident.to_string()})),
                syn::Item::Trait(s) if matches!(s.vis, syn::Visibility::Public(_)) => names.push(json!({"kind": "trait", "name": s.ident.to_string()})),
                syn::Item::Mod(m) => mods.push(json!({"name": m.ident.to_string(), "public": matches!(m.vis, syn::Visibility::Public(_))})),
                syn::Item::Use(u) => uses.push(json!(quote::quote!(#u).to_string())),
                _ => {}
            }
        }
        out.push(json!({"file": f.strip_prefix(dir).unwrap().display().to_string(), "items": names, "mods": mods, "uses": uses}));
    }
    println!("{}", json!({"status": "ok", "files": out}));
}

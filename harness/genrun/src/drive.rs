//! `genrun drive <dir>`: for every generated service file, appends (to the same file, hence the
//! same module, so the generated relative type paths stay valid)
//!   * `impl <Svc><..> for labrt::svc::Rec` and `impl Async<Svc><..> for labrt::svc::Rec`:
//!     recording handlers copied from the generated trait signatures;
//!   * `verif_call_sync` / `verif_call_async`: calls a generated client method by endpoint name
//!     with arguments given as Conjure JSON, mapping owned values to the borrowed parameter forms;
//!   * `verif_endpoints_sync` / `verif_endpoints_async`.
//! The generated code above the appended block is untouched. Prints a JSON index of what it found.
use quote::ToTokens;
use serde_json::{json, Value};
use std::fmt::Write;
use std::path::{Path, PathBuf};

fn rs_files(dir: &Path, out: &mut Vec<PathBuf>) {
    let mut entries: Vec<_> = std::fs::read_dir(dir).expect("read_dir").map(|e| e.unwrap().path()).collect();
    entries.sort();
    for p in entries {
        if p.is_dir() {
            rs_files(&p, out);
        } else if p.extension().map(|e| e == "rs").unwrap_or(false) {
            out.push(p);
        }
    }
}

fn ts<T: ToTokens>(t: &T) -> String {
    t.to_token_stream().to_string()
}

fn attr_named<'a>(attrs: &'a [syn::Attribute], name: &str) -> Option<&'a syn::Attribute> {
    attrs.iter().find(|a| a.path().segments.last().map(|s| s.ident == name).unwrap_or(false))
}

fn lit_value(tokens: &str, key: &str) -> Option<String> {
    // finds `key = "value"` in an attribute token string
    let pat = format!("{} = \"", key);
    let i = tokens.find(&pat)? + pat.len();
    let rest = &tokens[i..];
    let j = rest.find('"')?;
    Some(rest[..j].to_string())
}

/// How a client parameter is fed from an owned value.
fn client_param(ty: &syn::Type, generics: &[String]) -> (String, String) {
    // returns (owned type, expression passing `v`)
    let s = ts(ty);
    if let syn::Type::Path(p) = ty {
        if let Some(id) = p.path.get_ident() {
            if generics.contains(&id.to_string()) {
                return ("labrt::svc::Hex".into(), "labrt::svc::Upload($v.0.clone())".into());
            }
        }
    }
    match ty {
        syn::Type::Reference(r) => {
            let inner = &*r.elem;
            let it = ts(inner);
            if it == "str" {
                ("String".into(), "&$v".into())
            } else if let syn::Type::Slice(sl) = inner {
                (format!("Vec<{}>", ts(&*sl.elem)), "&$v".into())
            } else {
                (it, "&$v".into())
            }
        }
        syn::Type::Path(p) => {
            let last = p.path.segments.last().unwrap();
            if last.ident == "Option" {
                if let syn::PathArguments::AngleBracketed(ab) = &last.arguments {
                    if let Some(syn::GenericArgument::Type(syn::Type::Reference(r))) = ab.args.first() {
                        let it = ts(&*r.elem);
                        if it == "str" {
                            return ("Option<String>".into(), "$v.as_deref()".into());
                        }
                        if let syn::Type::Slice(sl) = &*r.elem {
                            return (format!("Option<Vec<{}>>", ts(&*sl.elem)), "$v.as_deref()".into());
                        }
                        return (format!("Option<{}>", it), "$v.as_ref()".into());
                    }
                }
            }
            (s, "$v.clone()".into())
        }
        _ => (s, "$v.clone()".into()),
    }
}

pub fn drive(dir: &Path) {
    let mut files = vec![];
    rs_files(dir, &mut files);
    let mut index = vec![];
    for f in files {
        let text = std::fs::read_to_string(&f).expect("read");
        if !text.contains("conjure_endpoints") {
            continue;
        }
        let ast = match syn::parse_file(&text) {
            Ok(a) => a,
            Err(e) => {
                println!("{}", json!({"status": "parse-error", "file": f.display().to_string(), "message": e.to_string()}));
                std::process::exit(1);
            }
        };
        let mut out = String::from("\n// ---- appended by genrun drive (verification driver, not generator output) ----\n");
        let mut svc_index: Vec<Value> = vec![];
        for item in &ast.items {
            match item {
                syn::Item::Trait(t) if attr_named(&t.attrs, "conjure_endpoints").is_some() => {
                    let is_async = t.items.iter().any(|i| matches!(i, syn::TraitItem::Fn(m) if m.sig.asyncness.is_some()));
                    let gens: Vec<String> = t.generics.type_params().map(|p| p.ident.to_string()).collect();
                    let (body_ty, writer_ty) = if is_async { ("labrt::ChunkStream", "Vec<u8>") } else { ("labrt::Chunks", "Vec<u8>") };
                    let gen_args: Vec<&str> = gens.iter().map(|g| if g == "I" { body_ty } else { writer_ty }).collect();
                    let gen_txt = if gen_args.is_empty() { String::new() } else { format!("<{}>", gen_args.join(", ")) };
                    let bin_ty = if is_async { "labrt::svc::AsyncBytes" } else { "Vec<u8>" };
                    let _ = writeln!(out, "impl {}{} for labrt::svc::Rec {{", t.ident, gen_txt);
                    let mut eps = vec![];
                    for ti in &t.items {
                        match ti {
                            syn::TraitItem::Type(ty) => {
                                let _ = writeln!(out, "    type {} = {};", ty.ident, bin_ty);
                            }
                            syn::TraitItem::Fn(m) => {
                                let ep_attr = attr_named(&m.attrs, "endpoint").map(|a| ts(a)).unwrap_or_default();
                                let ep_name = lit_value(&ep_attr, "name").unwrap_or_else(|| m.sig.ident.to_string());
                                let mut params = vec![];
                                let mut rec = vec![];
                                for input in &m.sig.inputs {
                                    let syn::FnArg::Typed(pt) = input else { continue };
                                    let ident = ts(&*pt.pat);
                                    let tyt = ts(&*pt.ty);
                                    let tyt_sub = if tyt == "I" { body_ty.to_string() } else { tyt.clone() };
                                    params.push(format!("{}: {}", ident, tyt_sub));
                                    let kind = ["path", "query", "header", "body", "auth", "context"].iter().find(|k| attr_named(&pt.attrs, k).is_some()).copied().unwrap_or("?");
                                    let a = attr_named(&pt.attrs, kind).map(|a| ts(a)).unwrap_or_default();
                                    let declared = lit_value(&a, "log_as").unwrap_or_else(|| if kind == "auth" { "auth".to_string() } else { ident.clone() });
                                    if kind == "context" {
                                        continue;
                                    }
                                    if tyt == "I" {
                                        let aw = if is_async { ".await" } else { "" };
                                        rec.push(format!("(\"{}\", labrt::svc::body_hex({}{}))", declared, format!("labrt::svc::collect_{}({})", if is_async { "async" } else { "sync" }, ident), aw));
                                    } else {
                                        rec.push(format!("(\"{}\", labrt::svc::j(&{}))", declared, ident));
                                    }
                                }
                                let ret = match &m.sig.output {
                                    syn::ReturnType::Type(_, t) => ts(&**t),
                                    _ => "()".into(),
                                };
                                let asy = if is_async { "async " } else { "" };
                                let _ = writeln!(out, "    {}fn {}(&self, {}) -> {} {{", asy, m.sig.ident, params.join(", "), ret);
                                let _ = writeln!(out, "        let args_ = vec![{}];", rec.join(", "));
                                let ret_kind = if ret.contains("Option < Self ::") {
                                    "self.ret_opt_binary"
                                } else if ret.contains("Self ::") {
                                    "self.ret_binary"
                                } else {
                                    "self.ret_value"
                                };
                                let map = if is_async && ret_kind != "self.ret_value" {
                                    if ret_kind == "self.ret_binary" { ".map(labrt::svc::AsyncBytes)" } else { ".map(|o| o.map(labrt::svc::AsyncBytes))" }
                                } else {
                                    ""
                                };
                                let _ = writeln!(out, "        {}(\"{}\", args_){}", ret_kind, ep_name, map);
                                let _ = writeln!(out, "    }}");
                                eps.push(json!({"endpoint": ep_name, "method": m.sig.ident.to_string()}));
                            }
                            _ => {}
                        }
                    }
                    let _ = writeln!(out, "}}");
                    let fn_name = if is_async { "verif_endpoints_async" } else { "verif_endpoints_sync" };
                    let service_name = lit_value(&attr_named(&t.attrs, "conjure_endpoints").map(|a| ts(a)).unwrap_or_default(), "name").unwrap_or_default();
                    if is_async {
                        let _ = writeln!(out, "pub fn {}_{}(h: labrt::svc::Rec) -> Vec<conjure_http::server::BoxAsyncEndpoint<'static, labrt::ChunkStream, Vec<u8>>> {{\n    use conjure_http::server::AsyncService;\n    {}Endpoints::new(h).endpoints(&std::sync::Arc::new(conjure_http::server::ConjureRuntime::new()))\n}}",
                            fn_name, service_name, t.ident);
                    } else {
                        let _ = writeln!(out, "pub fn {}_{}(h: labrt::svc::Rec) -> Vec<Box<dyn conjure_http::server::Endpoint<labrt::Chunks, Vec<u8>> + Sync + Send>> {{\n    use conjure_http::server::Service;\n    {}Endpoints::new(h).endpoints(&std::sync::Arc::new(conjure_http::server::ConjureRuntime::new()))\n}}",
                            fn_name, service_name, t.ident);
                    }
                    svc_index.push(json!({"trait": t.ident.to_string(), "service": service_name, "async": is_async, "endpoints": eps}));
                }
                syn::Item::Impl(im) if im.trait_.is_none() => {
                    let self_ty = ts(&*im.self_ty);
                    let Some(name) = self_ty.split(' ').next().map(|s| s.to_string()) else { continue };
                    if !name.ends_with("Client") {
                        continue;
                    }
                    let is_async = name.ends_with("AsyncClient");
                    let service = name.trim_end_matches("AsyncClient").trim_end_matches("Client").to_string();
                    let transport = if is_async { "&labrt::AsyncLoopback" } else { "&labrt::Loopback" };
                    let (asy, aw) = if is_async { ("async ", ".await") } else { ("", "") };
                    let collect = if is_async { "labrt::svc::collect_async" } else { "labrt::svc::collect_sync" };
                    let _ = writeln!(out, "pub {}fn verif_call_{}_{}(c: &{}<{}>, method: &str, args: &labrt::svc::Args) -> Result<String, conjure_error::Error> {{",
                        asy, if is_async { "async" } else { "sync" }, service, name, transport);
                    let _ = writeln!(out, "    match method {{");
                    for ii in &im.items {
                        let syn::ImplItem::Fn(m) = ii else { continue };
                        if !matches!(m.vis, syn::Visibility::Public(_)) {
                            continue;
                        }
                        let gens: Vec<String> = m.sig.generics.type_params().map(|p| p.ident.to_string()).collect();
                        let mut lets = String::new();
                        let mut pass = vec![];
                        for input in &m.sig.inputs {
                            let syn::FnArg::Typed(pt) = input else { continue };
                            let ident = ts(&*pt.pat);
                            let (owned, expr) = client_param(&pt.ty, &gens);
                            let _ = writeln!(lets, "            let {}: {} = args.get(\"{}\");", ident, owned, ident);
                            pass.push(expr.replace("$v", &ident));
                        }
                        let ret = match &m.sig.output {
                            syn::ReturnType::Type(_, t) => ts(&**t),
                            _ => "()".into(),
                        };
                        let render = if ret.contains("Option < T :: ResponseBody >") {
                            format!("match r {{ Some(b) => labrt::svc::opt_hex(Some({}(b){}?)), None => labrt::svc::opt_hex(None) }}", collect, aw)
                        } else if ret.contains("T :: ResponseBody") {
                            format!("labrt::svc::opt_hex(Some({}(r){}?))", collect, aw)
                        } else {
                            "labrt::svc::j(&r)".to_string()
                        };
                        let _ = writeln!(out, "        \"{}\" => {{\n{}            let r = c.{}({}){}?;\n            Ok({})\n        }}", m.sig.ident, lets, m.sig.ident, pass.join(", "), aw, render);
                    }
                    let _ = writeln!(out, "        other => Err(conjure_error::Error::internal_safe(format!(\"verif: no client method {{}}\", other))),\n    }}\n}}");
                }
                _ => {}
            }
        }
        std::fs::write(&f, format!("{}{}", text, out)).expect("write");
        index.push(json!({"file": f.strip_prefix(dir).unwrap().display().to_string(), "items": svc_index}));
    }
    println!("{}", json!({"status": "ok", "files": index}));
}

//! What an embedding HTTP server does before calling `Endpoint::handle`: pick the endpoint by
//! method and path template, and put the raw (still percent-encoded) parameter segments into
//! `PathParams`.
use conjure_http::server::{EndpointMetadata, PathSegment};
use conjure_http::PathParams;
use http::Method;

pub struct Routed {
    pub index: usize,
    pub params: PathParams,
    pub captured: Vec<(String, String)>,
}

fn pct_decode_lossy(s: &str) -> String {
    vcore::models::pct_decode(s).unwrap_or_else(|| s.to_string())
}

/// Matches `method` + raw path (no query) against every endpoint; literal segments are compared
/// after percent-decoding the request segment. A parameter with regex `.*`/`.+` takes the rest of
/// the path. Returns all matches (a well-formed service has exactly one).
pub fn route<E: EndpointMetadata + ?Sized>(
    endpoints: &[&E],
    method: &Method,
    raw_path: &str,
) -> Vec<Routed> {
    let segs: Vec<&str> = match raw_path.strip_prefix('/') {
        Some(p) => p.split('/').collect(),
        None if raw_path.is_empty() => vec![],
        None => return vec![],
    };
    let mut out = vec![];
    'ep: for (index, e) in endpoints.iter().enumerate() {
        if e.method() != *method {
            continue;
        }
        let tmpl = e.path();
        let mut params = PathParams::new();
        let mut captured = vec![];
        let mut i = 0;
        for (ti, t) in tmpl.iter().enumerate() {
            match t {
                PathSegment::Literal(l) => {
                    // a literal may itself contain '/' (macro templates keep segments separate,
                    // but be lenient)
                    for part in l.split('/') {
                        if i >= segs.len() || pct_decode_lossy(segs[i]) != part {
                            continue 'ep;
                        }
                        i += 1;
                    }
                }
                PathSegment::Parameter { name, regex } => {
                    if i >= segs.len() {
                        continue 'ep;
                    }
                    let greedy = matches!(regex.as_deref(), Some(".*") | Some(".+"));
                    if greedy && ti + 1 == tmpl.len() {
                        let rest = segs[i..].join("/");
                        params.insert(name.to_string(), rest.clone());
                        captured.push((name.to_string(), rest));
                        i = segs.len();
                    } else {
                        params.insert(name.to_string(), segs[i].to_string());
                        captured.push((name.to_string(), segs[i].to_string()));
                        i += 1;
                    }
                }
            }
        }
        if i == segs.len() {
            out.push(Routed { index, params, captured });
        }
    }
    out
}

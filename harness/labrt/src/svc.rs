//! Runtime of the *generated-service* labs: a recording handler type that the driver appended by
//! `genrun drive` implements every generated server trait for, scripted return values, argument
//! marshalling for generated client calls, and the call runner.
use crate::{AsyncLoopback, ChunkStream, Chunks, Loopback};
use conjure_error::Error;
use conjure_serde::json;
use serde::de::DeserializeOwned;
use serde::Serialize;
use serde_json::{json as j_, Value};
use std::collections::HashMap;
use std::pin::Pin;
use std::sync::{Arc, Mutex};

pub fn j<T: Serialize + ?Sized>(v: &T) -> String {
    json::to_string(v).unwrap_or_else(|e| format!("<unserializable: {}>", e))
}

pub fn hex(b: &[u8]) -> String {
    b.iter().map(|x| format!("{:02x}", x)).collect()
}

pub fn unhex(s: &str) -> Vec<u8> {
    (0..s.len() / 2).map(|i| u8::from_str_radix(&s[2 * i..2 * i + 2], 16).unwrap_or(0)).collect()
}

pub fn opt_hex(b: Option<Vec<u8>>) -> String {
    b.map(|b| format!("hex:{}", hex(&b))).unwrap_or_else(|| "<absent>".into())
}

pub fn body_hex(r: Result<Vec<u8>, Error>) -> String {
    match r {
        Ok(b) => format!("hex:{}", hex(&b)),
        Err(_) => "<stream-error>".into(),
    }
}

pub fn collect_sync(c: Chunks) -> Result<Vec<u8>, Error> {
    c.collect_bytes()
}

pub async fn collect_async(c: ChunkStream) -> Result<Vec<u8>, Error> {
    c.collect_bytes().await
}

/// Binary argument / return given as hex text.
pub struct Hex(pub Vec<u8>);

/// Arguments of a client call: declared-or-rust name -> Conjure JSON text (hex text for binary).
pub struct Args(pub serde_json::Map<String, Value>);

impl Args {
    pub fn get<T: ArgValue>(&self, name: &str) -> T {
        let text = self.0.get(name).and_then(|v| v.as_str()).unwrap_or_else(|| panic!("harness: missing argument {}", name));
        T::arg_value(text)
    }
}

pub trait ArgValue: Sized {
    fn arg_value(text: &str) -> Self;
}

impl<T: DeserializeOwned> ArgValue for T {
    fn arg_value(text: &str) -> T {
        json::client_from_str(text).unwrap_or_else(|e| panic!("harness: argument document {} does not parse: {}", text, e))
    }
}

/// Hex is deserializable from a JSON string "hex:.." so that it goes through the same path.
impl<'de> serde::Deserialize<'de> for Hex {
    fn deserialize<D: serde::Deserializer<'de>>(d: D) -> Result<Hex, D::Error> {
        let s = String::deserialize(d)?;
        Ok(Hex(unhex(s.trim_start_matches("hex:"))))
    }
}

#[derive(Clone)]
pub struct Rec {
    pub calls: Arc<Mutex<Vec<(String, Vec<(String, String)>)>>>,
    /// endpoint name -> scripted return (Conjure JSON text; `hex:..` / `<absent>` for binary)
    pub script: Arc<HashMap<String, String>>,
}

impl Rec {
    pub fn new(script: HashMap<String, String>) -> Rec {
        Rec { calls: Arc::new(Mutex::new(vec![])), script: Arc::new(script) }
    }

    fn record(&self, endpoint: &str, args: Vec<(&str, String)>) {
        self.calls.lock().unwrap().push((endpoint.to_string(), args.into_iter().map(|(k, v)| (k.to_string(), v)).collect()));
    }

    fn scripted(&self, endpoint: &str) -> String {
        self.script.get(endpoint).cloned().unwrap_or_else(|| "null".to_string())
    }

    pub fn ret_value<T: DeserializeOwned>(&self, endpoint: &str, args: Vec<(&str, String)>) -> Result<T, Error> {
        self.record(endpoint, args);
        let text = self.scripted(endpoint);
        json::client_from_str(&text).map_err(|e| Error::internal_safe(format!("harness: scripted return {} does not parse: {}", text, e)))
    }

    pub fn ret_binary(&self, endpoint: &str, args: Vec<(&str, String)>) -> Result<Vec<u8>, Error> {
        self.record(endpoint, args);
        Ok(unhex(self.scripted(endpoint).trim_start_matches("hex:")))
    }

    pub fn ret_opt_binary(&self, endpoint: &str, args: Vec<(&str, String)>) -> Result<Option<Vec<u8>>, Error> {
        self.record(endpoint, args);
        let s = self.scripted(endpoint);
        Ok(if s == "<absent>" { None } else { Some(unhex(s.trim_start_matches("hex:"))) })
    }
}

pub struct AsyncBytes(pub Vec<u8>);

impl conjure_http::server::AsyncWriteBody<Vec<u8>> for AsyncBytes {
    async fn write_body(self, mut w: Pin<&mut Vec<u8>>) -> Result<(), Error> {
        w.extend_from_slice(&self.0);
        Ok(())
    }
}

pub struct Upload(pub Vec<u8>);

impl conjure_http::client::WriteBody<Vec<u8>> for Upload {
    fn write_body(&mut self, w: &mut Vec<u8>) -> Result<(), Error> {
        w.extend_from_slice(&self.0);
        Ok(())
    }
    fn reset(&mut self) -> bool {
        true
    }
}

impl conjure_http::client::AsyncWriteBody<Vec<u8>> for Upload {
    async fn write_body(self: Pin<&mut Self>, mut w: Pin<&mut Vec<u8>>) -> Result<(), Error> {
        w.extend_from_slice(&self.0);
        Ok(())
    }
    async fn reset(self: Pin<&mut Self>) -> bool {
        true
    }
}

fn outcome(result: Result<Result<String, Error>, String>, rec: &Rec, ex: crate::Exchange) -> Value {
    let calls: Vec<Value> = rec.calls.lock().unwrap().iter().map(|(e, a)| j_!({"endpoint": e, "args": a})).collect();
    let res = match result {
        Err(p) => j_!({"panic": p}),
        Ok(Ok(s)) => j_!({"ok": s}),
        Ok(Err(e)) => j_!({"err": crate::error_class(&e), "cause": e.cause().to_string()}),
    };
    j_!({
        "result": res,
        "calls": calls,
        "uri": ex.uri,
        "method": ex.method,
        "status": ex.status,
        "routes_matched": ex.routes_matched,
        "safe_params": ex.safe_params,
        "request_headers": ex.request_headers.iter().map(|(k, v)| (k.clone(), String::from_utf8_lossy(v).to_string())).collect::<Vec<_>>(),
    })
}

fn guard<T>(f: impl FnOnce() -> T) -> Result<T, String> {
    std::panic::catch_unwind(std::panic::AssertUnwindSafe(f)).map_err(|p| {
        p.downcast_ref::<&str>().map(|s| s.to_string()).or_else(|| p.downcast_ref::<String>().cloned()).unwrap_or_default()
    })
}

pub struct CallSpec {
    pub method: String,
    pub args: Args,
    pub script: HashMap<String, String>,
    pub seed: u64,
    /// when set the transport answers with this response instead of routing to the server
    pub canned: Option<crate::loopback::Canned>,
}

pub fn run_call_sync(
    spec: &CallSpec,
    endpoints: impl FnOnce(Rec) -> Vec<Box<dyn conjure_http::server::Endpoint<Chunks, Vec<u8>> + Sync + Send>>,
    call: impl FnOnce(&Loopback, &str, &Args) -> Result<String, Error>,
) -> Value {
    let rec = Rec::new(spec.script.clone());
    let lb = Loopback::new(endpoints(rec.clone()), spec.seed);
    *lb.canned.lock().unwrap() = spec.canned.clone();
    let r = guard(|| call(&lb, &spec.method, &spec.args));
    outcome(r, &rec, lb.last())
}

pub fn run_call_async(
    spec: &CallSpec,
    endpoints: impl FnOnce(Rec) -> Vec<conjure_http::server::BoxAsyncEndpoint<'static, ChunkStream, Vec<u8>>>,
    call: impl FnOnce(&AsyncLoopback, &str, &Args) -> Result<String, Error>,
) -> Value {
    let rec = Rec::new(spec.script.clone());
    let lb = AsyncLoopback::new(endpoints(rec.clone()), spec.seed);
    *lb.canned.lock().unwrap() = spec.canned.clone();
    let r = guard(|| call(&lb, &spec.method, &spec.args));
    outcome(r, &rec, lb.last())
}

/// A raw request delivered straight to the endpoints of a generated service (no client).
pub struct RawSpec {
    pub method: String,
    pub uri: String,
    /// header values are given as strings whose chars are bytes (latin-1), so any byte is expressible
    pub headers: Vec<(String, String)>,
    pub body: String,
    pub seed: u64,
    /// index of the body chunk before which the stream fails
    pub fail_at: Option<usize>,
}

fn raw_parts(spec: &RawSpec) -> (http::Method, http::Uri, http::HeaderMap, Vec<bytes::Bytes>) {
    let method = http::Method::from_bytes(spec.method.as_bytes()).expect("method");
    let uri: http::Uri = spec.uri.parse().unwrap_or_else(|e| panic!("harness rendered a bad uri {}: {}", spec.uri, e));
    let mut headers = http::HeaderMap::new();
    for (k, v) in &spec.headers {
        let bytes: Vec<u8> = v.chars().map(|c| c as u32 as u8).collect();
        headers.append(
            http::header::HeaderName::from_bytes(k.as_bytes()).expect("header name"),
            http::HeaderValue::from_bytes(&bytes).expect("header value"),
        );
    }
    let mut rng = vcore::Rng::new(spec.seed);
    let body: Vec<u8> = spec.body.chars().map(|c| c as u32 as u8).collect();
    (method, uri, headers, crate::random_chunking(&mut rng, &body))
}

fn raw_chunks(spec: &RawSpec, chunks: Vec<bytes::Bytes>) -> (Chunks, usize) {
    let n = chunks.len();
    let c = Chunks::of(chunks);
    (match spec.fail_at { Some(at) => c.fail_at(at), None => c }, n)
}

fn raw_outcome(result: Result<Result<u16, Error>, String>, rec: &Rec, ext: &http::Extensions, routes: usize, n_chunks: usize) -> Value {
    let calls: Vec<Value> = rec.calls.lock().unwrap().iter().map(|(e, a)| j_!({"endpoint": e, "args": a})).collect();
    let res = match result {
        Err(p) => j_!({"panic": p}),
        Ok(Ok(status)) => j_!({"ok": status}),
        Ok(Err(e)) => {
            let code = match e.kind() {
                conjure_error::ErrorKind::Service(s) => format!("{:?}", s.error_code()),
                _ => "not-a-service-error".to_string(),
            };
            let sp: Vec<(String, String)> = e.safe_params().iter().map(|(k, v)| (k.to_string(), j(v))).collect();
            j_!({"err": code, "safe_params": sp, "cause_safe": e.cause_safe(), "cause": e.cause().to_string()})
        }
    };
    j_!({"result": res, "calls": calls, "routes_matched": routes, "chunks": n_chunks, "safe_params": crate::loopback::safe_params_vec(ext)})
}

pub fn run_raw_sync(spec: &RawSpec, endpoints: impl FnOnce(Rec) -> Vec<Box<dyn conjure_http::server::Endpoint<Chunks, Vec<u8>> + Sync + Send>>) -> Value {
    let rec = Rec::new(HashMap::new());
    let eps = endpoints(rec.clone());
    let (method, uri, headers, chunks) = raw_parts(spec);
    let metas: Vec<&(dyn conjure_http::server::Endpoint<Chunks, Vec<u8>> + Sync + Send)> = eps.iter().map(|e| &**e).collect();
    let mut routed = crate::route(&metas, &method, uri.path());
    let n = routed.len();
    let mut ext = http::Extensions::new();
    if n != 1 {
        return raw_outcome(Err("harness: request does not route to exactly one endpoint".into()), &rec, &ext, n, 0);
    }
    let r = routed.pop().unwrap();
    let (chunks, n_chunks) = raw_chunks(spec, chunks);
    let mut req = http::Request::new(chunks);
    *req.method_mut() = method;
    *req.uri_mut() = uri;
    *req.headers_mut() = headers;
    req.extensions_mut().insert(r.params);
    let e = &eps[r.index];
    let result = guard(|| e.handle(req, &mut ext).map(|resp| resp.status().as_u16()));
    raw_outcome(result, &rec, &ext, n, n_chunks)
}

pub fn run_raw_async(spec: &RawSpec, endpoints: impl FnOnce(Rec) -> Vec<conjure_http::server::BoxAsyncEndpoint<'static, ChunkStream, Vec<u8>>>) -> Value {
    use conjure_http::server::AsyncEndpoint;
    let rec = Rec::new(HashMap::new());
    let eps = endpoints(rec.clone());
    let (method, uri, headers, chunks) = raw_parts(spec);
    let metas: Vec<&conjure_http::server::BoxAsyncEndpoint<'static, ChunkStream, Vec<u8>>> = eps.iter().collect();
    let mut routed = crate::route(&metas, &method, uri.path());
    let n = routed.len();
    let mut ext = http::Extensions::new();
    if n != 1 {
        return raw_outcome(Err("harness: request does not route to exactly one endpoint".into()), &rec, &ext, n, 0);
    }
    let r = routed.pop().unwrap();
    let (chunks, n_chunks) = raw_chunks(spec, chunks);
    let mut req = http::Request::new(ChunkStream::new(chunks));
    *req.method_mut() = method;
    *req.uri_mut() = uri;
    *req.headers_mut() = headers;
    req.extensions_mut().insert(r.params);
    let e = &eps[r.index];
    let result = guard(|| crate::block_on(async { e.handle(req, &mut ext).await.map(|resp| resp.status().as_u16()) }));
    raw_outcome(result, &rec, &ext, n, n_chunks)
}

use bytes::Bytes;
use conjure_error::Error;
use futures::Stream;
use std::collections::VecDeque;
use std::pin::Pin;
use std::task::{Context, Poll};
use vcore::Rng;

pub const INJECTED: &str = "verif-injected-stream-error";

#[derive(Clone, Debug, PartialEq)]
pub enum Chunk {
    Data(Bytes),
    /// The stream yields an error here (and nothing afterwards).
    Fail,
}

/// A scripted body: blocking flavour.
#[derive(Debug, Clone, PartialEq)]
pub struct Chunks {
    chunks: VecDeque<Chunk>,
    /// number of chunks (or the error) handed out so far
    pub polled: usize,
}

impl Chunks {
    pub fn new(chunks: Vec<Chunk>) -> Chunks {
        Chunks { chunks: chunks.into(), polled: 0 }
    }

    pub fn empty() -> Chunks {
        Chunks::new(vec![])
    }

    pub fn of(data: Vec<Bytes>) -> Chunks {
        Chunks::new(data.into_iter().map(Chunk::Data).collect())
    }

    pub fn whole(data: &[u8]) -> Chunks {
        Chunks::of(vec![Bytes::copy_from_slice(data)])
    }

    /// Inserts the stream error before chunk index `at` (`at == len` appends it).
    pub fn fail_at(mut self, at: usize) -> Chunks {
        let at = at.min(self.chunks.len());
        self.chunks.truncate(at);
        self.chunks.push_back(Chunk::Fail);
        self
    }

    pub fn remaining(&self) -> usize {
        self.chunks.len()
    }

    /// Drains the rest, concatenated; Err if the injected error is met.
    pub fn collect_bytes(self) -> Result<Vec<u8>, Error> {
        let mut out = vec![];
        for c in self {
            out.extend_from_slice(&c?);
        }
        Ok(out)
    }
}

impl Iterator for Chunks {
    type Item = Result<Bytes, Error>;

    fn next(&mut self) -> Option<Self::Item> {
        let c = self.chunks.pop_front()?;
        self.polled += 1;
        match c {
            Chunk::Data(b) => Some(Ok(b)),
            Chunk::Fail => {
                self.chunks.clear();
                Some(Err(Error::internal_safe(INJECTED)))
            }
        }
    }
}

/// Async flavour: returns `Pending` once before every item (waking itself), i.e. a delay at each
/// real suspension point of the code under test.
pub struct ChunkStream {
    inner: Chunks,
    ready: bool,
    pub pendings: usize,
}

impl ChunkStream {
    pub fn new(inner: Chunks) -> ChunkStream {
        ChunkStream { inner, ready: false, pendings: 0 }
    }

    pub async fn collect_bytes(mut self) -> Result<Vec<u8>, Error> {
        use futures::StreamExt;
        let mut out = vec![];
        while let Some(c) = self.next().await {
            out.extend_from_slice(&c?);
        }
        Ok(out)
    }
}

impl Stream for ChunkStream {
    type Item = Result<Bytes, Error>;

    fn poll_next(mut self: Pin<&mut Self>, cx: &mut Context<'_>) -> Poll<Option<Self::Item>> {
        if !self.ready {
            self.ready = true;
            self.pendings += 1;
            cx.waker().wake_by_ref();
            return Poll::Pending;
        }
        self.ready = false;
        Poll::Ready(self.inner.next())
    }
}

/// Random chunking of `data`, including empty chunks and the zero-chunk form of an empty body.
pub fn random_chunking(r: &mut Rng, data: &[u8]) -> Vec<Bytes> {
    let mut out = vec![];
    if data.is_empty() {
        for _ in 0..r.below(3) {
            out.push(Bytes::new());
        }
        return out;
    }
    let mode = r.below(6);
    let mut i = 0;
    while i < data.len() {
        if r.chance(1, 6) {
            out.push(Bytes::new());
        }
        let left = data.len() - i;
        let n = match mode {
            0 => left,
            1 => 1,
            2 => 1 + r.below(left.min(3)),
            3 => {
                if i == 0 {
                    1 + r.below(left)
                } else {
                    left
                }
            }
            _ => 1 + r.below(left),
        };
        out.push(Bytes::copy_from_slice(&data[i..i + n]));
        i += n;
    }
    if r.chance(1, 5) {
        out.push(Bytes::new());
    }
    out
}

/// All ways to split `data` into non-empty consecutive pieces, each combined with up to
/// `max_empty` empty chunks inserted at every position. For small bodies only (2^(n-1) splits).
pub fn all_chunkings(data: &[u8], max_empty: usize) -> Vec<Vec<Bytes>> {
    let n = data.len();
    let mut splits: Vec<Vec<Bytes>> = vec![];
    if n == 0 {
        splits.push(vec![]);
    } else {
        for mask in 0u32..(1u32 << (n - 1)) {
            let mut parts = vec![];
            let mut start = 0;
            for i in 0..n - 1 {
                if mask & (1 << i) != 0 {
                    parts.push(Bytes::copy_from_slice(&data[start..=i]));
                    start = i + 1;
                }
            }
            parts.push(Bytes::copy_from_slice(&data[start..]));
            splits.push(parts);
        }
    }
    let mut out = vec![];
    for s in splits {
        out.push(s.clone());
        if max_empty >= 1 {
            for p in 0..=s.len() {
                let mut v = s.clone();
                v.insert(p, Bytes::new());
                out.push(v.clone());
                if max_empty >= 2 {
                    for q in p..=v.len() {
                        let mut w = v.clone();
                        w.insert(q, Bytes::new());
                        out.push(w);
                    }
                }
            }
        }
    }
    out
}

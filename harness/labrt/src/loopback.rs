//! Loop-back transports: a `Client` / `AsyncClient` whose `send` routes the request to a set of
//! server endpoints, calls `handle`, and hands the rendered response back, re-chunked at random.
use crate::body::{random_chunking, ChunkStream, Chunks};
use crate::router::route;
use bytes::Bytes;
use conjure_error::Error;
use conjure_http::client::{AsyncClient, AsyncRequestBody, AsyncWriteBody, Client, RequestBody};
use conjure_http::server::{
    AsyncEndpoint, AsyncResponseBody, BoxAsyncEndpoint, Endpoint, EndpointMetadata, ResponseBody,
};
use conjure_http::SafeParams;
use http::{Extensions, HeaderMap, Method, Request, Response, StatusCode, Uri};
use std::sync::Mutex;
use vcore::Rng;

/// What the transport saw for one `send`.
#[derive(Debug, Default, Clone)]
pub struct Exchange {
    pub method: String,
    pub uri: String,
    pub request_headers: Vec<(String, Vec<u8>)>,
    pub request_body: Option<Vec<u8>>,
    pub endpoint: Option<String>,
    pub routes_matched: usize,
    pub status: Option<u16>,
    pub response_headers: Vec<(String, Vec<u8>)>,
    pub response_body: Option<Vec<u8>>,
    /// `SafeParams` response extension rendered as (name, JSON text)
    pub safe_params: Vec<(String, String)>,
    pub handler_error: Option<String>,
}

fn headers_vec(h: &HeaderMap) -> Vec<(String, Vec<u8>)> {
    h.iter().map(|(k, v)| (k.as_str().to_string(), v.as_bytes().to_vec())).collect()
}

pub fn safe_params_vec(ext: &Extensions) -> Vec<(String, String)> {
    match ext.get::<SafeParams>() {
        Some(p) => p
            .iter()
            .map(|(k, v)| (k.to_string(), conjure_serde::json::to_string(v).unwrap_or_else(|e| format!("<{}>", e))))
            .collect(),
        None => vec![],
    }
}

type SyncEndpoints = Vec<Box<dyn Endpoint<Chunks, Vec<u8>> + Sync + Send>>;

/// A scripted response: when set on a loop-back transport, `send` does not route the request but
/// answers with exactly this (body re-chunked at random, optionally with a stream error).
#[derive(Debug, Clone, Default)]
pub struct Canned {
    pub status: u16,
    /// header values as latin-1 strings (chars are bytes)
    pub headers: Vec<(String, String)>,
    pub body: Vec<u8>,
    /// index of the chunk before which the stream fails
    pub fail_at: Option<usize>,
}

impl Canned {
    fn response(&self, rng: &mut Rng) -> (http::response::Parts, Chunks, usize) {
        let chunks = random_chunking(rng, &self.body);
        let n = chunks.len();
        let mut c = Chunks::of(chunks);
        if let Some(at) = self.fail_at {
            c = c.fail_at(at);
        }
        let mut out = Response::new(());
        *out.status_mut() = StatusCode::from_u16(self.status).expect("status");
        for (k, v) in &self.headers {
            let bytes: Vec<u8> = v.chars().map(|c| c as u32 as u8).collect();
            out.headers_mut().append(
                http::header::HeaderName::from_bytes(k.as_bytes()).expect("header name"),
                http::HeaderValue::from_bytes(&bytes).expect("header value"),
            );
        }
        (out.into_parts().0, c, n)
    }
}

pub struct Loopback {
    endpoints: SyncEndpoints,
    rng: Mutex<Rng>,
    pub log: Mutex<Vec<Exchange>>,
    /// optional extra request headers (e.g. an Accept override for Smile negotiation)
    pub override_accept: Mutex<Option<http::HeaderValue>>,
    pub canned: Mutex<Option<Canned>>,
}

impl Loopback {
    pub fn new(endpoints: SyncEndpoints, seed: u64) -> Loopback {
        Loopback { endpoints, rng: Mutex::new(Rng::new(seed)), log: Mutex::new(vec![]), override_accept: Mutex::new(None), canned: Mutex::new(None) }
    }

    pub fn last(&self) -> Exchange {
        self.log.lock().unwrap().last().cloned().unwrap_or_default()
    }
}

fn not_found() -> Error {
    Error::internal_safe("verif-transport: no endpoint matches the request")
}

impl Client for &Loopback {
    type BodyWriter = Vec<u8>;
    type ResponseBody = Chunks;

    fn send(&self, req: Request<RequestBody<'_, Vec<u8>>>) -> Result<Response<Chunks>, Error> {
        let (mut parts, body) = req.into_parts();
        let mut ex = Exchange { method: parts.method.to_string(), uri: parts.uri.to_string(), ..Default::default() };
        let body = match body {
            RequestBody::Empty => None,
            RequestBody::Fixed(b) => Some(b.to_vec()),
            RequestBody::Streaming(mut w) => {
                let mut buf = vec![];
                w.write_body(&mut buf)?;
                Some(buf)
            }
        };
        if let Some(a) = self.override_accept.lock().unwrap().clone() {
            parts.headers.insert(http::header::ACCEPT, a);
        }
        ex.request_headers = headers_vec(&parts.headers);
        ex.request_body = body.clone();
        if let Some(canned) = self.canned.lock().unwrap().clone() {
            let (rparts, chunks, n) = canned.response(&mut self.rng.lock().unwrap());
            ex.status = Some(canned.status);
            ex.routes_matched = n; // number of body chunks of the canned response
            self.log.lock().unwrap().push(ex);
            return Ok(Response::from_parts(rparts, chunks));
        }
        let metas: Vec<&(dyn Endpoint<Chunks, Vec<u8>> + Sync + Send)> = self.endpoints.iter().map(|e| &**e).collect();
        let mut routed = route(&metas, &parts.method, parts.uri.path());
        ex.routes_matched = routed.len();
        if routed.len() != 1 {
            self.log.lock().unwrap().push(ex);
            return Err(not_found());
        }
        let r = routed.pop().unwrap();
        let endpoint = &self.endpoints[r.index];
        ex.endpoint = Some(endpoint.name().to_string());
        let chunks = {
            let mut rng = self.rng.lock().unwrap();
            random_chunking(&mut rng, body.as_deref().unwrap_or(&[]))
        };
        let mut sreq = Request::new(Chunks::of(chunks));
        *sreq.method_mut() = parts.method.clone();
        *sreq.uri_mut() = parts.uri.clone();
        *sreq.headers_mut() = parts.headers.clone();
        sreq.extensions_mut().insert(r.params);
        let mut ext = Extensions::new();
        let result = endpoint.handle(sreq, &mut ext);
        ex.safe_params = safe_params_vec(&ext);
        match result {
            Err(e) => {
                ex.handler_error = Some(crate::error_class(&e));
                self.log.lock().unwrap().push(ex);
                Err(e)
            }
            Ok(resp) => {
                let (rparts, rbody) = resp.into_parts();
                let bytes = match rbody {
                    ResponseBody::Empty => None,
                    ResponseBody::Fixed(b) => Some(b.to_vec()),
                    ResponseBody::Streaming(w) => {
                        let mut buf = vec![];
                        w.write_body(&mut buf)?;
                        Some(buf)
                    }
                };
                ex.status = Some(rparts.status.as_u16());
                ex.response_headers = headers_vec(&rparts.headers);
                ex.response_body = bytes.clone();
                let chunks = {
                    let mut rng = self.rng.lock().unwrap();
                    random_chunking(&mut rng, bytes.as_deref().unwrap_or(&[]))
                };
                let mut out = Response::new(Chunks::of(chunks));
                *out.status_mut() = rparts.status;
                *out.headers_mut() = rparts.headers;
                self.log.lock().unwrap().push(ex);
                Ok(out)
            }
        }
    }
}

pub struct AsyncLoopback {
    endpoints: Vec<BoxAsyncEndpoint<'static, ChunkStream, Vec<u8>>>,
    rng: Mutex<Rng>,
    pub log: Mutex<Vec<Exchange>>,
    pub override_accept: Mutex<Option<http::HeaderValue>>,
    pub canned: Mutex<Option<Canned>>,
}

impl AsyncLoopback {
    pub fn new(endpoints: Vec<BoxAsyncEndpoint<'static, ChunkStream, Vec<u8>>>, seed: u64) -> AsyncLoopback {
        AsyncLoopback { endpoints, rng: Mutex::new(Rng::new(seed)), log: Mutex::new(vec![]), override_accept: Mutex::new(None), canned: Mutex::new(None) }
    }

    pub fn last(&self) -> Exchange {
        self.log.lock().unwrap().last().cloned().unwrap_or_default()
    }
}

impl AsyncClient for &AsyncLoopback {
    type BodyWriter = Vec<u8>;
    type ResponseBody = ChunkStream;

    async fn send(&self, req: Request<AsyncRequestBody<'_, Vec<u8>>>) -> Result<Response<ChunkStream>, Error> {
        let (mut parts, body) = req.into_parts();
        let mut ex = Exchange { method: parts.method.to_string(), uri: parts.uri.to_string(), ..Default::default() };
        let body = match body {
            AsyncRequestBody::Empty => None,
            AsyncRequestBody::Fixed(b) => Some(b.to_vec()),
            AsyncRequestBody::Streaming(w) => {
                let mut buf = vec![];
                let mut w = std::pin::pin!(w);
                w.as_mut().write_body(std::pin::Pin::new(&mut buf)).await?;
                Some(buf)
            }
        };
        if let Some(a) = self.override_accept.lock().unwrap().clone() {
            parts.headers.insert(http::header::ACCEPT, a);
        }
        ex.request_headers = headers_vec(&parts.headers);
        ex.request_body = body.clone();
        if let Some(canned) = self.canned.lock().unwrap().clone() {
            let (rparts, chunks, n) = canned.response(&mut self.rng.lock().unwrap());
            ex.status = Some(canned.status);
            ex.routes_matched = n;
            self.log.lock().unwrap().push(ex);
            return Ok(Response::from_parts(rparts, ChunkStream::new(chunks)));
        }
        let metas: Vec<&BoxAsyncEndpoint<'static, ChunkStream, Vec<u8>>> = self.endpoints.iter().collect();
        let mut routed = route(&metas, &parts.method, parts.uri.path());
        ex.routes_matched = routed.len();
        if routed.len() != 1 {
            self.log.lock().unwrap().push(ex);
            return Err(not_found());
        }
        let r = routed.pop().unwrap();
        let endpoint = &self.endpoints[r.index];
        ex.endpoint = Some(endpoint.name().to_string());
        let chunks = {
            let mut rng = self.rng.lock().unwrap();
            random_chunking(&mut rng, body.as_deref().unwrap_or(&[]))
        };
        let mut sreq = Request::new(ChunkStream::new(Chunks::of(chunks)));
        *sreq.method_mut() = parts.method.clone();
        *sreq.uri_mut() = parts.uri.clone();
        *sreq.headers_mut() = parts.headers.clone();
        sreq.extensions_mut().insert(r.params);
        let mut ext = Extensions::new();
        let result = endpoint.handle(sreq, &mut ext).await;
        ex.safe_params = safe_params_vec(&ext);
        match result {
            Err(e) => {
                ex.handler_error = Some(crate::error_class(&e));
                self.log.lock().unwrap().push(ex);
                Err(e)
            }
            Ok(resp) => {
                let (rparts, rbody) = resp.into_parts();
                let bytes = match rbody {
                    AsyncResponseBody::Empty => None,
                    AsyncResponseBody::Fixed(b) => Some(b.to_vec()),
                    AsyncResponseBody::Streaming(w) => {
                        let mut buf = vec![];
                        conjure_http::server::AsyncWriteBody::write_body(w, std::pin::Pin::new(&mut buf)).await?;
                        Some(buf)
                    }
                };
                ex.status = Some(rparts.status.as_u16());
                ex.response_headers = headers_vec(&rparts.headers);
                ex.response_body = bytes.clone();
                let chunks = {
                    let mut rng = self.rng.lock().unwrap();
                    random_chunking(&mut rng, bytes.as_deref().unwrap_or(&[]))
                };
                let mut out = Response::new(ChunkStream::new(Chunks::of(chunks)));
                *out.status_mut() = rparts.status;
                *out.headers_mut() = rparts.headers;
                self.log.lock().unwrap().push(ex);
                Ok(out)
            }
        }
    }
}

/// Helper used by monitors that talk to an endpoint directly (no client): builds the server-side
/// request for a raw target, routing it first.
pub fn server_request<B>(method: Method, uri: &Uri, headers: HeaderMap, body: B, params: conjure_http::PathParams) -> Request<B> {
    let mut req = Request::new(body);
    *req.method_mut() = method;
    *req.uri_mut() = uri.clone();
    *req.headers_mut() = headers;
    req.extensions_mut().insert(params);
    req
}

pub fn status_of<B>(r: &Response<B>) -> StatusCode {
    r.status()
}

pub fn bytes_of(v: &[u8]) -> Bytes {
    Bytes::copy_from_slice(v)
}

//! Shared runtime of the HTTP monitors: scripted chunked bodies (blocking and async, with an
//! injectable stream error and a `Pending` between chunks), a router that does what an embedding
//! server does (method + raw path segments -> endpoint + `PathParams`), and loop-back transports
//! implementing `conjure_http::client::{Client, AsyncClient}` on top of a set of endpoints.
pub mod body;
pub mod lab;
pub mod loopback;
pub mod router;
pub mod svc;

pub use body::{all_chunkings, random_chunking, ChunkStream, Chunks, INJECTED};
pub use loopback::{AsyncLoopback, Exchange, Loopback};
pub use router::{route, Routed};

pub fn block_on<F: std::future::Future>(f: F) -> F::Output {
    futures::executor::block_on(f)
}

/// `ErrorKind::Service` code name of an error, or a tag for the other kinds.
pub fn error_class(e: &conjure_error::Error) -> String {
    match e.kind() {
        conjure_error::ErrorKind::Service(s) => format!("service:{:?}", s.error_code()),
        conjure_error::ErrorKind::Throttle(_) => "throttle".into(),
        conjure_error::ErrorKind::Unavailable(_) => "unavailable".into(),
        _ => "other".into(),
    }
}

/// Whether the error is the injected stream error (recognised by its safe cause text).
pub fn is_injected(e: &conjure_error::Error) -> bool {
    e.cause().to_string().contains(INJECTED)
}

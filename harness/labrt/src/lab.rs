//! Runtime of the generated-code labs (Bed B): a lab binary links real conjure-codegen output and
//! a driver written by irgen; it reads cases (JSON lines), executes them against the generated
//! types and writes one observation per case. All judging happens outside, against irgen's model.
use conjure_object::{FromPlain, ToPlain};
use conjure_serde::{json, smile};
use serde::de::DeserializeOwned;
use serde::Serialize;
use serde_json::{json as j, Value};
use std::collections::hash_map::DefaultHasher;
use std::collections::{BTreeSet, HashSet};
use std::fmt::Debug;
use std::hash::{Hash, Hasher};
use std::io::{BufRead, Write};
use std::panic::{catch_unwind, AssertUnwindSafe};

#[derive(serde::Deserialize)]
pub struct CaseIn {
    pub id: u64,
    pub ty: String,
    pub op: String,
    #[serde(default)]
    pub doc: String,
    #[serde(default)]
    pub docs: Vec<String>,
    /// service calls (op "call"): rust method name, arguments, scripted returns, flavour
    #[serde(default)]
    pub method: String,
    #[serde(default)]
    pub args: serde_json::Map<String, Value>,
    #[serde(default)]
    pub script: std::collections::HashMap<String, String>,
    #[serde(default)]
    pub flavour: String,
    /// raw requests (op "raw")
    #[serde(default)]
    pub http_method: String,
    #[serde(default)]
    pub uri: String,
    #[serde(default)]
    pub headers: Vec<(String, String)>,
    #[serde(default)]
    pub body: String,
    /// raw requests / canned responses: index of the chunk before which the body stream fails
    #[serde(default)]
    pub fail_at: Option<usize>,
    /// calls answered by a canned response (status, `headers`, `body`, `fail_at`) instead of the server
    #[serde(default)]
    pub canned_status: Option<u16>,
}

impl CaseIn {
    pub fn raw_spec(&self) -> crate::svc::RawSpec {
        crate::svc::RawSpec { method: self.http_method.clone(), uri: self.uri.clone(), headers: self.headers.clone(), body: self.body.clone(), seed: self.id, fail_at: self.fail_at }
    }

    pub fn call_spec(&self) -> crate::svc::CallSpec {
        crate::svc::CallSpec { method: self.method.clone(), args: crate::svc::Args(self.args.clone()), script: self.script.clone(), seed: self.id,
            canned: self.canned_status.map(|status| crate::loopback::Canned { status, headers: self.headers.clone(), body: self.body.chars().map(|c| c as u32 as u8).collect(), fail_at: self.fail_at }) }
    }
}

fn guard(f: impl FnOnce() -> Value) -> Value {
    match catch_unwind(AssertUnwindSafe(f)) {
        Ok(v) => v,
        Err(p) => {
            let msg = p.downcast_ref::<&str>().map(|s| s.to_string()).or_else(|| p.downcast_ref::<String>().cloned()).unwrap_or_default();
            j!({"panic": msg})
        }
    }
}

/// `lab <cases.jsonl> <results.jsonl>`
pub fn run_main(dispatch: impl Fn(&CaseIn) -> Option<Value>) {
    std::panic::set_hook(Box::new(|_| {}));
    let args: Vec<String> = std::env::args().collect();
    let input = std::io::BufReader::new(std::fs::File::open(&args[1]).expect("cases file"));
    let mut out = std::io::BufWriter::new(std::fs::File::create(&args[2]).expect("results file"));
    for line in input.lines() {
        let line = line.expect("read");
        if line.trim().is_empty() {
            continue;
        }
        let c: CaseIn = serde_json::from_str(&line).expect("case json");
        let result = guard(|| dispatch(&c).unwrap_or_else(|| j!({"harness_error": format!("no such type {}", c.ty)})));
        writeln!(out, "{}", j!({"id": c.id, "result": result})).unwrap();
    }
    out.flush().unwrap();
}

fn side<T: Serialize>(r: Result<T, String>) -> Value {
    match r {
        Ok(v) => match json::to_string(&v) {
            Ok(s) => j!({"ok": s}),
            Err(e) => j!({"ok_but_unserializable": e.to_string()}),
        },
        Err(e) => j!({"err": e}),
    }
}

/// Operations available on every generated type.
pub fn value_ops<T>(c: &CaseIn) -> Option<Value>
where
    T: Serialize + DeserializeOwned + Debug + PartialEq,
{
    Some(match c.op.as_str() {
        "de" => {
            let client = json::client_from_str::<T>(&c.doc).map_err(|e| e.to_string());
            let server = json::server_from_str::<T>(&c.doc).map_err(|e| e.to_string());
            let mut extra = serde_json::Map::new();
            if let Ok(v) = &client {
                // determinism of parsing, and stability of the canonical form
                let again = json::client_from_str::<T>(&c.doc).ok();
                extra.insert("same_twice".into(), j!(again.as_ref() == Some(v)));
                if let Ok(text) = json::to_string(v) {
                    let back = json::server_from_str::<T>(&text).ok();
                    extra.insert("reparse_equal".into(), j!(back.as_ref() == Some(v)));
                }
                match smile::to_vec(v) {
                    Ok(b) => {
                        let back = smile::server_from_slice::<T>(&b).ok();
                        extra.insert("smile_roundtrip".into(), j!(back.as_ref() == Some(v)));
                    }
                    Err(e) => {
                        extra.insert("smile_error".into(), j!(e.to_string()));
                    }
                }
                let dbg = format!("{:?}", v);
                extra.insert("debug_head".into(), j!(dbg.chars().take(24).collect::<String>()));
            }
            // the same document viewed through the dynamic `any` value (the route the payload of an `any` field takes)
            let via_any: Result<T, String> = json::client_from_str::<conjure_object::Any>(&c.doc)
                .map_err(|e| format!("any: {}", e))
                .and_then(|a| a.deserialize_into::<T>().map_err(|e| e.to_string()));
            let via_any_equal = match (&via_any, &client) {
                (Ok(a), Ok(b)) => Some(a == b),
                _ => None,
            };
            extra.insert("via_any".into(), match &via_any { Ok(_) => j!("ok"), Err(e) => j!(format!("err: {}", e.chars().take(120).collect::<String>())) });
            if let Some(eq) = via_any_equal {
                extra.insert("via_any_equal".into(), j!(eq));
            }
            j!({"client": side(client), "server": side(server), "extra": extra})
        }
        _ => return None,
    })
}

fn h<T: Hash>(v: &T) -> u64 {
    let mut s = DefaultHasher::new();
    v.hash(&mut s);
    s.finish()
}

/// Order / equality / hash laws over all triples of the values parsed from `docs`.
pub fn law_ops<T>(c: &CaseIn) -> Option<Value>
where
    T: Serialize + DeserializeOwned + Debug + Ord + Hash + Clone,
{
    if c.op != "laws" {
        return None;
    }
    let vals: Vec<T> = c.docs.iter().filter_map(|d| json::client_from_str::<T>(d).ok()).collect();
    let n = vals.len();
    let mut bad: Vec<Value> = vec![];
    let mut fail = |law: &str, idx: &[usize]| {
        if bad.len() < 5 {
            bad.push(j!({"law": law, "docs": idx}));
        }
    };
    use std::cmp::Ordering::*;
    let mut nontrivial_equal = 0u64;
    for i in 0..n {
        if vals[i] != vals[i] || vals[i].cmp(&vals[i]) != Equal {
            fail("reflexive", &[i]);
        }
        for k in 0..n {
            let (a, b) = (&vals[i], &vals[k]);
            let c1 = a.cmp(b);
            if (c1 == Equal) != (a == b) {
                fail("cmp-equal-iff-eq", &[i, k]);
            }
            if c1 != b.cmp(a).reverse() {
                fail("antisymmetric", &[i, k]);
            }
            if a.partial_cmp(b) != Some(c1) {
                fail("partial-cmp-agrees", &[i, k]);
            }
            if (a == b) != (b == a) {
                fail("eq-symmetric", &[i, k]);
            }
            if a == b && h(a) != h(b) {
                fail("equal-values-hash-equally", &[i, k]);
            }
            if a == b && i != k && c.docs.get(i) != c.docs.get(k) {
                nontrivial_equal += 1;
            }
            for m in 0..n {
                let d = &vals[m];
                if a <= b && b <= d && !(a <= d) {
                    fail("le-transitive", &[i, k, m]);
                }
                if a == b && b == d && a != d {
                    fail("eq-transitive", &[i, k, m]);
                }
            }
        }
    }
    let bt: BTreeSet<T> = vals.iter().cloned().collect();
    let hs: HashSet<T> = vals.iter().cloned().collect();
    let mut classes: Vec<&T> = vec![];
    for v in &vals {
        if !classes.iter().any(|c| *c == v) {
            classes.push(v);
        }
    }
    if bt.len() != classes.len() || hs.len() != classes.len() {
        fail("class-counts-differ", &[bt.len(), hs.len(), classes.len()]);
    }
    for (i, v) in vals.iter().enumerate() {
        if !bt.contains(v) || !hs.contains(v) {
            fail("inserted-value-not-found", &[i]);
        }
    }
    Some(j!({"parsed": n, "given": c.docs.len(), "triples": (n * n * n) as u64, "nontrivial_equal_pairs": nontrivial_equal, "violations": bad}))
}

/// PLAIN round trip for enums and aliases of PLAIN-capable types.
pub fn plain_ops<T>(c: &CaseIn) -> Option<Value>
where
    T: Serialize + DeserializeOwned + Debug + PartialEq + ToPlain + FromPlain,
{
    if c.op == "plain-text" {
        // the text parser alone: `doc` is the PLAIN text itself
        return Some(match T::from_plain(&c.doc) {
            Ok(v) => {
                let dbg = format!("{:?}", v);
                j!({"ok": json::to_string(&v).unwrap_or_default(), "text": v.to_plain(), "debug_head": dbg.chars().take(24).collect::<String>()})
            }
            Err(_) => j!({"err": true}),
        });
    }
    if c.op != "plain" {
        return None;
    }
    Some(match json::client_from_str::<T>(&c.doc) {
        Err(e) => j!({"parse_error": e.to_string()}),
        Ok(v) => {
            let text = v.to_plain();
            match T::from_plain(&text) {
                Ok(back) => j!({"text": text, "roundtrip_equal": back == v}),
                Err(_) => j!({"text": text, "from_plain_error": true}),
            }
        }
    })
}

/// Generated error types: what `conjure_error::encode` makes of a value parsed from `doc`.
pub fn error_ops<T>(c: &CaseIn) -> Option<Value>
where
    T: Serialize + DeserializeOwned + Debug + conjure_error::ErrorType,
{
    if c.op != "error" {
        return None;
    }
    Some(match json::client_from_str::<T>(&c.doc) {
        Err(e) => j!({"parse_error": e.to_string()}),
        Ok(v) => {
            let enc = conjure_error::encode(&v);
            let enc2 = conjure_error::encode(&v);
            let svc = conjure_error::Error::service_safe("lab", v);
            let safe: Vec<String> = svc.safe_params().iter().map(|(k, _)| k.to_string()).collect();
            let unsafe_: Vec<String> = svc.unsafe_params().iter().map(|(k, _)| k.to_string()).collect();
            let again = json::client_from_str::<T>(&c.doc).ok();
            j!({
                "code": format!("{:?}", enc.error_code()),
                "name": enc.error_name(),
                "instance_ids_differ": enc.error_instance_id() != enc2.error_instance_id(),
                "parameters": enc.parameters(),
                "safe_args": again.as_ref().map(|e| e.safe_args().to_vec()),
                "service_safe_params": safe,
                "service_unsafe_params": unsafe_,
                "wire": json::to_string(&enc).ok(),
            })
        }
    })
}
